"""C04 -- opacity interpolation in temperature and pressure is sound everywhere.

Spec: spec/Interp.tla (operators), spec/MC_Interp.tla (exhaustive + export), spec/Trace_Interp.tla.
Binding A: TLC-exported (table, query, exact result) vectors replayed into
           InterpolatingOpacity.opacity (xsec layout and k-table layout, full and sub-range grids).
Binding B: random integer tables / node spacings / queries through the real code, every call
           validated by TLC against the same operators (scaled comparison) + canary.
Edges:     spec/MC_InterpEdge.tla -- the same operators on a FINE lattice (milli-kelvin, micro-dex): queries a hair
           inside / outside every grid edge and beside every node; the region dispatch is exact, nothing is loosened.
Storage:   spec/TableStorage.tla -- memory order of the axes, element type and holder (array, pickle, HDF5 streamed /
           in memory, object served by OpacityCache) of the table are free dimensions: TLC exports the storage classes,
           the vectors are replayed through every one of them.
Routes:    spec/ModeRoute.tla -- how the mode reaches a table served by a cache (set_interpolation before / after a load,
           GlobalCache, nothing set): every cache holder (OpacityCache: pickle, HDF5, Exo-Transmit; KTableCache: pickle,
           HDF5) is crossed with every exported route.
GridType:  spec/MC_InterpGridType.tla + records GRIDTYPE of spec/TableStorage.tla -- element type of the temperature /
           pressure GRIDS (int64, int32, int16, float32, float64) x requests a fraction of a kelvin (2^-20, 1/2, 1 - 2^-20)
           beside every node, whole kelvin (also passed as integers), nodes, outside: the result does not depend on the
           grid's type (expected counterexample: the request converted to the grid's type before the cell search).
Contrast:  spec/MC_InterpContrast.tla -- entries 1, 1e-20, 1e-40 side by side in ONE table (graded exact values):
           every node (grid edges included), mid-point and outside query, both modes, relative 1e-12 to the value itself.
"""
import math
import os
import random
import shutil
import tempfile
from fractions import Fraction

import numpy as np

from ..core import Machinery, frac, close, validate_trace
from ..fixtures import GridOpacity, GridKTable

UNITS = [1.0, 1e-20, 1e-40]
REL = 1e-11


def expected_value(vec):
    a, b, w = frac(vec['a']), frac(vec['b']), frac(vec['w'])
    if w == 0:
        return float(a)
    if w == 1:
        return float(b)
    if vec['mode'] == 'linear':
        return float(a)
    return math.pow(float(a), 1.0 - float(w)) * math.pow(float(b), float(w))


def p_of(c, ys=1):
    """pressure (Pa) of the lattice coordinate c; ys lattice units per dex.  Whole decades are computed as 10.0 ** int,
    exactly as the nodes of the fixture tables are."""
    if c % ys == 0:
        return 10.0 ** (c // ys)
    return 10.0 ** (c / ys)


def coords_exact(pn, y, ys=1):
    """The region dispatch compares log10 values.  Nodes (whole decades): float log10 must reproduce the integers.
    A query off the nodes (fine lattice): its float log10 must lie strictly on the same side of every node as the
    lattice coordinate does (its distance from the node, >= 1e-6 dex, is far above the rounding of log10)."""
    if any(c % ys for c in pn):
        return False
    grid = np.log10(np.array([p_of(c, ys) for c in pn]))
    if not all(float(g) == float(c // ys) for g, c in zip(grid, pn)):
        return False
    lg = math.log10(p_of(y, ys))
    if y % ys == 0:
        return lg == float(y // ys)
    return all((lg < float(g)) == (y < c) and lg != float(g) for g, c in zip(grid, pn))


def t_of(x, xs=1):
    return float(x // xs) if x % xs == 0 else x / xs


def logical_table(tn, pn, tabs, unit, layout):
    """One logical table (cm^2) holding len(tabs) tables along the wavenumber axis; k-table layout: g = 0 carries the
    table, g = 1 three times the table."""
    K = len(tabs)
    wn = np.arange(1, K + 1) * 100.0
    x = np.zeros((len(pn), len(tn), K))
    for k, tab in enumerate(tabs):
        x[:, :, k] = np.array(tab, dtype=float)
    x *= 1e4 * unit
    if layout == 'xsec':
        return wn, x
    return wn, np.stack([x, x * 3.0], axis=-1)


NP_GRIDTYPE = {'i8': np.int64, 'i4': np.int32, 'i2': np.int16, 'f4': np.float32, 'f8': np.float64}


def retype_grids(op, gt):
    """Give the grids of a fixture object the element type of a GRIDTYPE record (TableStorage.tla).  The nodes are whole
    kelvin / whole pascal: they must be the same numbers in the new type."""
    dt = NP_GRIDTYPE[gt['gdtype']]
    for attr in ('_t', '_p') if gt['pgrid'] else ('_t',):
        old = getattr(op, attr)
        new = old.astype(dt)
        if new.dtype != np.dtype(dt) or not np.array_equal(new.astype(float), old):
            raise Machinery('grid %r is not representable with element type %s' % (old.tolist(), gt['gdtype']))
        setattr(op, attr, new)
    if op.temperatureGrid.dtype != np.dtype(dt):
        raise Machinery('fixture does not serve the typed temperature grid')
    return op


def build(tn, pn, tabs, mode, unit, layout, xs=1, ys=1, store=None, directory=None, route=None, gtype=None):
    """One fixture holding len(tabs) tables along the wavenumber axis.  tn, pn: node coordinates on the lattice
    (xs units per kelvin, ys per dex; nodes are whole kelvin / whole decades).  store: a storage class exported by
    TableStorage.tla (memory order, element type, holder), None = C-contiguous float64 array handed directly."""
    wn, x = logical_table(tn, pn, tabs, unit, layout)
    press = [p_of(c, ys) for c in pn]
    temps = [t_of(t, xs) for t in tn]
    if store is not None:
        from ..fx_opacstore import build_store
        op, closer = build_store(store, directory, wn, temps, press, x, [0.25, 0.75], mode, route=route['steps'] if route else None)
        op._verif_close = closer
        return op, wn
    op = GridOpacity('X', wn, temps, press, x, mode) if layout == 'xsec' else GridKTable('X', wn, temps, press, x, [0.25, 0.75], mode)
    if gtype is not None:
        retype_grids(op, gtype)
    return op, wn


def judge(vec, got, unit, rel=REL, relto_hi=False):
    """Return list of (clause, ok, detail) for one (vector, observed value in m^2).
    rel: relative tolerance of the arithmetic (REL for 8-byte tables; the storage class's own for 4-byte tables, then
    measured against the largest bracketing node: relto_hi)."""
    out = []
    g = got / unit
    reg = vec['reg']
    lo, hi = float(vec['lo']), float(vec['hi'])
    exp = expected_value(vec)
    finite = (g == g) and abs(g) != float('inf')
    out.append(('non_negative', finite and g >= 0.0, 'got %r' % g))
    if reg == 'zero':
        # documented exception; the nearest-node value would also satisfy the bounds clause
        out.append(('zero_below_both_minima', finite and (g == 0.0 or lo * (1 - rel) <= g <= hi * (1 + rel)), 'got %r' % g))
        return out
    tol = rel * max(abs(hi), 1e-300)
    out.append(('bracket_bounded', finite and lo - tol <= g <= hi + tol, 'got %r hull [%r,%r]' % (g, lo, hi)))
    if vec['inside']:
        ok = finite and (abs(g - exp) <= tol if relto_hi else close(g, exp, rel=rel, abs_=1e-300))
        out.append(('inside_value_' + vec['mode'], ok, 'got %r expected %r' % (g, exp)))
        if vec['x'] in vec['tn'] and vec['y'] in vec['pn']:
            node = vec['tab'][vec['pn'].index(vec['y'])][vec['tn'].index(vec['x'])]
            ok = finite and (abs(g - float(node)) <= tol if relto_hi else close(g, float(node), rel=rel))
            out.append(('node_exact', ok, 'got %r node %r' % (g, node)))
    return out


def std_passes():
    return [dict(layout='xsec', unit=u) for u in UNITS] + [dict(layout='ktable', unit=UNITS[0])]


def store_pass(st):
    """Pass through one storage class exported by TableStorage.tla: mag is the decimal exponent of the STORED (cm^2)
    values, the values returned (m^2) are 1e4 times smaller."""
    tol = frac(st['tol'])
    return dict(layout=st['layout'], unit=10.0 ** -(st['mag'] + 4), store=st,
                rel=float(tol) if tol else REL, relto_hi=bool(tol))


def grid_pass(gt, layout='xsec', intreq=False):
    """Pass through one element type of the grids (record GRIDTYPE of TableStorage.tla)."""
    tol = frac(gt['tol'])
    return dict(layout=layout, unit=1.0, gtype=gt, intreq=bool(intreq), rel=float(tol) if tol else REL, relto_hi=bool(tol))


def pass_cls(ps):
    st = ps.get('store')
    if ps.get('gtype') is not None:
        return '%s:grid:%s%s' % (ps['layout'], ps['gtype']['gdtype'], ':intT' if ps.get('intreq') else '')
    if st is None:
        return ps['layout']
    rt = ':route:' + ps['route']['name'] if ps.get('route') else ''
    return '%s:store:%s:%s:%s%s' % (ps['layout'], st['holder'], ''.join(str(a) for a in st['order']), st['dtype'], rt)


def route_passes(stores, routes, mode):
    """Storage passes for the vectors of `mode`: every cache holder crossed with every route of ModeRoute.tla that ends
    with `mode` wanted; the other holders get the mode as a constructor argument."""
    out = []
    for st in stores:
        if st['holder'].startswith('cache_'):
            mine = [r for r in routes if r['wanted'] == mode]
            if not mine:
                raise Machinery('no mode route exported for %r' % mode)
            out.extend(dict(store_pass(st), route=r) for r in mine)
        else:
            out.append(store_pass(st))
    return out


def edge_cls(v):
    return ':edge:%s/%s' % (v['sx'], v['sy']) if 'sx' in v else ''


def close_op(op):
    c = getattr(op, '_verif_close', None)
    if c:
        c()


def run_vectors(ctx, vecs, label, passes=None, subranges=True, tmpdir=None):
    """vecs: exported by TLC for one (tn, pn, mode).  Group by query so each call serves all tables."""
    if not vecs:
        raise Machinery('no vectors exported for ' + label)
    tn, pn, mode = vecs[0]['tn'], vecs[0]['pn'], vecs[0]['mode']
    xs, ys = vecs[0].get('xs', 1), vecs[0].get('ys', 1)
    tabs = []
    for v in vecs:
        if v['tab'] not in tabs:
            tabs.append(v['tab'])
    byq = {}
    for v in vecs:
        byq.setdefault((v['x'], v['y']), {})[tabs.index(v['tab'])] = v
    for (x, y) in byq:
        if not coords_exact(pn, y, ys):
            raise Machinery('log10 not faithful for coordinates %r %r (scale %r)' % (pn, y, ys))
    for ps in (passes if passes is not None else std_passes()):
        layout, unit = ps['layout'], ps['unit']
        pcls = pass_cls(ps)
        extra = dict(unit=unit, layout=layout)
        if ps.get('store') is not None:
            extra['store'] = ps['store']
            extra['tabs'] = tabs        # a replay has to rebuild the whole block: its shape is part of the storage class
            if ps.get('route'):
                extra['route'] = ps['route']
        if ps.get('gtype') is not None:
            extra['gtype'] = ps['gtype']
            extra['intreq'] = bool(ps.get('intreq'))
            extra['tabs'] = tabs
        try:
            op, wn = build(tn, pn, tabs, mode, unit, layout, xs, ys, ps.get('store'), tmpdir, ps.get('route'), ps.get('gtype'))
            err = None
        except Machinery:
            raise
        except Exception as e:     # noqa -- a reader / the cache refused a table inside the quantifier
            err = '%s: %s' % (type(e).__name__, e)
        if ps.get('store') is not None or err is not None:
            ctx.verdict('storage_class_served', err is None, cls='%s:%s' % (mode, pcls), detail='building the opacity object: %s' % err,
                        vector=dict(vecs[0], **extra))
        if err is not None:
            continue
        try:
            for (x, y), d in sorted(byq.items()):
                T, P = t_of(x, xs), p_of(y, ys)
                if ps.get('intreq'):        # whole-kelvin requests passed as integers (the others belong to the float pass)
                    if x % xs:
                        continue
                    T = int(x // xs)
                for sub in ((None, (1, max(2, len(tabs) - 1))) if subranges else (None,)):
                    idx = list(range(len(tabs))) if sub is None else list(range(sub[0], sub[1]))
                    shape = (len(idx),) if layout == 'xsec' else (len(idx), 2)
                    try:
                        res = np.asarray(op.opacity(T, P) if sub is None else op.opacity(T, P, wn[sub[0]:sub[1]]))
                        err = None if res.size == int(np.prod(shape)) else 'result of shape %r for %d requested points' % (res.shape, len(idx))
                    except Exception as e:     # noqa -- the implementation raised for a query inside the quantifier
                        err = '%s: %s' % (type(e).__name__, e)
                    anyv = next(iter(d.values()))
                    ctx.verdict('one_value_per_requested_point', err is None,
                                cls='%s:%s:%s%s%s' % (anyv['reg'], mode, pcls, '' if sub is None else ':subrange', edge_cls(anyv)),
                                detail='opacity(T=%r, P=%r%s): %s' % (T, P, '' if sub is None else ', sub-range', err),
                                vector=dict(anyv, sub=sub, **extra))
                    if err is not None:
                        continue
                    res = res.reshape(shape)
                    for j, k in enumerate(idx):
                        v = d.get(k)
                        if v is None:
                            continue
                        gots = [res[j]] if layout == 'xsec' else [res[j, 0], res[j, 1] / 3.0]
                        vd, vcls = None, '%s:%s:%s%s' % (v['reg'], mode, pcls, edge_cls(v))
                        for got in gots:
                            for clause, ok, detail in judge(v, float(got), unit, ps.get('rel', REL), ps.get('relto_hi', False)):
                                if not ok or vd is None:
                                    vd = dict(v, sub=sub, **extra)
                                ctx.verdict(clause, ok, cls=vcls, detail=detail, vector=vd)
        finally:
            close_op(op)


def one_vector(ctx, v):
    """Replay of a single stored vector."""
    st = v.get('store')
    ps = store_pass(st) if st else dict(layout=v.get('layout', 'xsec'), unit=v.get('unit', 1.0))
    if v.get('gtype'):
        ps = grid_pass(v['gtype'], ps['layout'], v.get('intreq'))
    if st and v.get('route'):
        ps['route'] = v['route']
    tabs = v.get('tabs') or [v['tab']]
    k = tabs.index(v['tab'])
    tmp = tempfile.mkdtemp(prefix='c04replay_') if st else None
    try:
        op, wn = build(v['tn'], v['pn'], tabs, v['mode'], ps['unit'], ps['layout'], v.get('xs', 1), v.get('ys', 1), st, tmp,
                       v.get('route'), v.get('gtype'))
        sub = v.get('sub')
        T, P = t_of(v['x'], v.get('xs', 1)), p_of(v['y'], v.get('ys', 1))
        if v.get('intreq'):
            T = int(T)
        if sub and len(tabs) > 1:
            res = np.asarray(op.opacity(T, P, wn[sub[0]:sub[1]]))
            k -= sub[0]
        else:
            res = np.asarray(op.opacity(T, P))
        close_op(op)
        res = res.reshape((-1,) if ps['layout'] == 'xsec' else (-1, 2))
        gots = [res[k]] if ps['layout'] == 'xsec' else [res[k, 0], res[k, 1] / 3.0]
        for got in gots:
            for clause, ok, detail in judge(v, float(got), ps['unit'], ps.get('rel', REL), ps.get('relto_hi', False)):
                ctx.verdict(clause, ok, cls='%s:%s:%s%s' % (v['reg'], v['mode'], pass_cls(ps), edge_cls(v)), detail=detail, vector=v)
    finally:
        if tmp:
            from ..fixtures import reset_caches
            reset_caches()
            shutil.rmtree(tmp, ignore_errors=True)


# ----------------------------------------------------------------------------
# magnitudes that differ INSIDE one table (spec/MC_InterpContrast.tla): graded vectors
# ----------------------------------------------------------------------------

DEC = 20            # decades per level of MC_InterpContrast: levels 1, 2, 3 = factors 1, 1e-20, 1e-40
# Tolerance of a contrast vector, from the arithmetic: the documented forms are sums / products of NON-NEGATIVE terms
# (no cancellation is needed to evaluate them), i.e. a handful of roundings, < 1e-15 relative to the RESULT ITSELF however
# small it is next to its neighbours; in exp mode the exponent w ln(a/b), |ln(a/b)| <= ln(37e40) < 96, carries
# 96 * 2^-52 = 2e-14.  1e-12 relative to the expected value is asserted (not to the largest bracketing node).
REL_CONTRAST = 1e-12


def graded(g):
    """exact value of a graded tuple exported by TLC"""
    return sum((frac(c) * Fraction(1, 10 ** (DEC * l)) for l, c in enumerate(g)), Fraction(0))


def contrast_table(v):
    return [[float(Fraction(m, 10 ** (DEC * (l - 1)))) for m, l in zip(mrow, lrow)] for mrow, lrow in zip(v['mant'], v['lev'])]


def judge_contrast(v, tab, got):
    out = []
    g = got
    finite = (g == g) and abs(g) != float('inf')
    rel = REL_CONTRAST
    a, b, w = graded(v['ga']), graded(v['gb']), frac(v['w'])
    if w == 0 or v['mode'] == 'linear':
        exp = float(a)
    elif w == 1:
        exp = float(b)
    else:
        exp = math.pow(float(a), 1.0 - float(w)) * math.pow(float(b), float(w))
    hull = [tab[p - 1][t - 1] for p, t in v['hull']]
    lo, hi = min(hull), max(hull)
    out.append(('non_negative', finite and g >= 0.0, 'got %r' % g))
    if v['reg'] == 'zero':
        out.append(('zero_below_both_minima', finite and (g == 0.0 or lo * (1 - rel) <= g <= hi * (1 + rel)), 'got %r' % g))
        return out
    out.append(('bracket_bounded', finite and lo * (1 - rel) <= g <= hi * (1 + rel), 'got %r hull [%r,%r]' % (g, lo, hi)))
    if v['inside']:
        out.append(('inside_value_' + v['mode'], finite and close(g, exp, rel=rel, abs_=0.0), 'got %r expected %r' % (g, exp)))
        if v['nx'] != 'off' and v['ny'] != 'off':
            node = tab[v['pn'].index(v['y'])][v['tn'].index(v['x'])]
            out.append(('node_exact', finite and close(g, node, rel=rel, abs_=0.0), 'got %r node %r' % (g, node)))
    return out


def run_contrast(ctx, vecs, label, layouts=('xsec', 'ktable')):
    """vecs: CVEC records of one (tn, pn, mode).  Every contrast pattern is one table along the wavenumber axis."""
    if not vecs:
        raise Machinery('no contrast vectors exported for ' + label)
    tn, pn, mode = vecs[0]['tn'], vecs[0]['pn'], vecs[0]['mode']
    pats, tabs = [], []
    for v in vecs:
        if v['pat'] not in pats:
            pats.append(v['pat'])
            tabs.append(contrast_table(v))
    byq = {}
    for v in vecs:
        byq.setdefault((v['x'], v['y']), {})[pats.index(v['pat'])] = v
    for (x, y) in byq:
        if not coords_exact(pn, y):
            raise Machinery('log10 not faithful for coordinates %r %r' % (pn, y))
    for layout in layouts:
        op, wn = build(tn, pn, tabs, mode, 1.0, layout)
        for (x, y), d in sorted(byq.items()):
            T, P = t_of(x), p_of(y)
            shape = (len(tabs),) if layout == 'xsec' else (len(tabs), 2)
            try:
                res = np.asarray(op.opacity(T, P), dtype=float)
                err = None if res.size == int(np.prod(shape)) else 'result of shape %r for %d requested points' % (res.shape, len(tabs))
            except Exception as e:     # noqa -- the implementation raised for a query inside the quantifier
                err = '%s: %s' % (type(e).__name__, e)
            anyv = next(iter(d.values()))
            ctx.verdict('one_value_per_requested_point', err is None, cls='%s:%s:%s:contrast' % (anyv['reg'], mode, layout),
                        detail='opacity(T=%r, P=%r): %s' % (T, P, err), vector=dict(anyv, contrast=True, layout=layout))
            if err is not None:
                continue
            res = res.reshape(shape)
            for k, v in d.items():
                gots = [res[k]] if layout == 'xsec' else [res[k, 0], res[k, 1] / 3.0]
                vcls = '%s:%s:%s:contrast:%s:%s/%s%s' % (v['reg'], mode, layout, v['pat'][0], v['nx'], v['ny'], ':w1' if v['w1'] else '')
                vd = None
                for got in gots:
                    for clause, ok, detail in judge_contrast(v, tabs[k], float(got)):
                        if not ok or vd is None:
                            vd = dict(v, contrast=True, layout=layout)
                        ctx.verdict(clause, ok, cls=vcls, detail=detail, vector=vd)


def random_events(rng, n, mode):
    """Random tables, spacings and queries through the real code -> trace events."""
    events, skipped = [], 0
    S = 1000
    while len(events) < n:
        nt, npp = rng.randint(2, 8), rng.randint(2, 6)
        tn = [rng.randint(60, 400)]
        for _ in range(nt - 1):
            tn.append(tn[-1] + rng.randint(1, 20))
        pn = [rng.randint(-6, 6)]        # every decade: float log10 conventions differ between decades (1e3, 1e6 ...)
        for _ in range(npp - 1):
            pn.append(pn[-1] + rng.randint(1, 3))
        lo = 1 if mode == 'exp' else 0
        style = rng.random()
        if style < 0.3:
            tab = [[rng.randint(lo, 100) for _ in range(nt)] for _ in range(npp)]
        elif style < 0.6:   # steep tables: extrapolation would leave the hull visibly
            tab = [[(1 + p) * (1 + t) * rng.randint(1, 3) + lo for t in range(nt)] for p in range(npp)]
        else:
            tab = [[rng.choice([lo, lo, 1, 50, 100]) for _ in range(nt)] for _ in range(npp)]
        unit = rng.choice(UNITS)
        op, wn = build(tn, pn, [tab], mode, unit, 'xsec')
        for _ in range(12):
            r = rng.random()
            x = rng.choice(tn) if r < 0.25 else rng.randint(max(1, tn[0] - 30), tn[-1] + 30)
            r = rng.random()
            y = rng.choice(pn) if r < 0.25 else rng.randint(pn[0] - 2, pn[-1] + 2)
            if not coords_exact(pn, y):
                skipped += 1
                continue
            got = float(np.asarray(op.opacity(float(x), p_of(y))).ravel()[0]) / unit
            if got != got or abs(got) > 1e5:
                m = -1      # NaN / overflow: reported through NonNegative
            else:
                m = int(round(got * S))
            events.append(dict(id=len(events), tn=tn, pn=pn, tab=tab, x=x, y=y, S=S, m=m, mode=mode, tol=1,
                               got=repr(got)))
    return events, skipped


def run_traces(ctx, n_lin, n_exp):
    rng = random.Random(ctx.seed * 7919 + 4)
    for mode, n in (('linear', n_lin), ('exp', n_exp)):
        events, skipped = random_events(rng, n, mode)
        slim = [{k: v for k, v in e.items() if k != 'got'} for e in events]
        accepted, bad, res = validate_trace('Trace_Interp', 'Trace_Interp.cfg', slim)
        ctx.add_tlc('trace-%s' % mode, res, counts=False)
        if res.postcondition_false and not bad:
            raise Machinery('trace spec did not consume the whole trace:\n' + res.out[-1500:])
        badids = {b['id']: b for b in bad}
        ctx.traces += len(events)
        for e in events:
            b = badids.get(e['id'])
            ctx.verdict('trace_' + mode, b is None, cls='%s:%s:trace' % (b['reg'] if b else '', mode),
                        detail='TLC rejected event: got %s' % e['got'], vector=dict(e, trace=True))
        ctx.add_sample(dict(trace_event=slim[0]))
        ctx.note('%s traces: %d events, %d skipped (inexact log10)' % (mode, len(events), skipped))
        # canary: corrupt one logged result of an accepted event; TLC must reject exactly it
        good = [e for e in slim if e['id'] not in badids and e['m'] > 5]
        if not good:
            if ctx.has_violations():
                continue
            raise Machinery('no event available for the canary')
        c = dict(good[len(good) // 2])
        c['m'] = c['m'] * 3 + 7 + 100 * c['S']
        ok2, bad2, _ = validate_trace('Trace_Interp', 'Trace_Interp.cfg', [c])
        if ok2 or not bad2:
            raise Machinery('canary accepted: trace validation is vacuous')


# ----------------------------------------------------------------------------
# long-lived opacity objects: mode switches, sub-ranges and queries in any order (spec/Functional.tla walks)
# ----------------------------------------------------------------------------

H_TN = [200, 300, 700, 800]
H_PN = [1, 3, 6]
H_TAB = [[[3, 9, 2, 7], [8, 1, 6, 4], [5, 7, 3, 9]], [[1, 4, 9, 2], [6, 6, 1, 8], [2, 9, 4, 3]], [[7, 2, 5, 5], [3, 8, 8, 1], [9, 1, 2, 6]]]
H_QUERIES = [[(100, 0), (250, 0), (900, 0), (100, 2), (250, 2), (900, 2), (100, 8), (250, 8), (900, 8)],     # one per region
             [(200, 1), (300, 3), (800, 6), (200, 0), (800, 7), (500, 1), (500, 6), (200, 4), (800, 2)],     # nodes and edges
             [(450, 2), (450, 5), (760, 4), (210, 4), (650, 0), (650, 7), (150, 5), (850, 5), (299, 3)]]     # inside the cells


def history_scenarios(tmpdir):
    from .. import history
    from ..fx_files import write_pickle_opacity
    from taurex.cache import OpacityCache, GlobalCache

    def table():
        K = len(H_TAB)
        x = np.zeros((len(H_PN), len(H_TN), K))
        for k, tab in enumerate(H_TAB):
            x[:, :, k] = np.array(tab, dtype=float)
        return np.arange(1, K + 1) * 100.0, x

    def ask(op, wn, sub, qs):
        out = []
        for (T, y) in qs:
            if sub is None:
                out.append(np.asarray(op.opacity(float(T), p_of(y)), dtype=float))
            else:
                out.append(np.asarray(op.opacity(float(T), p_of(y), wn[sub[0]:sub[1]]), dtype=float))
        return out

    class Direct(history.Scenario):
        """ONE GridOpacity / GridKTable object; the mode is changed with set_interpolation_mode()."""

        def __init__(self, layout):
            self.name = 'opacity-object:' + layout
            self.layout = layout
            self.dims = [['linear', 'exp', 'linear'][:2] + ['exp'], [None, (1, 3), (0, 2)], [0, 1, 2]]
            self.dims[0] = ['linear', 'exp']

        def fresh(self, v):
            op, wn = build(H_TN, H_PN, H_TAB, v[0], 1.0, self.layout)
            op._verif = dict(wn=wn, sub=v[1], q=v[2])
            return op

        def set(self, op, d, value, values):
            if d == 0:
                op.set_interpolation_mode(value)
            elif d == 1:
                op._verif['sub'] = value
            else:
                op._verif['q'] = value

        def observe(self, op):
            return ask(op, op._verif['wn'], op._verif['sub'], H_QUERIES[op._verif['q']])

    class Cached(history.Scenario):
        """The object served by OpacityCache for a pickle file; the mode is changed with OpacityCache.set_interpolation()."""
        name = 'opacity-cache:pickle'
        dims = [['linear', 'exp'], [None, (1, 3), (0, 2)], [0, 1, 2]]

        def __init__(self):
            wn, x = table()
            self.wn = wn
            self.path = os.path.join(tmpdir, 'xsec')
            os.makedirs(self.path, exist_ok=True)
            write_pickle_opacity(self.path, 'HVX', wn, H_TN, [p_of(c) for c in H_PN], x)

        def fresh(self, v):
            OpacityCache().clear_cache()
            OpacityCache().set_opacity_path(self.path)
            OpacityCache().set_interpolation(v[0])
            return dict(sub=v[1], q=v[2])

        def set(self, st, d, value, values):
            if d == 0:
                OpacityCache().set_interpolation(value)
            elif d == 1:
                st['sub'] = value
            else:
                st['q'] = value

        def observe(self, st):
            return ask(OpacityCache()['HVX'], self.wn, st['sub'], H_QUERIES[st['q']])

    return [Direct('xsec'), Direct('ktable'), Cached()]


def run_histories(ctx, nwalks):
    import shutil
    import tempfile
    from .. import history
    from ..fixtures import reset_caches
    tmp = tempfile.mkdtemp(prefix='c04hist_')
    try:
        scs = history_scenarios(tmp)
        # the reference of a walk is a freshly built object: make sure it is the specification's value in both modes
        n = history.run_history(ctx, scs, nwalks, clause='history_independent')
    finally:
        reset_caches()
        shutil.rmtree(tmp, ignore_errors=True)
    return n


def run(ctx):
    q = ctx.tier == 'quick'
    ctx.bounds = dict(tier=ctx.tier, exhaustive='3x3 (lin) / 2x3 or 3x3 (exp) tables over small value sets, all node/edge/mid/outside queries',
                      vectors='one-hot + 3 generic tables on two node layouts, both modes, xsec + k-table layouts, 3 magnitudes, sub-range grids',
                      edges='fine lattice 1e-3 K x 1e-6 dex: queries 1, 30 (T) / 1, 30, 1000 (P) lattice units beside every node, crossed with coarse queries',
                      storage='named axis orders (quick) / all 24 + 6 permutations (thorough), float64 / float32, array / pickle / HDF5 streamed, in memory / OpacityCache, stored values down to 1e-40 cm2')
    ctx.assumptions = ['float pow() evaluates a^(1-w) b^w from exact rationals (analytic lemma: monotone in w)',
                       'TLC + CommunityModules Json/IOUtils', 'fixtures subclass InterpolatingOpacity/KTable only to supply tables']
    for mode in ('lin', 'exp'):
        ctx.check_spec('exhaustive-%s' % mode, 'MC_Interp', 'MC_Interp_%s_%s.cfg' % (mode, ctx.tier), need_actions=('Eval',),
                       workers=4 if q else 16)
    ctx.exhaustive = True
    def uniq_vecs(res):
        seen, uniq = set(), []
        for v in res.tagged('VEC'):
            key = repr(v)
            if key not in seen:
                seen.add(key)
                uniq.append(v)
        return uniq

    keep = {}
    for cfg in ('EX_Interp_lin.cfg', 'EX_Interp_exp.cfg', 'EX_Interp_lin2.cfg', 'EX_Interp_exp2.cfg', 'EX_Interp_lin3.cfg', 'EX_Interp_exp3.cfg'):
        res = ctx.check_spec('export-' + cfg, 'MC_Interp', cfg, workers=1)
        keep[cfg] = uniq_vecs(res)
        run_vectors(ctx, keep[cfg], cfg)

    # -- a hair inside / outside every edge, beside every node (fine lattice; the dispatch is exact)
    ctx.expect_refuted('edge-tolerance-P (expected counterexample)', 'MC_InterpEdge', 'XC_InterpEdge_tolP.cfg', 'BracketBounded', workers=1)
    if not q:
        ctx.expect_refuted('edge-tolerance-T (expected counterexample)', 'MC_InterpEdge', 'XC_InterpEdge_tolT.cfg', 'ZeroBelowBothMinima', workers=1)
    nedge = 0
    for cfg in ('EX_InterpEdge_lin.cfg', 'EX_InterpEdge_exp.cfg'):
        res = ctx.check_spec('export-' + cfg, 'MC_InterpEdge', cfg, workers=1)
        vecs = uniq_vecs(res)
        sides = {(v['sx'], v['sy']) for v in vecs}
        for need in (('coarse', 'out'), ('coarse', 'in'), ('node', 'beside'), ('out', 'coarse'), ('in', 'node'), ('beside', 'coarse')):
            if need not in sides:
                raise Machinery('vacuous: no query of class %r exported by %s' % (need, cfg))
        nedge += len(vecs)
        passes = [dict(layout='xsec', unit=UNITS[0]), dict(layout='ktable', unit=UNITS[0])] if q else std_passes()
        run_vectors(ctx, vecs, cfg, passes=passes, subranges=not q)
    ctx.note('edge vectors (queries 1e-6 .. 1e-3 dex / 1e-3 .. 3e-2 K beside every node): %d' % nedge)

    # -- magnitudes that differ inside one table: 1e-40 next to 1, every node (grid edges included), both modes
    ctx.expect_refuted('contrast: cancelling kernel form loses a node next to a larger one (expected counterexample)',
                       'MC_InterpContrast', 'XC_InterpContrast_cancelling.cfg', 'NodeExactG', workers=1)
    ctx.expect_refuted('contrast: open upper temperature edge (expected counterexample)',
                       'MC_InterpContrast', 'XC_InterpContrast_openT.cfg', 'NodeExactG', workers=1)
    ctx.check_spec('contrast: closed upper temperature edge (control of the counterexample)', 'MC_InterpContrast',
                   'MC_InterpContrast_closedT_edge.cfg', workers=1)
    if not q:
        ctx.check_spec('contrast: convex kernel form reproduces every node', 'MC_InterpContrast', 'MC_InterpContrast_convex.cfg', workers=1)
    ncon = 0
    for cfg in ('EX_InterpContrast_lin.cfg', 'EX_InterpContrast_exp.cfg'):
        res = ctx.check_spec('export-' + cfg, 'MC_InterpContrast', cfg, workers=1)
        cvecs = res.tagged('CVEC')
        have = {(v['nx'], v['ny']) for v in cvecs}
        for need in (('last', 'first'), ('last', 'off'), ('first', 'last'), ('off', 'last'), ('inner', 'inner'), ('last', 'inner'), ('first', 'first')):
            if need not in have:
                raise Machinery('vacuous: no contrast query of node class %r exported by %s' % (need, cfg))
        if len({tuple(v['pat']) for v in cvecs}) < 10 or not any(l == 3 for v in cvecs for row in v['lev'] for l in row):
            raise Machinery('vacuous: contrast patterns / 1e-40 level missing in ' + cfg)
        ncon += len(cvecs)
        run_contrast(ctx, cvecs, cfg)
    ctx.note('contrast vectors (entries 1, 1e-20, 1e-40 side by side in one table; all nodes, mid-points, outside): %d' % ncon)

    # -- storage classes of the table (memory order of the axes, element type, holder)
    ctx.expect_refuted('memory-order-flatten (expected counterexample)', 'TableStorage', 'XC_TableStorage_memorder.cfg', 'PlaneHandedLogical', workers=1)
    res = ctx.check_spec('export-storage-classes', 'TableStorage', 'EX_TableStorage_%s.cfg' % ctx.tier, workers=1)
    stores = res.tagged('STORE')
    have = {(st['layout'], st['holder']) for st in stores}
    for lay, holders in (('xsec', ('array', 'pickle', 'hdf5_stream', 'hdf5_memory', 'cache_pickle', 'cache_hdf5', 'cache_exotransmit')),
                         ('ktable', ('array', 'pickle', 'hdf5_stream', 'hdf5_memory', 'cache_pickle', 'cache_hdf5'))):
        for h in holders:
            if (lay, h) not in have:
                raise Machinery('vacuous: storage class %s/%s not exported' % (lay, h))
    if not any(st['layout'] == 'ktable' and not st['wnmajor'] for st in stores) or not any(st['dtype'] == 'f4' for st in stores):
        raise Machinery('vacuous: no g-major k-table / no 4-byte storage class exported')
    # -- how the mode reaches a table served by a cache (spec/ModeRoute.tla): every cache holder x every route
    ctx.expect_refuted('mode-route: discover() reads a key nobody writes (expected counterexample)', 'ModeRoute', 'XC_ModeRoute_key.cfg',
                       'ServedModeIsWanted', workers=1)
    ctx.expect_refuted('mode-route: setter keeps the loaded tables (expected counterexample)', 'ModeRoute', 'XC_ModeRoute_noclear.cfg',
                       'ServedModeIsWanted', workers=1)
    routes = ctx.check_spec('export-mode-routes', 'ModeRoute', 'EX_ModeRoute.cfg', workers=1).tagged('ROUTE')
    for need in ('set_before', 'set_after', 'global_before', 'default'):
        if not any(r['name'] == need for r in routes):
            raise Machinery('vacuous: mode route %r not exported' % need)
    from ..fixtures import reset_caches
    tmp = tempfile.mkdtemp(prefix='c04store_')
    nstorevec = 0
    try:
        for cfg in ('EX_Interp_lin3.cfg', 'EX_Interp_exp3.cfg'):
            vecs = keep[cfg]
            if q:       # quick: the generic (all entries distinct) tables and two of the one-hot tables on the wavenumber axis
                tabs = []
                for v in vecs:
                    if v['tab'] not in tabs:
                        tabs.append(v['tab'])
                generic = [t for t in tabs if len({e for row in t for e in row}) > 2]
                onehot = [t for t in tabs if t not in generic]
                chosen = generic + onehot[:1] + onehot[-1:]
                vecs = [v for v in vecs if v['tab'] in chosen]
                if len(generic) < 3 or len(chosen) < 5:
                    raise Machinery('storage vectors: generic tables not found')
            nstorevec += len(vecs)
            run_vectors(ctx, vecs, cfg + ':storage', passes=route_passes(stores, routes, vecs[0]['mode']), tmpdir=os.path.join(tmp, 's'))
    finally:
        reset_caches()
        from taurex.cache import GlobalCache
        GlobalCache()['xsec_interpolation'] = None
        shutil.rmtree(tmp, ignore_errors=True)
    ctx.note('mode routes driven on every cache holder (OpacityCache / KTableCache x pickle / HDF5): %s'
             % sorted({r['name'] for r in routes}))
    ctx.note('storage classes driven (layout x holder x axis order x element type x magnitude): %d, each through %d vectors (both modes)'
             % (len(stores), nstorevec))

    # -- element type of the GRIDS (records GRIDTYPE of TableStorage.tla) x requests beside the nodes (MC_InterpGridType.tla)
    ctx.expect_refuted('grid-type: request converted to the element type of the grid before the cell search (expected counterexample)',
                       'MC_InterpGridType', 'XC_InterpGridType_cast.cfg', 'CellBracketsRequest', workers=1)
    gtypes = res.tagged('GRIDTYPE')
    for need in ('i8', 'i4', 'i2', 'f4', 'f8'):
        if not any(g['gdtype'] == need for g in gtypes):
            raise Machinery('vacuous: grid element type %r not exported' % need)
    ngrid = 0
    for cfg in ('EX_InterpGridType_lin.cfg', 'EX_InterpGridType_exp.cfg'):
        gvecs = uniq_vecs(ctx.check_spec('export-' + cfg, 'MC_InterpGridType', cfg, workers=1))
        have = {v['sx'] for v in gvecs}
        for need in ('above', 'below', 'whole', 'node', 'out'):
            if need not in have:
                raise Machinery('vacuous: no request of class %r exported by %s' % (need, cfg))
        ngrid += len(gvecs)
        passes = []
        for g in gtypes:
            for layout in (('xsec',) if q and g['gdtype'] not in ('i4',) else ('xsec', 'ktable')):
                passes.append(grid_pass(g, layout))
                if g['integer']:
                    passes.append(grid_pass(g, layout, intreq=True))
        run_vectors(ctx, gvecs, cfg, passes=passes, subranges=False)
        # whole-kelvin requests (also as integers) on the wide cells of the generic vectors
        wide = keep['EX_Interp_lin3.cfg' if cfg.endswith('lin.cfg') else 'EX_Interp_exp3.cfg']
        if max(wide[0]['pn']) > 4:
            passes = [ps for ps in passes if ps['gtype']['gdtype'] != 'i2' or not ps['gtype']['pgrid']]
        run_vectors(ctx, wide, cfg + ':wide', passes=[ps for ps in passes if ps['layout'] == 'xsec'], subranges=False)
    ctx.note('grid element types driven (temperature / pressure nodes as int64, int32, int16, float32, float64; requests 2^-20 .. '
             '1 - 2^-20 K beside every node, whole kelvin as float and as integer): %d types x %d vectors' % (len(gtypes), ngrid))
    run_traces(ctx, 1500 if q else 12000, 800 if q else 6000)
    nh = run_histories(ctx, 10 if q else 60)
    ctx.note('history walks on long-lived opacity objects (mode switches on the object and through the cache, sub-ranges, all regions): %d' % nh)


def replay(ctx, violations):
    for v in violations:
        vec = v['vector']
        if vec.get('contrast'):
            run_contrast(ctx, [vec], 'replay', layouts=(vec.get('layout', 'xsec'),))
        elif vec.get('trace'):
            e = {k: vec[k] for k in ('id', 'tn', 'pn', 'tab', 'x', 'y', 'S', 'mode', 'tol')}
            op, wn = build(e['tn'], e['pn'], [e['tab']], e['mode'], 1.0, 'xsec')
            got = float(np.asarray(op.opacity(float(e['x']), p_of(e['y']))).ravel()[0])
            e['m'] = int(round(got * e['S'])) if got == got and abs(got) < 1e5 else -1
            ok, bad, _ = validate_trace('Trace_Interp', 'Trace_Interp.cfg', [e])
            ctx.verdict('trace_' + e['mode'], not bad, cls='%s:%s:trace' % (bad[0]['reg'] if bad else '', e['mode']),
                        detail='got %r' % got, vector=vec)
        else:
            one_vector(ctx, vec)
