"""C04 -- opacity interpolation in temperature and pressure is sound everywhere.

Spec: spec/Interp.tla (operators), spec/MC_Interp.tla (exhaustive + export), spec/Trace_Interp.tla.
Binding A: TLC-exported (table, query, exact result) vectors replayed into
           InterpolatingOpacity.opacity (xsec layout and k-table layout, full and sub-range grids).
Binding B: random integer tables / node spacings / queries through the real code, every call
           validated by TLC against the same operators (scaled comparison) + canary.
"""
import math
import os
import random
from fractions import Fraction

import numpy as np

from ..core import Machinery, frac, close, validate_trace
from ..fixtures import GridOpacity, GridKTable

UNITS = [1.0, 1e-20, 1e-40]
REL = 1e-11


def expected_value(vec):
    a, b, w = frac(vec['a']), frac(vec['b']), frac(vec['w'])
    if w == 0:
        return float(a)
    if w == 1:
        return float(b)
    if vec['mode'] == 'linear':
        return float(a)
    return math.pow(float(a), 1.0 - float(w)) * math.pow(float(b), float(w))


def p_of(c):
    return 10.0 ** c


def coords_exact(pn, y):
    """The region dispatch compares log10 values: make sure float log10 reproduces the integers."""
    grid = np.log10(np.array([p_of(c) for c in pn]))
    return all(float(g) == float(c) for g, c in zip(grid, pn)) and math.log10(p_of(y)) == float(y)


def build(tn, pn, tabs, mode, unit, layout):
    """One fixture holding len(tabs) tables along the wavenumber axis."""
    K = len(tabs)
    wn = np.arange(1, K + 1) * 100.0
    x = np.zeros((len(pn), len(tn), K))
    for k, tab in enumerate(tabs):
        x[:, :, k] = np.array(tab, dtype=float)
    x *= 1e4 * unit
    press = [p_of(c) for c in pn]
    if layout == 'xsec':
        return GridOpacity('X', wn, tn, press, x, mode), wn
    kc = np.stack([x, x * 3.0], axis=-1)
    return GridKTable('X', wn, tn, press, kc, [0.25, 0.75], mode), wn


def judge(vec, got, unit):
    """Return list of (clause, ok, detail) for one (vector, observed value in m^2)."""
    out = []
    g = got / unit
    reg = vec['reg']
    lo, hi = float(vec['lo']), float(vec['hi'])
    exp = expected_value(vec)
    finite = (g == g) and abs(g) != float('inf')
    out.append(('non_negative', finite and g >= 0.0, 'got %r' % g))
    if reg == 'zero':
        # documented exception; the nearest-node value would also satisfy the bounds clause
        out.append(('zero_below_both_minima', finite and (g == 0.0 or lo * (1 - REL) <= g <= hi * (1 + REL)), 'got %r' % g))
        return out
    tol = REL * max(abs(hi), 1e-300)
    out.append(('bracket_bounded', finite and lo - tol <= g <= hi + tol, 'got %r hull [%r,%r]' % (g, lo, hi)))
    if vec['inside']:
        out.append(('inside_value_' + vec['mode'], finite and close(g, exp, rel=REL, abs_=1e-300),
                    'got %r expected %r' % (g, exp)))
        if vec['x'] in vec['tn'] and vec['y'] in vec['pn']:
            node = vec['tab'][vec['pn'].index(vec['y'])][vec['tn'].index(vec['x'])]
            out.append(('node_exact', finite and close(g, float(node), rel=REL), 'got %r node %r' % (g, node)))
    return out


def run_vectors(ctx, vecs, label):
    """vecs: exported by TLC for one (tn, pn, mode).  Group by query so each call serves all tables."""
    if not vecs:
        raise Machinery('no vectors exported for ' + label)
    tn, pn, mode = vecs[0]['tn'], vecs[0]['pn'], vecs[0]['mode']
    tabs = []
    for v in vecs:
        if v['tab'] not in tabs:
            tabs.append(v['tab'])
    byq = {}
    for v in vecs:
        byq.setdefault((v['x'], v['y']), {})[tabs.index(v['tab'])] = v
    for layout in ('xsec', 'ktable'):
        for unit in (UNITS if layout == 'xsec' else UNITS[:1]):
            op, wn = build(tn, pn, tabs, mode, unit, layout)
            for (x, y), d in sorted(byq.items()):
                if not coords_exact(pn, y):
                    raise Machinery('log10 not exact for coordinates %r %r' % (pn, y))
                T, P = float(x), p_of(y)
                for sub in (None, (1, max(2, len(tabs) - 1))):
                    idx = list(range(len(tabs))) if sub is None else list(range(sub[0], sub[1]))
                    shape = (len(idx),) if layout == 'xsec' else (len(idx), 2)
                    try:
                        res = np.asarray(op.opacity(T, P) if sub is None else op.opacity(T, P, wn[sub[0]:sub[1]]))
                        err = None if res.size == int(np.prod(shape)) else 'result of shape %r for %d requested points' % (res.shape, len(idx))
                    except Exception as e:     # noqa -- the implementation raised for a query inside the quantifier
                        err = '%s: %s' % (type(e).__name__, e)
                    anyv = next(iter(d.values()))
                    ctx.verdict('one_value_per_requested_point', err is None, cls='%s:%s:%s%s' % (anyv['reg'], mode, layout, '' if sub is None else ':subrange'),
                                detail='opacity(T=%r, P=%r%s): %s' % (T, P, '' if sub is None else ', sub-range', err),
                                vector=dict(anyv, unit=unit, layout=layout, sub=sub))
                    if err is not None:
                        continue
                    res = res.reshape(shape)
                    for j, k in enumerate(idx):
                        v = d.get(k)
                        if v is None:
                            continue
                        gots = [res[j]] if layout == 'xsec' else [res[j, 0], res[j, 1] / 3.0]
                        for got in gots:
                            for clause, ok, detail in judge(v, float(got), unit):
                                ctx.verdict(clause, ok, cls='%s:%s:%s' % (v['reg'], mode, layout), detail=detail,
                                            vector=dict(v, unit=unit, layout=layout, sub=sub))


def one_vector(ctx, v):
    """Replay of a single stored vector."""
    op, wn = build(v['tn'], v['pn'], [v['tab']], v['mode'], v.get('unit', 1.0), v.get('layout', 'xsec'))
    res = np.asarray(op.opacity(float(v['x']), p_of(v['y']))).ravel()
    for clause, ok, detail in judge(v, float(res[0]), v.get('unit', 1.0)):
        ctx.verdict(clause, ok, cls='%s:%s:%s' % (v['reg'], v['mode'], v.get('layout', 'xsec')), detail=detail, vector=v)


def random_events(rng, n, mode):
    """Random tables, spacings and queries through the real code -> trace events."""
    events, skipped = [], 0
    S = 1000
    while len(events) < n:
        nt, npp = rng.randint(2, 8), rng.randint(2, 6)
        tn = [rng.randint(60, 400)]
        for _ in range(nt - 1):
            tn.append(tn[-1] + rng.randint(1, 20))
        pn = [rng.randint(-6, 6)]        # every decade: float log10 conventions differ between decades (1e3, 1e6 ...)
        for _ in range(npp - 1):
            pn.append(pn[-1] + rng.randint(1, 3))
        lo = 1 if mode == 'exp' else 0
        style = rng.random()
        if style < 0.3:
            tab = [[rng.randint(lo, 100) for _ in range(nt)] for _ in range(npp)]
        elif style < 0.6:   # steep tables: extrapolation would leave the hull visibly
            tab = [[(1 + p) * (1 + t) * rng.randint(1, 3) + lo for t in range(nt)] for p in range(npp)]
        else:
            tab = [[rng.choice([lo, lo, 1, 50, 100]) for _ in range(nt)] for _ in range(npp)]
        unit = rng.choice(UNITS)
        op, wn = build(tn, pn, [tab], mode, unit, 'xsec')
        for _ in range(12):
            r = rng.random()
            x = rng.choice(tn) if r < 0.25 else rng.randint(max(1, tn[0] - 30), tn[-1] + 30)
            r = rng.random()
            y = rng.choice(pn) if r < 0.25 else rng.randint(pn[0] - 2, pn[-1] + 2)
            if not coords_exact(pn, y):
                skipped += 1
                continue
            got = float(np.asarray(op.opacity(float(x), p_of(y))).ravel()[0]) / unit
            if got != got or abs(got) > 1e5:
                m = -1      # NaN / overflow: reported through NonNegative
            else:
                m = int(round(got * S))
            events.append(dict(id=len(events), tn=tn, pn=pn, tab=tab, x=x, y=y, S=S, m=m, mode=mode, tol=1,
                               got=repr(got)))
    return events, skipped


def run_traces(ctx, n_lin, n_exp):
    rng = random.Random(ctx.seed * 7919 + 4)
    for mode, n in (('linear', n_lin), ('exp', n_exp)):
        events, skipped = random_events(rng, n, mode)
        slim = [{k: v for k, v in e.items() if k != 'got'} for e in events]
        accepted, bad, res = validate_trace('Trace_Interp', 'Trace_Interp.cfg', slim)
        ctx.add_tlc('trace-%s' % mode, res, counts=False)
        if res.postcondition_false and not bad:
            raise Machinery('trace spec did not consume the whole trace:\n' + res.out[-1500:])
        badids = {b['id']: b for b in bad}
        ctx.traces += len(events)
        for e in events:
            b = badids.get(e['id'])
            ctx.verdict('trace_' + mode, b is None, cls='%s:%s:trace' % (b['reg'] if b else '', mode),
                        detail='TLC rejected event: got %s' % e['got'], vector=dict(e, trace=True))
        ctx.add_sample(dict(trace_event=slim[0]))
        ctx.note('%s traces: %d events, %d skipped (inexact log10)' % (mode, len(events), skipped))
        # canary: corrupt one logged result of an accepted event; TLC must reject exactly it
        good = [e for e in slim if e['id'] not in badids and e['m'] > 5]
        if not good:
            if ctx.has_violations():
                continue
            raise Machinery('no event available for the canary')
        c = dict(good[len(good) // 2])
        c['m'] = c['m'] * 3 + 7 + 100 * c['S']
        ok2, bad2, _ = validate_trace('Trace_Interp', 'Trace_Interp.cfg', [c])
        if ok2 or not bad2:
            raise Machinery('canary accepted: trace validation is vacuous')


# ----------------------------------------------------------------------------
# long-lived opacity objects: mode switches, sub-ranges and queries in any order (spec/Functional.tla walks)
# ----------------------------------------------------------------------------

H_TN = [200, 300, 700, 800]
H_PN = [1, 3, 6]
H_TAB = [[[3, 9, 2, 7], [8, 1, 6, 4], [5, 7, 3, 9]], [[1, 4, 9, 2], [6, 6, 1, 8], [2, 9, 4, 3]], [[7, 2, 5, 5], [3, 8, 8, 1], [9, 1, 2, 6]]]
H_QUERIES = [[(100, 0), (250, 0), (900, 0), (100, 2), (250, 2), (900, 2), (100, 8), (250, 8), (900, 8)],     # one per region
             [(200, 1), (300, 3), (800, 6), (200, 0), (800, 7), (500, 1), (500, 6), (200, 4), (800, 2)],     # nodes and edges
             [(450, 2), (450, 5), (760, 4), (210, 4), (650, 0), (650, 7), (150, 5), (850, 5), (299, 3)]]     # inside the cells


def history_scenarios(tmpdir):
    from .. import history
    from ..fx_files import write_pickle_opacity
    from taurex.cache import OpacityCache, GlobalCache

    def table():
        K = len(H_TAB)
        x = np.zeros((len(H_PN), len(H_TN), K))
        for k, tab in enumerate(H_TAB):
            x[:, :, k] = np.array(tab, dtype=float)
        return np.arange(1, K + 1) * 100.0, x

    def ask(op, wn, sub, qs):
        out = []
        for (T, y) in qs:
            if sub is None:
                out.append(np.asarray(op.opacity(float(T), p_of(y)), dtype=float))
            else:
                out.append(np.asarray(op.opacity(float(T), p_of(y), wn[sub[0]:sub[1]]), dtype=float))
        return out

    class Direct(history.Scenario):
        """ONE GridOpacity / GridKTable object; the mode is changed with set_interpolation_mode()."""

        def __init__(self, layout):
            self.name = 'opacity-object:' + layout
            self.layout = layout
            self.dims = [['linear', 'exp', 'linear'][:2] + ['exp'], [None, (1, 3), (0, 2)], [0, 1, 2]]
            self.dims[0] = ['linear', 'exp']

        def fresh(self, v):
            op, wn = build(H_TN, H_PN, H_TAB, v[0], 1.0, self.layout)
            op._verif = dict(wn=wn, sub=v[1], q=v[2])
            return op

        def set(self, op, d, value, values):
            if d == 0:
                op.set_interpolation_mode(value)
            elif d == 1:
                op._verif['sub'] = value
            else:
                op._verif['q'] = value

        def observe(self, op):
            return ask(op, op._verif['wn'], op._verif['sub'], H_QUERIES[op._verif['q']])

    class Cached(history.Scenario):
        """The object served by OpacityCache for a pickle file; the mode is changed with OpacityCache.set_interpolation()."""
        name = 'opacity-cache:pickle'
        dims = [['linear', 'exp'], [None, (1, 3), (0, 2)], [0, 1, 2]]

        def __init__(self):
            wn, x = table()
            self.wn = wn
            self.path = os.path.join(tmpdir, 'xsec')
            os.makedirs(self.path, exist_ok=True)
            write_pickle_opacity(self.path, 'HVX', wn, H_TN, [p_of(c) for c in H_PN], x)

        def fresh(self, v):
            OpacityCache().clear_cache()
            OpacityCache().set_opacity_path(self.path)
            OpacityCache().set_interpolation(v[0])
            return dict(sub=v[1], q=v[2])

        def set(self, st, d, value, values):
            if d == 0:
                OpacityCache().set_interpolation(value)
            elif d == 1:
                st['sub'] = value
            else:
                st['q'] = value

        def observe(self, st):
            return ask(OpacityCache()['HVX'], self.wn, st['sub'], H_QUERIES[st['q']])

    return [Direct('xsec'), Direct('ktable'), Cached()]


def run_histories(ctx, nwalks):
    import shutil
    import tempfile
    from .. import history
    from ..fixtures import reset_caches
    tmp = tempfile.mkdtemp(prefix='c04hist_')
    try:
        scs = history_scenarios(tmp)
        # the reference of a walk is a freshly built object: make sure it is the specification's value in both modes
        n = history.run_history(ctx, scs, nwalks, clause='history_independent')
    finally:
        reset_caches()
        shutil.rmtree(tmp, ignore_errors=True)
    return n


def run(ctx):
    q = ctx.tier == 'quick'
    ctx.bounds = dict(tier=ctx.tier, exhaustive='3x3 (lin) / 2x3 or 3x3 (exp) tables over small value sets, all node/edge/mid/outside queries',
                      vectors='one-hot + 3 generic tables on two node layouts, both modes, xsec + k-table layouts, 3 magnitudes, sub-range grids')
    ctx.assumptions = ['float pow() evaluates a^(1-w) b^w from exact rationals (analytic lemma: monotone in w)',
                       'TLC + CommunityModules Json/IOUtils', 'fixtures subclass InterpolatingOpacity/KTable only to supply tables']
    for mode in ('lin', 'exp'):
        ctx.check_spec('exhaustive-%s' % mode, 'MC_Interp', 'MC_Interp_%s_%s.cfg' % (mode, ctx.tier), need_actions=('Eval',))
    ctx.exhaustive = True
    for cfg in ('EX_Interp_lin.cfg', 'EX_Interp_exp.cfg', 'EX_Interp_lin2.cfg', 'EX_Interp_exp2.cfg', 'EX_Interp_lin3.cfg', 'EX_Interp_exp3.cfg'):
        res = ctx.check_spec('export-' + cfg, 'MC_Interp', cfg, workers=1)
        vecs = res.tagged('VEC')
        seen, uniq = set(), []
        for v in vecs:
            key = repr(v)
            if key not in seen:
                seen.add(key)
                uniq.append(v)
        run_vectors(ctx, uniq, cfg)
    run_traces(ctx, 1500 if q else 12000, 800 if q else 6000)
    nh = run_histories(ctx, 10 if q else 60)
    ctx.note('history walks on long-lived opacity objects (mode switches on the object and through the cache, sub-ranges, all regions): %d' % nh)


def replay(ctx, violations):
    for v in violations:
        vec = v['vector']
        if vec.get('trace'):
            e = {k: vec[k] for k in ('id', 'tn', 'pn', 'tab', 'x', 'y', 'S', 'mode', 'tol')}
            op, wn = build(e['tn'], e['pn'], [e['tab']], e['mode'], 1.0, 'xsec')
            got = float(np.asarray(op.opacity(float(e['x']), p_of(e['y']))).ravel()[0])
            e['m'] = int(round(got * e['S'])) if got == got and abs(got) < 1e5 else -1
            ok, bad, _ = validate_trace('Trace_Interp', 'Trace_Interp.cfg', [e])
            ctx.verdict('trace_' + e['mode'], not bad, cls='%s:%s:trace' % (bad[0]['reg'] if bad else '', e['mode']),
                        detail='got %r' % got, vector=vec)
        else:
            one_vector(ctx, vec)
