"""C16 -- output files hold what was computed and reload to the same model.

Spec: spec/Output.tla (value kinds, strings over the whole value alphabet in token form, Store with the code's type
      dispatch, Canon = documented flattening, RoundTrip; SpectrumKeys per binner x output size, TauAt(caller, place,
      binner, size) for every place the output size is consumed and the integer arithmetic of the callers (SizeArith),
      exact grid relations; ModelFile/Rebuild),
      spec/MC_Output.tla (exhaustive dictionaries over the catalogue of value kinds and over the string-alphabet
      catalogue + export), spec/Trace_Output.tla (binding B: dict / tau / grid events),
      spec/MC_OutputWr.tla (which input class of constructor values exposes every unfaithful write()),
      spec/MC_OutputReb.tla over the GENERATED module OutputReg (constructor keywords from inspect.signature,
      written dataset names observed in the files the components' write() produced, the component sweep).
Binding A: every exported dictionary is stored with HDF5Output.store_dictionary in a temporary file, read back
      with h5py and compared with the specification's tree; spectrum dictionaries of the three binners x three
      output sizes from a real model run; model write -> taurex_hdf5_to_model for a covering set of component
      combinations and for the component sweep: EVERY built-in component with a distinct non-default value for
      every constructor keyword, then one keyword at a time (types, constructor values observed by recorders,
      spectrum at 1e-12).
Binding B: random nested dictionaries (depth <= 3, strings over the alphabet) stored by the real code, the short form /
      BibTeX strings of every built-in class that carries citations, the Bibliography block of real runs of the taurex
      program, and the optical-depth datasets found in every group written through direct calls, store_contributions,
      the taurex program (forward model with 4 binning set-ups, retrieval) and Optimizer.generate_solution for the three
      output sizes -- all validated by TLC; exact grid relations on dyadic grids; canaries.
Binding C (histories of one binner): spec/BinnerHistory.tla + MC_BinnerHistory.tla (operations of a long-lived binner as actions; OpsArePure,
      ResultEqualsFresh; design mutants "memo of the derived native widths keyed on length / on the end points" and "widths converted in place"
      refuted); every ordered pair of operations and longer TLC-generated sequences replayed on ONE real FluxBinner / SimpleBinner / NativeBinner,
      the output dictionaries through HDF5Output + h5py: stored binned spectrum / optical depths = TLC's exact overlap-weighted mean of the
      native arrays stored next to them, exposed centres / widths unchanged, every call = a freshly built binner's (harness/fx_binnerhist.py);
      canary on the harness's own mutants of the real FluxBinner.
Binding C (histories of the output pipeline): spec/OutputPipeline.tla + MC_OutputPipeline.tla (evaluate / build the dictionary / store as
      actions on an abstract memory; ResultsStable, FileHoldsComputed, FileSelfConsistent; design mutants "the model returns its work array",
      per instance or per class, and "the dictionary is built by modifying the result" refuted); the program's own sequences and random ones
      replayed on two long-lived models of each forward-model class, one binner and the real writer (harness/fx_outpipe.py); the files of real
      runs of the program compared with the model rebuilt from the same file (judge_program_file).
Model write -> rebuild additionally over the 'falsy' input class of MC_OutputWr (a keyword takes 0 / 0.0 / False / [] where the model accepts it).
"""
import itertools
import json
import os
import random
import re
import shutil
import tempfile
from fractions import Fraction

import numpy as np

from ..core import Machinery, SPEC, run_tlc, validate_trace
from .. import fx_factory as FX


# ---------------------------------------------------------------------------- spec <-> python values
# The specification writes every character outside printable ASCII as the token <U+XXXX>; tok / detok translate
# one to one (no stored string contains the literal text "<U+").
_TOK = re.compile(r'<U\+([0-9A-F]{4,6})>')


def detok(s):
    return _TOK.sub(lambda m: chr(int(m.group(1), 16)), s)


def tok(s):
    return ''.join(c if 32 <= ord(c) < 127 else '<U+%04X>' % ord(c) for c in s)


def to_py(v, rng=None):
    k = v['k']
    if k == 'int':
        x = int(v['n'])
        return np.int64(x) if rng and rng.random() < 0.3 else x
    if k == 'float':
        x = v['n'] / v['d']
        return np.float64(x) if rng and rng.random() < 0.3 else float(x)
    if k == 'bool':
        return bool(v['n'])
    if k == 'str':
        return detok(v['v'])
    if k == 'arr':
        dt = {'float': np.float64, 'int': np.int64, 'bool': np.bool_}[v['dt']]
        return np.array([d[0] / d[1] for d in v['data']], dtype=dt).reshape(tuple(v['shape']))
    if k in ('list', 'tuple'):
        items = [to_py(x, rng) for x in v['items']]
        return items if k == 'list' else tuple(items)
    if k == 'dict':
        return dict_py(v['items'], rng)
    raise Machinery('unknown value kind %r' % k)


def dict_py(items, rng=None):
    if isinstance(items, list):      # ToJson of the empty function
        return {}
    return {key: to_py(val, rng) for key, val in items.items()}


def fr(x):
    f = Fraction(float(x))
    if abs(f.numerator) >= 2 ** 30 or f.denominator >= 2 ** 30:
        raise Machinery('value %r is not exactly representable within TLC ints' % x)
    return [f.numerator, f.denominator]


def dt_of(dtype):
    return {'f': 'float', 'i': 'int', 'u': 'int', 'b': 'bool'}.get(dtype.kind, dtype.kind)


def read_tree(g):
    """The h5py view of a group as a specification file tree."""
    import h5py
    m = {}
    for name in g:
        it = g[name]
        if isinstance(it, h5py.Group):
            m[name] = read_tree(it)
            continue
        val = it[()]
        if it.dtype.kind in ('O', 'S') and it.shape == ():
            m[name] = dict(n='string', v=tok(val.decode('utf-8', 'replace') if isinstance(val, bytes) else str(val)))
        elif it.dtype.kind == 'S':
            if len(it.shape) != 2 or it.shape[1] != 1:
                m[name] = dict(n='strarr?', shape=list(it.shape))
            else:
                m[name] = dict(n='strarr', data=[tok(x[0].decode('utf-8', 'replace')) for x in val])
        elif it.shape == ():
            m[name] = dict(n='scalar', dt=dt_of(it.dtype), v=fr(val))
        else:
            m[name] = dict(n='array', dt=dt_of(it.dtype), shape=list(it.shape), data=[fr(x) for x in np.asarray(val).ravel()])
    return dict(n='group', m=m)


def norm_tree(t):
    """Specification tree from JSON (empty functions come as [])."""
    if t.get('n') == 'group':
        m = t['m'] if isinstance(t['m'], dict) else {}
        return dict(n='group', m={k: norm_tree(v) for k, v in m.items()})
    t = dict(t)
    if 'shape' in t:
        t['shape'] = list(t['shape'])
    if 'data' in t:
        t['data'] = [list(x) if isinstance(x, (list, tuple)) else x for x in t['data']]
    if 'v' in t and isinstance(t['v'], (list, tuple)):
        t['v'] = list(t['v'])
    return t


def store_and_read(pyd, path):
    import h5py
    from taurex.output.hdf5 import HDF5Output
    try:
        with HDF5Output(path) as o:
            o.store_dictionary(pyd, group_name='D')
    except Exception as ex:
        return dict(n='error', why=type(ex).__name__, msg=str(ex)[:160])
    with h5py.File(path, 'r') as f:
        return read_tree(f['D'])


def kinds_in(v, acc=None):
    acc = set() if acc is None else acc
    if isinstance(v, dict) and 'k' in v:
        if v['k'] in ('list', 'tuple'):
            sub = v['items']
            tag = v['k']
            if any(x['k'] == 'str' for x in sub):
                tag += '-str'
                if any(x['k'] == 'str' and '<U+' in x['v'] for x in sub):
                    acc.add(tag + '-nonascii')
                if any(x['k'] == 'str' and x['v'].strip(' ') == '' for x in sub):
                    acc.add(tag + '-blank')
            elif any(x['k'] == 'dict' for x in sub):
                tag += '-dict'
            else:
                shapes = {json.dumps(shape_of(x)) for x in sub}
                tag += '-ragged' if len(shapes) > 1 or 'null' in shapes else ('-empty' if not sub else '-rect')
            acc.add(tag)
            for x in sub:
                kinds_in(x, acc)
        elif v['k'] == 'dict':
            acc.add('dict')
            items = v['items'] if isinstance(v['items'], dict) else {}
            for x in items.values():
                kinds_in(x, acc)
        else:
            acc.add(v['k'])
            if v['k'] == 'str':
                if '<U+' in v['v']:
                    acc.add('str-nonascii')
                if v['v'].strip(' ') == '':
                    acc.add('str-blank')
    return acc


def shape_of(v):
    if v['k'] in ('int', 'float', 'bool'):
        return []
    if v['k'] == 'arr':
        return list(v['shape'])
    if v['k'] in ('list', 'tuple'):
        s = [shape_of(x) for x in v['items']]
        if not s:
            return [0]
        if any(x is None for x in s) or any(x != s[0] for x in s):
            return None
        return [len(s)] + s[0]
    return None


def dict_cls(items):
    ks = set()
    for x in (items.values() if isinstance(items, dict) else []):
        kinds_in(x, ks)
    rag = {k for k in ks if 'ragged' in k or 'dict' in k.split('-')[-1:]}
    # string alphabet classes: where the unusual characters sit (scalar / inside a list or tuple)
    for suffix in ('nonascii', 'blank'):
        if 'str-' + suffix in ks:
            rag.add('str-' + suffix)
        if any(k.endswith('-str-' + suffix) for k in ks):
            rag.add('strseq-' + suffix)
    return 'dict:' + ('+'.join(sorted(rag)) if rag else 'plain')


# ---------------------------------------------------------------------------- binding A: exported dictionaries
def run_dict_vectors(ctx, vecs, tmp, rng):
    path = os.path.join(tmp, 'rt.h5')
    seen = set()
    n = 0
    for v in vecs:
        key = json.dumps(v['dict'], sort_keys=True)
        if key in seen:
            continue
        seen.add(key)
        n += 1
        pyd = dict_py(v['dict'], rng)
        got = store_and_read(pyd, path)
        want = norm_tree(v['tree'])
        ok = got == want
        ctx.verdict('RoundTrip', ok, cls=dict_cls(v['dict']),
                    detail='stored/reloaded tree %s differs from the documented flattening %s' % (json.dumps(got)[:300], json.dumps(want)[:300]),
                    vector=dict(dict=v['dict'], tree=v['tree']))
    return n


# ---------------------------------------------------------------------------- binding B: random dictionaries
def rand_value(rng, depth):
    r = rng.random()

    def num():
        if rng.random() < 0.5:
            return dict(k='int', n=rng.randint(-50, 50), d=1)
        f = Fraction(rng.randint(-99, 99), rng.choice([1, 2, 4, 8]))
        return dict(k='float', n=f.numerator, d=f.denominator)

    def arr(shape=None):
        shape = shape or [rng.randint(1, 4) for _ in range(rng.choice([1, 1, 2]))]
        size = int(np.prod(shape))
        dt = rng.choice(['float', 'int'])
        d = [[rng.randint(-20, 20), 1 if dt == 'int' else rng.choice([1, 2, 4])] for _ in range(size)]
        d = [list(map(int, (Fraction(a, b).numerator, Fraction(a, b).denominator))) for a, b in d]
        return dict(k='arr', dt=dt, shape=shape, data=d)

    def word():
        # value alphabet of stored strings: ASCII, blanks kept as they are, newline / tab, accents, typographic
        # quotes, micro sign, CJK; the empty string; at most 16 characters (<= 64 bytes of UTF-8)
        if rng.random() < 0.08:
            return ''
        alpha = 'abcXYZ012-_ ' if rng.random() < 0.5 else 'abZ0 _-{}\\"\n\t \u00e9\u00e7\u00fc\u2019\u201c\u201d\u00b5\u03bb\u65e5'
        return tok(''.join(rng.choice(alpha) for _ in range(rng.randint(1, 16))))
    if depth > 0 and r < 0.22:
        return dict(k='dict', items={k: rand_value(rng, depth - 1) for k in rng.sample(['alpha', 'beta', 'gamma', 'k', 'Zz'], rng.randint(0, 3))})
    if r < 0.35:
        return num()
    if r < 0.42:
        return dict(k='bool', n=rng.randint(0, 1), d=1)
    if r < 0.52:
        return dict(k='str', v=word())
    if r < 0.64:
        return arr()
    kind = rng.choice(['list', 'list', 'tuple'])
    r2 = rng.random()
    if r2 < 0.25:
        items = [num() for _ in range(rng.randint(0, 4))]
    elif r2 < 0.4:
        items = [dict(k='str', v=word()) for _ in range(rng.randint(1, 4))]
    elif r2 < 0.55:
        shape = [rng.randint(1, 3)]
        items = [arr(shape) for _ in range(rng.randint(1, 3))]
    elif r2 < 0.7:
        items = [arr([rng.randint(1, 4)]) for _ in range(rng.randint(2, 3))]
    elif r2 < 0.85:
        items = [dict(k='list', items=[num() for _ in range(rng.randint(1, 3))]) for _ in range(rng.randint(1, 3))]
    else:
        items = [dict(k='dict', items={k: num() for k in rng.sample(['p', 'q', 'r'], rng.randint(1, 2))}) for _ in range(rng.randint(1, 2))]
    return dict(k=kind, items=items)


def run_dict_traces(ctx, n, tmp, rng):
    path = os.path.join(tmp, 'tr.h5')
    events = []
    while len(events) < n:
        items = {k: rand_value(rng, 2) for k in rng.sample(['a', 'b', 'c', 'spectrum', 'Tau'], rng.randint(1, 4))}
        got = store_and_read(dict_py(items, rng), path)
        events.append(dict(ev='dict', id=len(events), items=items, tree=got))
    return events


# ---------------------------------------------------------------------------- models
def opacities():
    from taurex.cache import OpacityCache, CIACache
    from ..fixtures import GridOpacity
    from ..fx_model import FixtureCIA
    OpacityCache().clear_cache()
    wn = np.linspace(400.0, 2000.0, 33)
    t = np.array([200.0, 1000.0, 2500.0])
    p = np.array([1e-1, 1e3, 1e6])
    rs = np.random.RandomState(11)
    for m in ('H2O', 'CH4'):
        OpacityCache().add_opacity(GridOpacity(m, wn, t, p, 1e-22 * (1 + rs.rand(3, 3, 33))))
    CIACache().cia_dict = {}
    for n, pair in enumerate(('H2-He', 'H2-H2')):
        CIACache().add_cia(FixtureCIA(pair, wn, t, (n + 1) * 1e-50 * (1 + rs.rand(3, 33))))


NL = 30
TEMPS = {
    'Isothermal': dict(T=1234.0),
    'Guillot2010': dict(T_irr=1400.0, kappa_irr=0.02, kappa_v1=0.004, kappa_v2=0.006, alpha=0.4, T_int=800.0),
    'NPoint': dict(T_surface=1600.0, T_top=700.0, temperature_points=[1200.0], pressure_points=[1e3], smoothing_window=5, limit_slope=5000.0),
    'Rodgers2000': dict(temperature_layers=list(np.linspace(1500.0, 600.0, NL)), correlation_length=4.0),
}
GASES = {
    'ConstantGas': dict(mix_ratio=2e-4),
    'TwoLayerGas': dict(mix_ratio_surface=1e-3, mix_ratio_top=1e-6, mix_ratio_P=2e3, mix_ratio_smoothing=6),
    'TwoPointGas': dict(mix_ratio_surface=1e-3, mix_ratio_top=1e-6),
    'PowerGas': dict(profile_type='TiO', mix_ratio_surface=1e-4, alpha=1.5, beta=3e4, gamma=12.0),
    'PowerGas/auto': dict(),
}
MODELS = {
    'TransmissionModel': dict(), 'TransmissionModel/newpath': dict(new_path_method=True),
    'EmissionModel': dict(ngauss=3), 'DirectImageModel': dict(ngauss=3),
}
CONTRIBS = {
    'AbsorptionContribution': dict(), 'RayleighContribution': dict(), 'SimpleCloudsContribution': dict(clouds_pressure=2e3),
    'LeeMieContribution': dict(lee_mie_radius=0.05, lee_mie_q=30.0, lee_mie_mix_ratio=1e-9, lee_mie_bottomP=1e4, lee_mie_topP=1e2),
    'FlatMieContribution': dict(flat_mix_ratio=1e-9, flat_bottomP=1e4, flat_topP=1e2),
}
CONTRIB_SETS = [('AbsorptionContribution',), ('AbsorptionContribution', 'RayleighContribution'),
                ('AbsorptionContribution', 'SimpleCloudsContribution'), ('AbsorptionContribution', 'LeeMieContribution'),
                ('AbsorptionContribution', 'RayleighContribution', 'FlatMieContribution')]
PLANET = dict(planet_mass=1.3, planet_radius=0.9, planet_distance=0.05, impact_param=0.3, orbital_period=3.5, albedo=0.2, transit_time=4000.0)
STAR = dict(temperature=5500.0, radius=0.8, distance=12.0, magnitudeK=9.0, mass=0.9, metallicity=1.5)
PRESSURE = dict(nlayers=NL, atm_min_pressure=1e-1, atm_max_pressure=1e6)
# components that take their values from an external file or a positional array (proposed finding L-C16g)
EXTERNAL = ('TemperatureFile', 'FilePressureProfile', 'ArrayPressureProfile', 'ChemistryFile')


def classes_by_name():
    from taurex.parameter.classfactory import ClassFactory
    cf = ClassFactory()
    out = {}
    for kind, attr in FX.KIND_ATTR.items():
        for k in getattr(cf, attr):
            out[k.__name__] = (kind, k)
    return out


def base_desc(**over):
    """One complete model description; every part is (class name, constructor keywords)."""
    d = dict(model=('TransmissionModel', {}), temp=('Isothermal', dict(T=1234.0)), press=('SimplePressureProfile', dict(PRESSURE)),
             planet=('Planet', dict(PLANET)), star=('BlackbodyStar', dict(STAR)),
             chem=('TaurexChemistry', dict(fill_gases=['H2', 'He'], ratio=0.2)),
             gases=[('ConstantGas', dict(molecule_name='H2O', mix_ratio=2e-4)),
                    ('ConstantGas', dict(molecule_name='N2', mix_ratio=3e-3))],      # N2 has no opacity: an *inactive* gas
             contribs=[('AbsorptionContribution', {})])
    d.update(over)
    return d


def combo_desc(combo):
    m1, m2 = ('CH4', 'H2O') if combo['gas2'] == 'PowerGas/auto' else ('H2O', 'CH4')   # 'auto' coefficients exist for H2O only
    return base_desc(model=(combo['model'], MODELS[combo['model']]), temp=(combo['temp'], TEMPS[combo['temp']]),
                     chem=('TaurexChemistry', dict(fill_gases=['H2', 'He'], ratio=0.2, base_metallicty=0.02)),
                     gases=[(combo['gas1'], dict(GASES[combo['gas1']], molecule_name=m1)), (combo['gas2'], dict(GASES[combo['gas2']], molecule_name=m2)),
                            ('ConstantGas', dict(molecule_name='N2', mix_ratio=3e-3))],
                     contribs=[(c, CONTRIBS[c]) for c in combo['contribs']])


def build_desc(desc, classes):
    def K(name):
        base = name.split('/')[0]
        if base not in classes:
            raise KeyError(base)
        return classes[base][1]

    def py(kw):
        return {k: (np.array(v[1]) if isinstance(v, tuple) and len(v) == 2 and v[0] == 'ndarray' else v) for k, v in kw.items()}
    chem = K(desc['chem'][0])(**py(desc['chem'][1]))
    for g, kw in desc['gases']:
        chem.addGas(K(g)(**py(kw)))
    parts = dict(planet=K(desc['planet'][0])(**py(desc['planet'][1])), star=K(desc['star'][0])(**py(desc['star'][1])), chemistry=chem,
                 temperature_profile=K(desc['temp'][0])(**py(desc['temp'][1])))
    if desc['press'] is not None:
        parts['pressure_profile'] = K(desc['press'][0])(**py(desc['press'][1]))
    model = K(desc['model'][0])(**parts, **py(desc['model'][1]))
    for c, kw in desc['contribs']:
        model.add_contribution(K(c)(**py(kw)))
    model.build()
    return model


def build_model(combo, classes):
    return build_desc(combo_desc(combo), classes)


# ---- the component sweep: EVERY built-in component, DISTINCT non-default values for EVERY constructor keyword
def sweep_files(tmp):
    """External files for the file-configured components."""
    f = {}
    f['tp'] = os.path.join(tmp, 'sweep_tp.csv')
    with open(f['tp'], 'w') as o:
        o.write('# temperature profile\n# P[bar],T[K]\n')
        for p, t in zip(np.logspace(1, -6, 12), np.linspace(1500.0, 600.0, 12)):
            o.write('%r,%r\n' % (float(p), float(t)))
    f['p'] = os.path.join(tmp, 'sweep_p.csv')
    with open(f['p'], 'w') as o:
        o.write('# pressure profile\n# x,P[bar]\n')
        for p in np.logspace(1, -6, NL):
            o.write('0,%r\n' % float(p))
    f['chem'] = os.path.join(tmp, 'sweep_chem.dat')
    np.savetxt(f['chem'], np.column_stack([np.full(NL, 2e-4), np.full(NL, 3e-3), np.full(NL, 1 - 2e-4 - 3e-3)]))
    return f


def sweep_table(files):
    """kind, class, 'all' = a distinct non-default value for every constructor keyword, required = keywords every
    variant needs, groups = keywords that are only valid together, exempt = keywords left out (with the reason),
    extra = further named variants, singles = whether the one-keyword-at-a-time variants are run."""
    cov = [[float(np.exp(-abs(i - j) / 3.0)) for j in range(NL)] for i in range(NL)]
    hm_gases = [('ConstantGas', dict(molecule_name='H2O', mix_ratio=2e-4)), ('ConstantGas', dict(molecule_name='H', mix_ratio=3e-3)),
                ('ConstantGas', dict(molecule_name='e-', mix_ratio=3e-5))]
    T = []

    def add(kind, cls, all_, required=(), groups=(), exempt=None, extra=None, singles=True, over=None):
        exempt = dict(exempt or {})
        if kind == 'gas':
            exempt['molecule_name'] = 'names the gas (and its group in the file); H2O here, CH4 / N2 / H / e- in the combinations'
        T.append(dict(kind=kind, cls=cls, all=all_, required=tuple(required), groups=tuple(groups), exempt=exempt,
                      extra=extra or {}, singles=singles, over=over or {}))
    add('temperature', 'Isothermal', dict(T=1234.0))
    add('temperature', 'Guillot2010', dict(TEMPS['Guillot2010']))
    add('temperature', 'NPoint', dict(T_surface=1600.0, T_top=700.0, P_surface=5e5, P_top=2.0, temperature_points=[1200.0, 900.0],
                                      pressure_points=[1e4, 1e2], smoothing_window=5, limit_slope=5000.0),
        groups=[('temperature_points', 'pressure_points')])
    add('temperature', 'Rodgers2000', dict(temperature_layers=list(np.linspace(1500.0, 600.0, NL)), correlation_length=4.0, covariance_matrix=('ndarray', cov)),
        required=['temperature_layers'])
    add('temperature', 'TemperatureFile', dict(filename=files['tp'], skiprows=2, temp_col=1, press_col=0, press_units='bar', delimiter=',', reverse=True),
        exempt=dict(temp_units='kelvin is the only temperature unit in use'), singles=False)
    add('chemistry', 'TaurexChemistry', dict(fill_gases=['H2', 'He', 'Ar'], ratio=[0.2, 0.05], derived_ratios=['C/O'], base_metallicty=0.02),
        groups=[('fill_gases', 'ratio')], extra={'ratio-scalar': dict(ratio=0.2)})
    add('chemistry', 'ChemistryFile', dict(gases=['H2O', 'N2', 'H2'], filename=files['chem']), singles=False, over=dict(gases=[]))
    add('gas', 'ConstantGas', dict(mix_ratio=2e-4))
    add('gas', 'TwoLayerGas', dict(GASES['TwoLayerGas']))
    add('gas', 'TwoPointGas', dict(GASES['TwoPointGas']), singles=False)
    add('gas', 'PowerGas', dict(GASES['PowerGas']), extra={'auto': {}})
    add('gas', 'ArrayGas', dict(mix_ratio_array=[1e-3, 1e-4, 1e-6]))
    add('pressure', 'SimplePressureProfile', dict(nlayers=25, atm_min_pressure=2e-1, atm_max_pressure=5e5))
    add('pressure', 'ArrayPressureProfile', dict(array=('ndarray', [float(x) for x in np.logspace(0.0, 5.5, NL)]), reverse=True), singles=False)
    add('pressure', 'FilePressureProfile', dict(filename=files['p'], usecols=1, skiprows=2, units='bar', delimiter=',', reverse=True), singles=False)
    add('planet', 'Planet', dict(PLANET), exempt=dict(planet_sma='documented alias of planet_distance, given in its own variant'),
        extra={'sma': dict(PLANET, planet_sma=0.07, planet_distance=None)})
    add('star', 'BlackbodyStar', dict(STAR), over=dict(model=('EmissionModel', dict(ngauss=3))))
    model_exempt = {k: 'given through the pressure profile object (own variant)' for k in ('nlayers', 'atm_min_pressure', 'atm_max_pressure')}
    own_p = dict(nlayers=25, atm_min_pressure=2e-1, atm_max_pressure=5e5)
    add('model', 'TransmissionModel', dict(new_path_method=True), exempt=model_exempt, extra={'own-pressure': dict(own_p, new_path_method=True)})
    add('model', 'EmissionModel', dict(ngauss=3), exempt=model_exempt, extra={'own-pressure': dict(own_p, ngauss=5)})
    add('model', 'DirectImageModel', dict(ngauss=3), exempt=model_exempt, extra={'own-pressure': dict(own_p, ngauss=5)})
    add('contribution', 'AbsorptionContribution', {})
    add('contribution', 'RayleighContribution', {})
    add('contribution', 'SimpleCloudsContribution', dict(clouds_pressure=2e3))
    add('contribution', 'CIAContribution', dict(cia_pairs=['H2-He', 'H2-H2']), extra={'one-pair': dict(cia_pairs=['H2-H2'])})
    add('contribution', 'FlatMieContribution', dict(CONTRIBS['FlatMieContribution']))
    add('contribution', 'LeeMieContribution', dict(CONTRIBS['LeeMieContribution']))
    add('contribution', 'HydrogenIon', {}, over=dict(gases=hm_gases))
    return T


def sweep_desc(row, kw):
    kind, cls = row['kind'], row['cls']
    over = dict(row['over'])
    if kind == 'temperature':
        over['temp'] = (cls, kw)
    elif kind == 'pressure':
        over['press'] = (cls, kw)
    elif kind == 'chemistry':
        over['chem'] = (cls, kw)
    elif kind == 'gas':
        over['gases'] = [(cls, dict(kw, molecule_name='H2O')), ('ConstantGas', dict(molecule_name='N2', mix_ratio=3e-3))]
    elif kind in ('planet', 'star'):
        over[kind] = (cls, {k: v for k, v in kw.items() if v is not None})
    elif kind == 'model':
        over['model'] = (cls, kw)
        if 'nlayers' in kw:
            over['press'] = None
    elif kind == 'contribution':
        over['contribs'] = [('AbsorptionContribution', {})] + ([(cls, kw)] if cls != 'AbsorptionContribution' else [])
    return base_desc(**over)


def sweep_variants(row):
    """(variant name, keywords): 'all' (the 'distinct' input class of MC_OutputWr), then the 'single' input class."""
    out = [('all', dict(row['all']))]
    out += [(n, dict(kw)) for n, kw in sorted(row['extra'].items())]
    if row['singles']:
        grouped = {k for g in row['groups'] for k in g}
        units = [g for g in row['groups']] + [(k,) for k in row['all'] if k not in grouped and k not in row['required']]
        if len(units) > 1 or row['required']:
            for u in units:
                kw = {k: row['all'][k] for k in row['required']}
                kw.update({k: row['all'][k] for k in u})
                out.append(('single:' + '+'.join(u), kw))
    # the 'falsy' input class of MC_OutputWr: one keyword at a time gets the value of its type that Python's truth test takes
    # for false (0, 0.0, False, an empty list), the others keep their distinct values.  Whether that value is inside the
    # quantifier ("all parameter values" of a model that can be built and gives a spectrum) is decided by the run on the
    # model BEFORE it is written (run_model_roundtrips, probe) -- never by what write / rebuild make of it.
    for k in falsy_keys(row):
        out.append(('falsy:' + k, dict(row['all'], **{k: falsy_of(row['all'][k])})))
    return out


def falsy_of(v):
    if isinstance(v, bool):
        return False if v else None
    if isinstance(v, int):
        return 0
    if isinstance(v, float):
        return 0.0
    if isinstance(v, list):
        return []
    return None


def falsy_keys(row):
    """keywords of a sweep row that have a falsy value of their own type (rows of the file-configured components, which
    cannot be rebuilt at all -- L-C16f / L-C16g -- are left out)"""
    if not row['singles']:
        return []
    return [k for k, v in row['all'].items() if falsy_of(v) is not None]


def sweep_cases(table, models=(None,)):
    """models: None = the model of the row (a transmission model unless the row says otherwise); a (class, keywords) pair
    repeats every non-model row inside that forward model."""
    cases = []
    for model in models:
        for row in table:
            if model is not None and (row['kind'] == 'model' or 'model' in row['over']):
                continue
            for name, kw in sweep_variants(row):
                desc = sweep_desc(row, kw)
                vec = dict(sweep=row['cls'], variant=name)
                if model is not None:
                    desc['model'] = model
                    vec['in_model'] = list(model)
                cases.append(dict(tag='sweep|%s|%s%s' % (row['cls'], name, '|in ' + model[0] if model else ''), vec=vec, desc=desc, focus=row['cls'],
                                  probe=(row['cls'], name[6:]) if name.startswith('falsy:') else None))
    return cases


def sweep_given(table, classes):
    """Per class: the keywords the 'all' variant sets to a non-default value, whether its numeric scalars are pairwise
    distinct, and the exempted keywords -- checked against the live constructor signatures by TLC (SweepComplete)."""
    import inspect
    out = {}
    for row in table:
        if row['cls'] not in classes:
            continue
        sig = inspect.signature(classes[row['cls']][1].__init__)
        given = set()
        for k, v in row['all'].items():
            if k not in sig.parameters:
                raise Machinery('sweep table: %s has no constructor keyword %s' % (row['cls'], k))
            d = sig.parameters[k].default
            v = np.array(v[1]) if isinstance(v, tuple) and len(v) == 2 and v[0] == 'ndarray' else v
            if d is inspect._empty or d is None or not same_value(v, d):
                given.add(k)
        nums = [float(v) for v in row['all'].values() if isinstance(v, (int, float)) and not isinstance(v, bool)]
        out[row['cls']] = dict(given=given, distinct=len(set(nums)) == len(nums), exempt=set(row['exempt']), zeroable=set(falsy_keys(row)))
    return out


def component_ids(model):
    objs = [model, model._chemistry, model._temperature_profile, model._pressure_profile, model._planet, model._star]
    objs += list(getattr(model._chemistry, '_gases', None) or []) + list(model.contribution_list)
    return {id(o) for o in objs if o is not None}


def rec_summary(rec, classes, ids):
    """Recorded constructor calls of the model's own components -> {class name[:molecule]: kwargs}."""
    out = {}
    for cname, kw, tname, oid in rec:
        if cname != tname or oid not in ids or cname not in classes:
            continue
        tag = cname + (':' + str(kw.get('molecule_name')) if classes[cname][0] == 'gas' else '')
        out[tag] = {k: v for k, v in kw.items() if k not in ('planet', 'star', 'chemistry', 'temperature_profile', 'pressure_profile')
                    and not (classes[cname][0] == 'model' and k in ('nlayers', 'atm_min_pressure', 'atm_max_pressure'))}
    return out


def same_value(a, b):
    if a is None or b is None:
        return a is None and b is None
    if isinstance(a, (bytes, str)) or isinstance(b, (bytes, str)):
        return str(a) == str(b)
    try:
        x, y = np.asarray(a), np.asarray(b)
        if x.dtype.kind in 'OSU' or y.dtype.kind in 'OSU':
            return [str(i) for i in x.ravel()] == [str(i) for i in y.ravel()]
        x, y = np.atleast_1d(x).astype(float), np.atleast_1d(y).astype(float)
        return x.shape == y.shape and np.allclose(x, y, rtol=1e-12, atol=0)
    except Exception:
        return False


def h5_component_keys(path):
    """Dataset names per component group of ModelParameters -> {class name: set(names)}."""
    import h5py
    out = {}

    def dsets(g):
        return {k for k in g if not isinstance(g[k], h5py.Group)}
    with h5py.File(path, 'r') as f:
        mp = f['ModelParameters']
        out[mp['model_type'][()].decode()] = dsets(mp)
        for grp, ident in (('Temperature', 'temperature_type'), ('Pressure', 'pressure_type'), ('Planet', 'planet_type'),
                           ('Star', 'star_type'), ('Chemistry', 'chemistry_type')):
            out[mp[grp][ident][()].decode()] = dsets(mp[grp])
        for mol in mp['Chemistry']:
            it = mp['Chemistry'][mol]
            if isinstance(it, h5py.Group) and 'gas_type' in it:
                out.setdefault(it['gas_type'][()].decode(), set()).update(dsets(it))
        for c in mp['Contributions']:
            out[c] = dsets(mp['Contributions'][c])
    return out


def combo_case(combo):
    tag = '%s|%s|%s+%s|%s' % (combo['model'], combo['temp'], combo['gas1'], combo['gas2'], '+'.join(c[:-12] for c in combo['contribs']))
    return dict(tag=tag, vec=dict(combo), desc=combo_desc(combo), focus=None)


def run_model_roundtrips(ctx, cases, tmp, classes, probed=None):
    """write -> taurex_hdf5_to_model -> build -> model() for each case dict(tag, vec, desc, focus).
    A case with probe = (class, keyword) hands that keyword an edge value (the 'falsy' input class): it is inside the quantifier
    iff the model can be built with it and gives a finite spectrum BEFORE anything is written; probed[(class, keyword)] records
    'legal' or why not."""
    from taurex.output.hdf5 import HDF5Output
    from taurex.util.hdf5 import taurex_hdf5_to_model
    written = {}
    probed = {} if probed is None else probed
    for n, case in enumerate(cases):
        tag, vec, desc, focus = case['tag'], case['vec'], case['desc'], case['focus']
        probe = case.get('probe')
        path = os.path.join(tmp, 'model%d.h5' % n)
        del FX._REC[:]
        try:
            try:
                model = build_desc(desc, classes)
            except KeyError as ex:
                if ex.args and ex.args[0] in [desc[k][0].split('/')[0] for k in ('model', 'temp', 'chem', 'planet', 'star')] + [c[0].split('/')[0] for c in desc['gases'] + desc['contribs']]:
                    ctx.verdict('ModelBuilds', False, cls='class:%s' % ex.args[0], detail='component class %s is not discoverable' % ex.args[0], vector=vec)
                    continue
                raise
            built = rec_summary(list(FX._REC), classes, component_ids(model))
            wn, spec = model.model()[:2]
            if probe and not (np.size(spec) and np.all(np.isfinite(spec))):
                raise ArithmeticError('the spectrum is not finite')
        except Exception as ex:
            if not probe:
                raise
            probed.setdefault(probe, 'outside: %s' % type(ex).__name__)
            continue
        if probe:
            probed[probe] = 'legal'
        try:
            with HDF5Output(path) as o:
                model.write(o)
        except Exception as ex:
            who = [g for g, kw in desc['gases'] if g == 'PowerGas' and 'profile_type' not in kw]
            ctx.verdict('ModelWrites', False, cls='write:%s' % (focus or ('PowerGas/auto' if who else desc['temp'][0])),
                        detail='model.write raised %s: %s  (%s)' % (type(ex).__name__, ex, tag), vector=vec)
            continue
        ctx.verdict('ModelWrites', True, cls='write', vector=vec)
        for cname, names in h5_component_keys(path).items():
            written.setdefault(cname, set()).update(names)
        del FX._REC[:]
        try:
            again = taurex_hdf5_to_model(path)
            again.build()
            wn2, spec2 = again.model()[:2]
        except Exception as ex:
            ctx.verdict('ModelReloads', False, cls='reload:%s' % (focus or desc['temp'][0]),
                        detail='taurex_hdf5_to_model raised %s: %s (%s)' % (type(ex).__name__, str(ex)[:200], tag), vector=vec)
            continue
        ctx.verdict('ModelReloads', True, cls='reload', vector=vec)
        reloaded = rec_summary(list(FX._REC), classes, component_ids(again))
        ctx.verdict('SameTypes', sorted(built) == sorted(reloaded) and
                    sorted(type(c).__name__ for c in model.contribution_list) == sorted(type(c).__name__ for c in again.contribution_list),
                    cls='types' + (':' + focus if focus else ''), detail='built %s, reloaded %s' % (sorted(built), sorted(reloaded)), vector=vec)
        lost_here = set()
        for comp, kw in built.items():
            for k, v in kw.items():
                if comp not in reloaded:
                    continue
                w = reloaded[comp].get(k)
                if (comp.split(':')[0], k) in (('NPoint', 'P_surface'), ('NPoint', 'P_top')) and v is None:
                    ok = w is None or float(w) < 0          # documented: "Set to -1 for BOA / TOA" == unset
                elif comp.startswith('PowerGas') and k == 'profile_type' and v == 'auto':
                    ok = str(w) in ('auto', str(kw.get('molecule_name')))   # documented: 'auto' = profile of molecule_name
                elif comp == 'Rodgers2000' and k == 'covariance_matrix' and v is None:
                    continue                                  # the derived default matrix is stored explicitly
                elif comp == 'Planet' and k in ('planet_sma', 'planet_distance'):
                    # documented aliases: the semi-major axis that was given must come back under either name
                    eff = kw.get('planet_sma') if kw.get('planet_sma') is not None else kw.get('planet_distance')
                    eff2 = reloaded[comp].get('planet_sma') if reloaded[comp].get('planet_sma') is not None else reloaded[comp].get('planet_distance')
                    ok = same_value(eff, eff2)
                elif comp == 'CIAContribution' and k == 'cia_pairs':
                    # the constructor turns None into the empty list: "no pair" has two spellings
                    ok = sorted(map(str, [] if v is None else list(v))) == sorted(map(str, [] if w is None else list(w)))
                else:
                    ok = same_value(v, w)
                if not ok:
                    lost_here.add('%s:%s' % (comp.split(':')[0], k))
                ctx.verdict('SameValues', ok, cls='%s:%s' % (comp.split(':')[0], k),
                            detail='%s.%s was %r, after write/rebuild %r (%s)' % (comp, k, v if np.size(v) < 8 else '<array>', w if np.size(w) < 8 else '<array>', tag), vector=vec)
        same = spec.shape == spec2.shape and np.array_equal(wn, wn2) and np.allclose(spec, spec2, rtol=1e-12, atol=0)
        # a spectrum difference is attributed to the constructor values that did not survive (named in the class)
        ctx.verdict('SameSpectrum', same, cls='spectrum:' + ('+'.join(sorted(lost_here)) if lost_here else 'all-values-kept'),
                    detail='spectrum after write/rebuild differs: max rel %.3g (%s)' % (
                        float(np.max(np.abs(spec2 / spec - 1))) if spec.shape == spec2.shape else -1, tag), vector=vec)
        os.unlink(path)
    return written


def gen_output_reg(classes, written, sweep=None):
    rows = []
    sweep = sweep or {}
    for cname in sorted(written):
        if cname not in classes:
            continue
        kind, k = classes[cname]
        names, _ = FX._params(k.__init__)
        supplied = []
        if cname == 'Planet':
            supplied = ['planet_sma']        # documented alias of planet_distance
        if kind == 'model':
            supplied = ['planet', 'star', 'chemistry', 'temperature_profile', 'pressure_profile', 'nlayers', 'atm_min_pressure', 'atm_max_pressure']
        sw = sweep.get(cname, dict(given=set(names), distinct=True, exempt=set()))
        rows.append('[name |-> %s, params |-> %s, written |-> %s, supplied |-> %s, given |-> %s, exempt |-> %s, distinct |-> %s,\n'
                    '   zeroable |-> %s, zeroed |-> %s, nozero |-> %s]' % (
            FX.tla_str(cname), FX.tla_set(FX.tla_str(x) for x in names), FX.tla_set(FX.tla_str(x) for x in sorted(written[cname])),
            FX.tla_set(FX.tla_str(x) for x in supplied), FX.tla_set(FX.tla_str(x) for x in sorted(sw['given'])),
            FX.tla_set(FX.tla_str(x) for x in sorted(sw['exempt'])), 'TRUE' if sw['distinct'] else 'FALSE',
            FX.tla_set(FX.tla_str(x) for x in sorted(sw.get('zeroable', ()))), FX.tla_set(FX.tla_str(x) for x in sorted(sw.get('zeroed', ()))),
            FX.tla_set(FX.tla_str(x) for x in sorted(sw.get('nozero', ())))))
    return ('----------------------------- MODULE OutputReg -----------------------------\n'
            '\\* GENERATED by harness/drivers/C16.py: constructor keywords (inspect.signature), the dataset names found in the\n'
            '\\* ModelParameters groups that the components\' write() methods produced, and the component sweep (given = keywords\n'
            '\\* set to a non-default value by the "all" variant, exempt = keywords deliberately left out, distinct = its numeric\n'
            '\\* values are pairwise distinct; zeroable = keywords that have a falsy value of their own type -- 0, 0.0, False, [] --,\n'
            '\\* zeroed = those for which the model with that value can be built and was written and rebuilt, nozero = those for which\n'
            '\\* the constructor / the model rejects it).\n'
            'MCComponents == {\n  ' + ',\n  '.join(rows) + '}\n'
            '=============================================================================\n')


def make_spec_dir(text):
    d = tempfile.mkdtemp(prefix='c16spec_')
    for f in os.listdir(SPEC):
        if f.endswith(('.tla', '.cfg')) and f != 'OutputReg.tla':
            os.symlink(os.path.join(SPEC, f), os.path.join(d, f))
    with open(os.path.join(d, 'OutputReg.tla'), 'w') as f:
        f.write(text)
    return d


# ---------------------------------------------------------------------------- spectrum output
BINNER_KINDS = dict(NativeBinner='native', SimpleBinner='simple', FluxBinner='flux', LightcurveBinner='lightcurve')


def binner_kinds():
    """Output.tla: Binners -- EVERY class of the package taurex.binning that can write a spectrum dictionary (the abstract
    base class cannot: its bindown raises).  A class the specification does not name is not silently left out."""
    import importlib
    import inspect
    import pkgutil
    import taurex.binning as pkg
    from taurex.binning import Binner
    found = {}
    for m in pkgutil.iter_modules(pkg.__path__):
        mod = importlib.import_module('taurex.binning.' + m.name)
        for name, k in inspect.getmembers(mod, inspect.isclass):
            if issubclass(k, Binner) and k is not Binner and k.__module__ == mod.__name__:
                found[name] = k
    if set(found) != set(BINNER_KINDS):
        raise Machinery('binner classes of taurex.binning %s, specification (Output.tla: Binners) %s' % (sorted(found), sorted(BINNER_KINDS)))
    return {BINNER_KINDS[n]: k for n, k in found.items()}


def lightcurve_result(result, centres):
    """The output tuple of a light-curve forward model (LightCurveModel.model): (binned grid, light curve, optical depths of
    the wrapped model, [native grid, native spectrum, binned spectrum, extra])."""
    native, flux, tau = np.asarray(result[0]), np.asarray(result[1]), np.asarray(result[2])
    centres = np.sort(np.asarray(centres, dtype=float))
    binned = np.interp(centres, native, flux)
    lc = np.concatenate([1.0 - b * np.linspace(0.25, 1.0, 5) for b in binned])
    return centres, lc, tau, [native, flux, binned, None]


def judge_lightcurve_output(ctx, g, lcres, cls, vec):
    """the light-curve binner 'does nothing' to what it is handed: every stored array is the model's own"""
    centres, lc, tau, (native, flux, binned, _) = lcres
    def same(k, a):
        return k in g and g[k].shape == np.shape(a) and np.array_equal(g[k], a, equal_nan=True)
    ctx.verdict('NativeGrid', same('native_wngrid', native) and same('native_wlgrid', 10000.0 / native) and same('native_spectrum', flux), cls=cls,
                detail='native grid / 10000 over it / native spectrum of the light-curve output altered', vector=vec)
    ctx.verdict('BinnedWlGrid', same('binned_wngrid', centres) and same('binned_wlgrid', 10000.0 / centres), cls=cls,
                detail='binned_wlgrid != 10000/binned_wngrid (or not the model\'s binned grid)', vector=vec)
    ctx.verdict('BinnedSpectrum', same('binned_spectrum', binned) and same('lightcurve', lc), cls=cls,
                detail='binned_spectrum / lightcurve are not the arrays the light-curve model returned', vector=vec)
    for k in ('native_tau', 'binned_tau'):
        if k in g:
            ctx.verdict('BinnedTau', same(k, tau), cls=cls, detail='%s is not the optical depth of the model output' % k, vector=vec)


def run_spectrum_outputs(ctx, keytable, tmp, classes):
    import h5py
    from taurex import OutputSize
    from taurex.binning import FluxBinner, SimpleBinner, NativeBinner
    from taurex.output.hdf5 import HDF5Output
    kinds = binner_kinds()
    model = build_model(dict(model='TransmissionModel', temp='Isothermal', gas1='ConstantGas', gas2='ConstantGas',
                             contribs=('AbsorptionContribution', 'RayleighContribution')), classes)
    result = model.model()
    events = []
    grids = {'uniform': np.linspace(500.0, 1900.0, 8), 'unsorted-nonuniform': np.array([1500.0, 600.0, 900.0, 1200.0, 1850.0, 700.0])}
    dy_wn = np.array([625.0, 1250.0, 2500.0, 5000.0])       # 10000/wn and 10000*w/wn^2 are exact in binary floating point
    dy_w = dy_wn / 4.0
    sizes = dict(heavy=OutputSize.heavy, light=OutputSize.light, lighter=OutputSize.lighter)
    want_keys = {(r['binner'], r['size']): set(r['keys']) for r in keytable}
    path = os.path.join(tmp, 'spec.h5')
    if set(b for b, _ in want_keys) != set(kinds):
        raise Machinery('key table of the specification names the binners %s, the package has %s' % (sorted(set(b for b, _ in want_keys)), sorted(kinds)))
    for bname in ('native', 'simple', 'flux', 'lightcurve'):
        for gname, grid in list(grids.items()) + [('dyadic', dy_wn)]:
            if bname == 'native' and gname != 'uniform':
                continue
            widths = dy_w if gname == 'dyadic' else None
            def mk(bname=bname, grid=grid, widths=widths):
                if bname in ('native', 'lightcurve'):
                    return kinds[bname]()
                if bname == 'simple':
                    return SimpleBinner(np.sort(grid), None if widths is None else np.array(widths))      # SimpleBinner expects an ascending grid
                return FluxBinner(np.array(grid), None if widths is None else np.array(widths))
            binner = mk()
            for sname, size in sizes.items():
                cls = '%s:%s:%s' % (bname, sname, gname)
                vec = dict(binner=bname, size=sname, grid=gname)
                given = lightcurve_result(result, grid) if bname == 'lightcurve' else result
                try:
                    out = binner.generate_spectrum_output(given, output_size=size)
                    with HDF5Output(path) as o:
                        o.store_dictionary(out, group_name='Spectra')
                    with h5py.File(path, 'r') as f:
                        g = {k: f['Spectra'][k][...] for k in f['Spectra']}
                except Machinery:
                    raise
                except Exception as e:
                    ctx.verdict('SpectrumKeys', False, cls=cls, detail='writing the spectrum dictionary raised %s: %s' % (type(e).__name__, e), vector=vec)
                    continue
                ctx.verdict('SpectrumKeys', set(g) == want_keys[(bname, sname)], cls=cls,
                            detail='stored keys %s, specification %s' % (sorted(g), sorted(want_keys[(bname, sname)])), vector=vec)
                if bname == 'lightcurve':
                    judge_lightcurve_output(ctx, g, given, cls, vec)
                    continue
                ok = np.array_equal(g['native_wlgrid'], 10000.0 / g['native_wngrid']) and np.array_equal(g['native_spectrum'], result[1])
                ctx.verdict('NativeGrid', ok, cls=cls, detail='native_wlgrid != 10000/native_wngrid or native spectrum altered', vector=vec)
                if bname == 'native':
                    continue
                wn_, w_ = g['binned_wngrid'], g['binned_wnwidth']
                ctx.verdict('BinnedWlGrid', np.allclose(g['binned_wlgrid'], 10000.0 / wn_, rtol=1e-14, atol=0), cls=cls,
                            detail='binned_wlgrid %s != 10000/binned_wngrid' % g['binned_wlgrid'][:3], vector=vec)
                exp = 10000.0 * w_ / wn_ ** 2
                ctx.verdict('BinnedWlWidth', g['binned_wlwidth'].shape == exp.shape and np.allclose(g['binned_wlwidth'], exp, rtol=1e-12, atol=0), cls=cls,
                            detail='binned_wlwidth %s, wavenumber widths converted at the bin centre %s' % (g['binned_wlwidth'][:3], exp[:3]), vector=vec)
                # the reference is an independent, freshly built binner on the same bins (never the object that wrote the output)
                again = mk().bindown(g['native_wngrid'], g['native_spectrum'])[1]
                ctx.verdict('BinnedSpectrum', np.array_equal(g['binned_spectrum'], again, equal_nan=True), cls=cls,
                            detail='binned_spectrum is not the binner applied to the stored native spectrum', vector=vec)
                if 'binned_tau' in g and 'native_tau' in g:
                    ctx.verdict('BinnedTau', np.array_equal(g['binned_tau'], mk().bindown(g['native_wngrid'], g['native_tau'])[1], equal_nan=True), cls=cls,
                                detail='binned_tau is not the binner applied to native_tau', vector=vec)
                if gname == 'dyadic' and sname == 'heavy':
                    for i in range(len(wn_)):
                        try:
                            events.append(dict(ev='grid', id='%s:%d' % (bname, i), wn=fr(wn_[i]), w=fr(w_[i]), wl=fr(g['binned_wlgrid'][i]), wlw=fr(g['binned_wlwidth'][i])))
                        except Machinery:
                            # the exact values 10000/wn and 10000 w/wn^2 are dyadic on this grid; a stored value that is not is wrong
                            ctx.verdict('GridRelationsExact', False, cls='%s:dyadic' % bname, vector=vec,
                                        detail='bin %d: wn=%r w=%r stored wl=%r wlwidth=%r' % (i, wn_[i], w_[i], g['binned_wlgrid'][i], g['binned_wlwidth'][i]))
    return events


# ---------------------------------------------------------------------------- histories of ONE long-lived binner
HIST_CLAUSE = dict(values='BinnedSpectrum', tau='BinnedTau', wlwidth='BinnedWlWidth', native='NativeGrid')


def run_binner_histories(ctx, tmp, only=None):
    """spec/BinnerHistory.tla: TLC's operation sequences (every ordered pair + longer random ones) replayed on ONE real
    FluxBinner / SimpleBinner / NativeBinner; every output dictionary of the long-lived binner goes through HDF5Output and
    h5py, and its binned spectrum / optical depths must be the overlap-weighted mean (TLC, exact) of ITS OWN stored native
    arrays -- whatever the binner produced before; centres, widths and every result equal a freshly built binner's."""
    import h5py
    from taurex.binning import FluxBinner, SimpleBinner, NativeBinner
    from taurex.output.hdf5 import HDF5Output
    from .. import fx_binnerhist as BH
    q = ctx.tier == 'quick'
    if only is None:
        BH.check_design(ctx, thorough=not q)
        A, walks = BH.generate(ctx, thorough=not q)
    else:       # --replay: the alphabet the recorded sequences were drawn from
        A, walks = BH.generate(ctx, thorough=any(o['g'] > 4 for v in only for o in v['ops']), nwalks=20, unit=only[0].get('unit'))
    path = os.path.join(tmp, 'hist.h5')

    class Sink:
        """Every output dictionary of the long-lived binners is written (group S<n>) the moment it is produced; after the
        run the file is read back with h5py and must hold bit for bit what was judged (a copy taken at the call)."""
        def __init__(self):
            self.o = HDF5Output(path)
            self.o.open()
            self.snaps = []

        def store(self, d):
            self.o.store_dictionary(d, group_name='S%d' % len(self.snaps))
            self.snaps.append({k: np.array(v, copy=True) for k, v in d.items()})
            return d

        def reload(self):
            self.o.close()
            bad = {}
            with h5py.File(path, 'r') as f:
                for n, snap in enumerate(self.snaps):
                    g = f['S%d' % n]
                    got = {k: g[k][...] for k in g}
                    diff = sorted(set(got) ^ set(snap)) + [k for k in snap if k in got and not (got[k].shape == snap[k].shape and np.array_equal(got[k], snap[k], equal_nan=True))]
                    if diff:
                        bad[n] = diff
            return bad
    makers = dict(flux=lambda: FluxBinner(np.array(A.tc), np.array(A.tw)),            # handed over unsorted: the constructor sorts
                  simple=lambda: SimpleBinner(np.array(A.c), np.array(A.w)),          # SimpleBinner expects an ascending grid
                  native=lambda: NativeBinner())
    if only is not None:
        todo = [(v['kind'], [dict(ops=v['ops'], src='replay', flux=[], simple=[])], 'all') for v in only]
    else:
        longer = [w for w in walks if w['src'] == 'walk']
        pairs = [w for w in walks if w['src'] == 'pair']
        # through the file: the flux binner -- every output of the longer sequences, the second output of every pair (the first
        # call of a pair is the first call of a longer sequence as well); the stateless binners -- the last output of the longer ones
        todo = [('flux', pairs, 'last'), ('flux', longer, 'all'), ('simple', pairs, None), ('simple', longer, 'last'),
                ('native', pairs, None), ('native', longer, 'last')]
    sink = Sink()
    results = []
    for kind, ws, through_file in todo:
        n0 = len(sink.snaps)
        for w, problems in BH.replay(A, kind, makers[kind], ws, store=sink.store if through_file else None, store_last_only=through_file == 'last'):
            stored = [j for j, o in enumerate(w['ops']) if o['k'] == 'output' and (through_file == 'all' or (through_file == 'last' and j == len(w['ops']) - 1))]
            if len(stored) != len(sink.snaps) - n0 and not problems:
                raise Machinery('binner histories: %d output dictionaries written for %d output calls' % (len(sink.snaps) - n0, len(stored)))
            results.append((kind, w, problems, list(zip(range(n0, len(sink.snaps)), stored))))
            n0 = len(sink.snaps)
    unstored = sink.reload()
    n, nstored = len(results), len(sink.snaps)
    for kind, w, problems, stored in results:
        ops = w['ops']
        vec = dict(binner_history=True, kind=kind, ops=ops, unit=A.U)
        outs = [j for j, o in enumerate(ops) if o['k'] == 'output']
        for idx, j in stored:
            if idx in unstored:
                problems = problems + [(j, 'stored', 'the file does not hold the output dictionary that was computed: %s' % unstored[idx])]
        clauses = {'HistoryIndependent'}
        if outs:
            clauses |= {'BinnedSpectrum', 'NativeGrid'} | ({'BinnedWlWidth'} if kind != 'native' else set())
            if kind != 'native' and any(ops[j]['size'] != 'lighter' for j in outs):
                clauses.add('BinnedTau')
        by = {}
        for j, tag, detail in problems:
            c = 'RoundTrip' if tag == 'stored' else (HIST_CLAUSE.get(tag, 'HistoryIndependent') if ops[j]['k'] == 'output' else 'HistoryIndependent')
            by.setdefault(c, (j, tag, detail))
        for c in sorted(clauses | set(by)):
            if c in by:
                j, tag, detail = by[c]
                ctx.verdict(c, False, cls=BH.failure_class(A, kind, ops, j), vector=vec,
                            detail='one %s binner, calls %s: call %d (%s) -- %s' % (kind, BH.trail(ops), j + 1, tag, detail))
            else:
                ctx.verdict(c, True, cls='history:' + kind, vector=vec)
    if only is None:
        # the doubles are built on the real FluxBinner: once the real binner fails the canary concludes nothing
        ncan = BH.canary(A, walks) if not ctx.has_violations() else 0
        ctx.traces += n
        ctx.note('binner histories: %d operation sequences (all %d ordered pairs of %d operations + longer ones) replayed on one FluxBinner / '
                 'SimpleBinner / NativeBinner each, %d output dictionaries through HDF5; canary: %d sequences on the harness\'s own memo / in-place mutants'
                 % (n, len(pairs), len(A.table['flux']), nstored, ncan))
        ctx.add_sample(dict(binner_history=walks[-1]['ops'], exposes=dict(flux=walks[-1]['flux'], simple=walks[-1]['simple'])))


# ---------------------------------------------------------------------------- histories of the output pipeline
PIPE_CLAUSE = dict(held='ResultsStable', dict='ResultsStable', raised='ResultsStable', computed='StoredIsComputed', sized='TauBySize')
PIPE_MODELS = (('TransmissionModel', {}), ('EmissionModel', dict(ngauss=3)), ('TransmissionModel', dict(new_path_method=True)), ('DirectImageModel', dict(ngauss=3)))


def pipeline_models(classes, which, model_class=None):
    """two long-lived models of one class (different planets: every array of one differs from the other's), three active
    contributions' worth of components (H2O, CH4 absorption; Rayleigh of every gas)"""
    name, kw = which
    cl = dict(classes)
    if model_class is not None:
        cl[name] = (classes[name][0], model_class)
    out = {}
    for m, radius in ((1, 0.9), (2, 1.15)):
        out[m] = build_desc(base_desc(model=(name, kw), temp=('Isothermal', dict(T=1234.0)), planet=('Planet', dict(PLANET, planet_radius=radius)),
                                      press=('SimplePressureProfile', dict(PRESSURE, nlayers=6)),
                                      gases=[('ConstantGas', dict(molecule_name='H2O', mix_ratio=2e-4)), ('ConstantGas', dict(molecule_name='CH4', mix_ratio=5e-4)),
                                             ('ConstantGas', dict(molecule_name='N2', mix_ratio=3e-3))],
                                      contribs=[('AbsorptionContribution', {}), ('RayleighContribution', {})]), cl)
    return out


def run_output_pipeline(ctx, tmp, classes, only=None):
    """spec/OutputPipeline.tla: TLC's operation sequences (the program's own: evaluate > build the dictionary > evaluate every
    contribution and component > store, two solutions evaluated before either is stored; and random ones) replayed on two long-lived
    models of one class, one long-lived binner and the real writer.  Every array handed out is compared with a private copy after
    every later operation; every stored dictionary is read back with h5py: it holds what THAT evaluation returned, the binned
    arrays are a fresh binner applied to them and to the native arrays stored next to them."""
    from taurex.binning import FluxBinner, SimpleBinner, NativeBinner
    from .. import fx_outpipe as OP
    q = ctx.tier == 'quick'
    if only is None:
        from concurrent.futures import ThreadPoolExecutor
        with ThreadPoolExecutor(2) as ex:          # two independent TLC runs
            design = ex.submit(OP.check_design, ctx, not q)
            gen = ex.submit(OP.generate, ctx, 60 if q else 900, not q)
            design.result()
            walks = gen.result()
    else:
        walks = [dict(ops=v['ops'], src='replay', kills={}, model=v['model'], binner=v['binner']) for v in only]
    path = os.path.join(tmp, 'pipe.h5')
    binners = dict(flux=lambda k=FluxBinner: k(np.array(OP.BINS[::-1]), np.full(len(OP.BINS), 60.0)),       # handed over descending: the constructor sorts
                   simple=lambda k=SimpleBinner: k(np.array(OP.BINS)), native=lambda k=NativeBinner: k())
    models, rigs = {}, {}

    def rig_for(i, w):
        mi = [n for n, pm in enumerate(PIPE_MODELS) if '%s%s' % (pm[0], '/newpath' if pm[1].get('new_path_method') else '') == w['model']][0] if 'model' in w else i % len(PIPE_MODELS)
        bname = w.get('binner') or ('flux', 'simple', 'native', 'flux', 'flux')[i % 5]
        if (mi, bname) not in rigs:
            if mi not in models:
                models[mi] = pipeline_models(classes, PIPE_MODELS[mi])
            pm = PIPE_MODELS[mi]
            rigs[(mi, bname)] = OP.Rig(models[mi], binners[bname], '%s%s' % (pm[0], '/newpath' if pm[1].get('new_path_method') else ''), bname)
        return rigs[(mi, bname)]
    nstores = 0
    for i, w in enumerate(walks):
        rig = rig_for(i, w)
        for w_, problems in OP.replay(rig, [w], path):
            ops = w['ops']
            vec = dict(output_pipeline=True, model=rig.name, binner=rig.bname, ops=ops)
            stores = [o for o in ops if o['k'] == 'store']
            nstores += len(stores)
            clauses = {'ResultsStable'} | ({'StoredIsComputed'} if stores else set())
            if stores and rig.bname != 'native':
                clauses.add('BinnedSpectrum')
            by = {}
            for j, tag, sfx, detail in problems:
                c = PIPE_CLAUSE.get(tag) or ('BinnedTau' if 'tau' in sfx else 'BinnedSpectrum')
                by.setdefault(c, (j, tag, sfx, detail))
            for c in sorted(clauses | set(by)):
                if c in by:
                    j, tag, sfx, detail = by[c]
                    ctx.verdict(c, False, cls='pipeline:%s:%s:%s' % (rig.name, rig.bname if tag in ('computed', 'selfdesc', 'sized') else tag, sfx), vector=vec,
                                detail='two %s objects, one %s binner, %s: step %d -- %s' % (rig.name, rig.bname, OP.trail(ops), j + 1, detail))
                else:
                    ctx.verdict(c, True, cls='pipeline:' + rig.name, vector=vec)
    if only is None:
        def make_rig(mk, bk):
            return OP.Rig(pipeline_models(classes, PIPE_MODELS[0], model_class=mk), lambda: binners['flux'](bk), 'TransmissionModel', 'flux')
        # the doubles inherit the code under test: once the real pipeline fails the canary concludes nothing
        ncan = OP.canary(make_rig, walks, path, limit=24 if q else 120) if not ctx.has_violations() else 0
        ctx.traces += len(walks)
        ctx.note('output pipeline: %d operation sequences (%d of the program / the optimizer + random ones) replayed on two long-lived models each of '
                 '%d forward-model set-ups with a long-lived Flux / Simple / Native binner, %d dictionaries through HDF5; canary: %d sequences on the '
                 'harness\'s own work-array / in-place mutants of TransmissionModel and FluxBinner' % (
                     len(walks), sum(1 for w in walks if w['src'] == 'program'), len(PIPE_MODELS), nstores, ncan))
        ctx.add_sample(dict(output_pipeline=walks[0]['ops'], exposes=walks[0]['kills']))


# ---------------------------------------------------------------------------- output size at every place it is consumed
def tau_events_of_block(block, caller, binner, size, where, with_spectra):
    """block: a nested dict / h5py group holding a spectrum dictionary ('Spectra' level) or a contributions block."""
    import h5py

    def is_group(x):
        return isinstance(x, (dict, h5py.Group))

    def taus(g):
        return sorted(k for k in g if not is_group(g[k]) and 'tau' in k)
    ev = []
    contribs = block
    if with_spectra:
        ev.append(dict(ev='tau', caller=caller, place='Spectra', binner=binner, size=size, tau=taus(block), group=where))
        contribs = block['Contributions'] if 'Contributions' in block else {}
    n = 0
    for c in contribs:
        if not is_group(contribs[c]):
            continue
        n += 1
        ev.append(dict(ev='tau', caller=caller, place='Contribution', binner=binner, size=size, tau=taus(contribs[c]), group='%s/%s' % (where, c)))
        for comp in contribs[c]:
            if is_group(contribs[c][comp]):
                ev.append(dict(ev='tau', caller=caller, place='Component', binner=binner, size=size, tau=taus(contribs[c][comp]),
                               group='%s/%s/%s' % (where, c, comp)))
    return ev, n


def program_par(xdir, binning, obs, retrieval):
    L = ['[Global]', 'xsec_path = %s' % xdir,
         '[Chemistry]', 'chemistry_type = taurex', 'fill_gases = H2, He', 'ratio = 0.17',
         '    [[H2O]]', '    gas_type = constant', '    mix_ratio = 1e-4',
         '[Temperature]', 'profile_type = isothermal', 'T = 1200',
         '[Pressure]', 'profile_type = simple', 'nlayers = 10', 'atm_min_pressure = 1e-1', 'atm_max_pressure = 1e6',
         '[Planet]', 'planet_type = simple', 'planet_mass = 1.0', 'planet_radius = 1.0',
         '[Star]', 'star_type = blackbody', 'temperature = 5500', 'radius = 1.0',
         '[Model]', 'model_type = transmission', '    [[Absorption]]', '    [[Rayleigh]]']
    if binning == 'simple':
        L += ['[Binning]', 'bin_type = manual', 'wavenumber_grid = 500, 1900, 8']
    elif binning == 'flux':
        L += ['[Binning]', 'bin_type = manual', 'accurate = True', 'wavenumber_grid = 500, 1900, 8']
    elif binning == 'observed':
        L += ['[Observation]', 'observed_spectrum = %s' % obs]
    if retrieval:
        L += ['[Optimizer]', 'optimizer = nestle', 'num_live_points = 8', 'tol = 5.0',
              '[Fitting]', 'planet_radius:fit = True', 'planet_radius:bounds = 0.9, 1.1', 'T:fit = False', 'H2O:fit = False']
    return '\n'.join(L) + '\n'


def run_program(par_text, flags, tmp):
    """One complete run of the taurex program (taurex.py main) in this process; returns the path of its output file and the
    citation strings output_citations handed to the writer."""
    import contextlib
    import io
    import sys
    import taurex.taurex as T
    from taurex.cache import OpacityCache
    from taurex.log import disableLogging
    par = os.path.join(tmp, 'prog.par')
    out = os.path.join(tmp, 'prog.h5')
    with open(par, 'w') as f:
        f.write(par_text)
    if os.path.exists(out):
        os.unlink(out)
    OpacityCache().clear_cache()
    cites = []
    orig = T.output_citations

    def recording(*a, **kw):
        r = orig(*a, **kw)
        cites.append(r)
        return r
    argv = sys.argv
    sys.argv = ['taurex', '-i', par, '-o', out] + list(flags)
    buf = io.StringIO()
    T.output_citations = recording
    # the program logs through handlers bound to the real stderr and prints tables: silence it at descriptor level
    sys.stdout.flush()
    sys.stderr.flush()
    saved = os.dup(1), os.dup(2)
    log = os.open(os.path.join(tmp, 'prog.log'), os.O_WRONLY | os.O_CREAT | os.O_TRUNC)
    try:
        os.dup2(log, 1)
        os.dup2(log, 2)
        with contextlib.redirect_stdout(buf), contextlib.redirect_stderr(buf):
            T.main()
    finally:
        sys.stdout.flush()
        sys.stderr.flush()
        os.dup2(saved[0], 1)
        os.dup2(saved[1], 2)
        for fd in saved + (log,):
            os.close(fd)
        T.output_citations = orig
        sys.argv = argv
        disableLogging()
    if not os.path.exists(out):
        raise Machinery('the taurex program wrote no output file:\n' + buf.getvalue()[-800:] + open(os.path.join(tmp, 'prog.log')).read()[-800:])
    return out, (cites[-1] if cites else (None, None))


def judge_program_file(ctx, out, binning, bname, sname, retr):
    """The file of one run of the program, read back with h5py: "output files hold what was computed".  The program evaluates the
    forward model, builds the spectrum dictionary, evaluates every contribution and every component on the SAME model object and
    only then writes.  Forward runs: every stored native array equals what the model REBUILT from the ModelParameters of the same
    file computes (model / model_contrib / model_full_contrib), every binned array a freshly built binner (on the stored bins)
    applied to it.  Every run (also each solution of a retrieval): binned arrays = that binner applied to the native arrays stored
    next to them."""
    import h5py
    from taurex.binning import FluxBinner, SimpleBinner
    from taurex.util.hdf5 import taurex_hdf5_to_model

    def tree(g):
        return {k: (tree(g[k]) if isinstance(g[k], h5py.Group) else g[k][...]) for k in g}

    def close(a, b):
        a, b = np.asarray(a, dtype=float), np.asarray(b, dtype=float)
        return a.shape == b.shape and np.allclose(a, b, rtol=1e-12, atol=0, equal_nan=True)
    with h5py.File(out, 'r') as f:
        o = f['Output']
        if retr:
            blocks = [('Output/Solutions/%s/Spectra' % k, tree(o['Solutions'][k]['Spectra'])) for k in o.get('Solutions', {}) if k.startswith('solution') and 'Spectra' in o['Solutions'][k]]
            if 'Priors' in o and 'Spectra' in o['Priors']:
                blocks.append(('Output/Priors/Spectra', tree(o['Priors']['Spectra'])))
        else:
            blocks = [('Output/Spectra', tree(o['Spectra']))] if 'Spectra' in o else []
    tagc = 'program:%s:%s' % (binning, sname)
    vec = dict(program_file=True, binning=binning, size=sname)
    ref = None
    if not retr:
        try:
            model = taurex_hdf5_to_model(out)
            model.build()
            # every array is copied before the rebuilt model is evaluated again
            cp = lambda x: np.array(x, copy=True)
            res = model.model()
            ref = dict(grid=cp(res[0]), all=(cp(res[1]), cp(res[2])))
            ref['contrib'] = {k: (cp(v[0]), cp(v[1])) for k, v in model.model_contrib()[1].items()}
            ref['full'] = {k: {x[0]: (cp(x[1]), cp(x[2])) for x in v} for k, v in model.model_full_contrib()[1].items()}
            ctx.verdict('ModelReloads', True, cls='reload', vector=vec)
        except Exception as ex:
            ctx.verdict('ModelReloads', False, cls='reload:program:%s' % binning, detail='the model of the program\'s output file cannot be rebuilt: %s: %s' % (type(ex).__name__, str(ex)[:160]), vector=vec)
    for where, sp in blocks:
        if 'native_wngrid' not in sp or 'native_spectrum' not in sp:
            continue                # the key set is judged by SpectrumKeys / TauBySize
        binner = None
        if 'binned_wngrid' in sp and 'binned_wnwidth' in sp:
            binner = (FluxBinner if bname == 'flux' else SimpleBinner)(np.array(sp['binned_wngrid']), np.array(sp['binned_wnwidth']))
        grid = sp['native_wngrid']

        def block(b, name, want):
            """b: datasets of one group; want: (flux, tau) of the rebuilt model or None"""
            for nat, bnd, i in (('native_spectrum', 'binned_spectrum', 0), ('native_tau', 'binned_tau', 1)):
                clause = 'BinnedTau' if i else 'BinnedSpectrum'
                if binner is not None and nat in b and bnd in b and not isinstance(b[nat], dict):
                    again = binner.bindown(np.array(grid), np.array(b[nat]))[1]
                    ctx.verdict(clause, close(b[bnd], again), cls='%s:%s' % (tagc, name), vector=vec,
                                detail='%s/%s: %s is not the binner applied to the %s stored next to it (max abs difference %.3g)' % (
                                    where, name, bnd, nat, float(np.nanmax(np.abs(np.asarray(b[bnd]) - again))) if np.shape(b[bnd]) == np.shape(again) else -1))
                if want is None:
                    continue
                if nat in b:
                    ctx.verdict('StoredIsComputed', close(b[nat], want[i]), cls='%s:%s:%s' % (tagc, name, nat), vector=vec,
                                detail='%s/%s: the stored %s is not what the model rebuilt from the same file computes (max abs difference %.3g)' % (
                                    where, name, nat, float(np.nanmax(np.abs(np.asarray(b[nat]) - want[i]))) if np.shape(b[nat]) == np.shape(want[i]) else -1))
                if bnd in b and binner is not None:
                    again = binner.bindown(np.array(ref['grid']), np.array(want[i]))[1]
                    ctx.verdict('StoredIsComputed', close(b[bnd], again), cls='%s:%s:%s' % (tagc, name, bnd), vector=vec,
                                detail='%s/%s: the stored %s is not the binner applied to what the model rebuilt from the same file computes (max abs difference %.3g)' % (
                                    where, name, bnd, float(np.nanmax(np.abs(np.asarray(b[bnd]) - again))) if np.shape(b[bnd]) == np.shape(again) else -1))
        if ref is not None:
            ctx.verdict('StoredIsComputed', np.array_equal(grid, ref['grid']), cls='%s:Spectra:native_wngrid' % tagc, vector=vec,
                        detail='%s: native_wngrid is not the native grid of the rebuilt model' % where)
        block(sp, 'Spectra', ref and ref['all'])
        for c, cb in (sp.get('Contributions') or {}).items():
            if not isinstance(cb, dict):
                continue
            block(cb, 'Contribution', ref and ref['contrib'].get(c))
            for comp, pb in cb.items():
                if isinstance(pb, dict):
                    block(pb, 'Component', ref and ref['full'].get(c, {}).get(comp))


def run_size_callers(ctx, tmp, classes, rng, tau_rows):
    """Events for TLC (Trace_Output, ev = "tau" / "dict"): the optical-depth datasets present in every group written
    through each caller x binner x requested size; the Bibliography block of every program run."""
    import h5py
    from taurex import OutputSize
    from taurex.binning import FluxBinner, SimpleBinner, NativeBinner
    from taurex.output.hdf5 import HDF5Output
    from taurex.util.output import store_contributions
    from .C15 import xsec_dir
    q = ctx.tier == 'quick'
    events = []
    sizes = dict(heavy=OutputSize.heavy, light=OutputSize.light, lighter=OutputSize.lighter)
    model = build_model(dict(model='TransmissionModel', temp='Isothermal', gas1='ConstantGas', gas2='ConstantGas',
                             contribs=('AbsorptionContribution', 'RayleighContribution')), classes)
    result = model.model()
    grid = np.linspace(500.0, 1900.0, 8)
    path = os.path.join(tmp, 'size.h5')
    if set(OutputSize.__members__) != set(sizes):
        raise Machinery('OutputSize has the members %s, the specification (Output.tla: Sizes) %s' % (sorted(OutputSize.__members__), sorted(sizes)))
    kinds = binner_kinds()
    wanted = {(r['caller'], r['binner']) for r in tau_rows}
    # binner kind x size is a PRODUCT (MC_Output_sizeswapped: one kind alone can have its own slip): every class of the package
    for bname, binner in (('native', kinds['native']()), ('simple', kinds['simple'](grid)), ('flux', kinds['flux'](grid)), ('lightcurve', kinds['lightcurve']())):
        given = lightcurve_result(result, grid) if bname == 'lightcurve' else result
        for sname, member in sizes.items():
            # the member itself and the plain integer of the same value (OutputSize is an IntEnum)
            for how, size in (('member', member), ('int', int(member))):
                try:
                    out = binner.generate_spectrum_output(given, output_size=size)
                    with HDF5Output(path) as o:
                        o.store_dictionary(out, group_name='Spectra')
                    with h5py.File(path, 'r') as f:
                        ev, _ = tau_events_of_block(f['Spectra'], 'direct', bname, sname, 'direct(%s)' % how, True)
                except Machinery:
                    raise
                except Exception as e:
                    ev = [dict(ev='tau', caller='direct', place='Spectra', binner=bname, size=sname, tau=['<raised %s>' % type(e).__name__], group='direct(%s)' % how)]
                events += ev
                if ('contributions', bname) not in wanted:      # CallersOf(binner): the light-curve binner is reached directly only
                    continue
                block = store_contributions(binner, model, output_size=size)
                with HDF5Output(path) as o:
                    o.store_dictionary(block, group_name='Contributions')
                with h5py.File(path, 'r') as f:
                    ev, n = tau_events_of_block(f['Contributions'], 'contributions', bname, sname, 'store_contributions(%s)' % how, False)
                if n != 2:
                    raise Machinery('store_contributions returned %d contribution blocks for a model with 2 contributions' % n)
                events += ev
    # the program itself, forward model: no binning section -> native, manual binning -> SimpleBinner / FluxBinner,
    # an observation -> its FluxBinner; then a retrieval (Priors = program, Solutions = Optimizer.generate_solution)
    ptmp = os.path.join(tmp, 'program')
    os.makedirs(ptmp, exist_ok=True)
    xdir = xsec_dir(ptmp)
    obs = os.path.join(ptmp, 'obs.dat')
    with open(obs, 'w') as f:
        for x in np.linspace(5.5, 20.0, 7):
            f.write('%.6f %.8e %.3e\n' % (x, 0.0105 + 1e-4 * rng.random(), 5e-3))     # wide errors: flat likelihood, no zero-weight samples
    flags = dict(heavy=[], light=['--light'], lighter=['--lighter'])
    bib_events = []
    for binning, bname in (('native', 'native'), ('simple', 'simple'), ('flux', 'flux'), ('observed', 'flux'), ('retrieval', 'flux')):
        for sname in ('heavy', 'light', 'lighter'):
            retr = binning == 'retrieval'
            for attempt in range(3):
                try:
                    np.random.seed(ctx.seed * 101 + attempt)        # nestle draws from numpy's global generator
                    out, (bib_tex, short) = run_program(program_par(xdir, 'observed' if retr else binning, obs, retr),
                                                        flags[sname] + (['-R'] if retr else []), ptmp)
                    break
                except Machinery:
                    raise
                except Exception:
                    # a retrieval with a handful of live points can die in the error propagation (zero-weight samples):
                    # not this property; try other samples, then let the exception count as "the program raised"
                    if not retr or attempt == 2:
                        raise
            with h5py.File(out, 'r') as f:
                def grp(*names):
                    g = f
                    for nm in names:
                        if not isinstance(g, h5py.Group) or nm not in g:
                            return None
                        g = g[nm]
                    return g
                blocks = [('program', grp('Output', 'Priors', 'Spectra'), 'Output/Priors/Spectra')] if retr else [('program', grp('Output', 'Spectra'), 'Output/Spectra')]
                if retr:
                    sols = [k for k in (grp('Output', 'Solutions') or {}) if k.startswith('solution')]
                    if not sols:
                        raise Machinery('the retrieval stored no solution')
                    blocks += [('optimizer', grp('Output', 'Solutions', k, 'Spectra'), 'Output/Solutions/%s/Spectra' % k) for k in sols]
                for caller, blk, where in blocks:
                    if blk is None:         # the spectrum dictionary of the run is not in the file at all
                        events.append(dict(ev='tau', caller=caller, place='Spectra', binner=bname, size=sname, tau=['<group %s missing>' % where],
                                           group='%s[%s]' % (where, binning)))
                        continue
                    ev, n = tau_events_of_block(blk, caller, bname, sname, '%s[%s]' % (where, binning), True)
                    want = {(r['caller'], r['place'], r['binner'], r['size']): r['tau'] for r in tau_rows}
                    if n != 2 and want[(caller, 'Contribution', bname, sname)]:
                        # the program swallows every exception of store_contributions: optical depths the table requires are lost
                        ev.append(dict(ev='tau', caller=caller, place='Contribution', binner=bname, size=sname, tau=['<no Contributions block: %d>' % n],
                                       group='%s[%s]/Contributions' % (where, binning)))
                    events += ev
                judge_program_file(ctx, out, binning, bname, sname, retr)
                if bib_tex is not None and (binning in ('native', 'retrieval') or not q):
                    items = dict(bibtex=dict(k='str', v=tok(bib_tex)), short_form=dict(k='str', v=tok(short)))
                    tree = read_tree(f['Bibliography']) if 'Bibliography' in f else dict(n='error', why='no Bibliography group')
                    bib_events.append(dict(ev='dict', id='bib:program:%s:%s' % (binning, sname), items=items, tree=tree, cls='bib:program'))
    return events, bib_events


# ---------------------------------------------------------------------------- the strings the library itself stores
def citable_classes(classes):
    from taurex.data.citation import Citable
    seen, todo = {}, [Citable]
    while todo:
        k = todo.pop()
        for sub in k.__subclasses__():
            if sub not in seen:
                seen[sub] = True
                todo.append(sub)
    for kind, k in classes.values():
        if isinstance(k, type) and issubclass(k, Citable):
            seen[k] = True
    return sorted((k for k in seen if k.__module__.startswith('taurex.')), key=lambda k: (k.__module__, k.__name__))


def run_bibliography(ctx, tmp, classes):
    """For every built-in class that carries citations: the two strings the program stores (short form and BibTeX), written
    the way taurex.py writes them (Bibliography group, write_string) and through store_dictionary -> 'dict' events."""
    import h5py
    from taurex.data.citation import Citable, to_bibtex, construct_nice_printable_string
    from taurex.output.hdf5 import HDF5Output
    path = os.path.join(tmp, 'bib.h5')
    events, nonascii = [], 0
    for k in citable_classes(classes):
        try:
            inst = object.__new__(k)
            entries = Citable.citations(inst)
        except Exception:
            continue
        if not entries:
            continue
        short, bib = '\n'.join(construct_nice_printable_string(e) for e in entries), to_bibtex(entries)     # = Citable.nice_citation
        nonascii += any(ord(c) > 126 for c in short + bib)
        items = dict(bibtex=dict(k='str', v=tok(bib)), short_form=dict(k='str', v=tok(short)))
        try:
            with HDF5Output(path) as o:
                g = o.create_group('Bibliography')
                g.write_string('short_form', short)
                g.write_string('bibtex', bib)
                o.store_dictionary(dict(bibtex=bib, short_form=short), group_name='D')
            with h5py.File(path, 'r') as f:
                t1, t2 = read_tree(f['Bibliography']), read_tree(f['D'])
        except Exception as ex:
            t1 = t2 = dict(n='error', why=type(ex).__name__, msg=str(ex)[:160])
        events.append(dict(ev='dict', id='bib:write_string:' + k.__name__, items=items, tree=t1, cls='bib:' + k.__name__))
        events.append(dict(ev='dict', id='bib:store_dictionary:' + k.__name__, items=items, tree=t2, cls='bib:' + k.__name__))
    if len(events) < 10 or not nonascii:
        raise Machinery('bibliography binding is vacuous: %d events, %d classes with non-ASCII citations' % (len(events), nonascii))
    return events


def judge_events(ctx, events, tau_rows):
    """Binding B: every recorded event is validated by TLC (Trace_Output); one verdict per event."""
    for i, e in enumerate(events):
        e['l'] = i
    accepted, bad, res = validate_trace('Trace_Output', 'Trace_Output.cfg', [{k: v for k, v in e.items() if k not in ('cls', 'group')} for e in events])
    ctx.add_tlc('trace', res, counts=False)
    if res.postcondition_false and not bad:
        raise Machinery('trace spec did not consume the whole trace:\n' + res.out[-1500:])
    badl = {b['l'] for b in bad}
    ctx.traces += len(events)
    for e in events:
        if e['ev'] == 'dict' and 'cls' in e:
            ctx.verdict('RoundTrip', e['l'] not in badl, cls=e['cls'],
                        detail='%s: the stored citation strings came back changed: %s' % (e['id'], json.dumps(e['tree'])[:240]), vector=dict(bib=e['id']))
        elif e['ev'] == 'dict':
            ctx.verdict('RoundTrip', e['l'] not in badl, cls='trace:' + dict_cls(e['items']),
                        detail='TLC rejected the reloaded tree %s' % json.dumps(e['tree'])[:300], vector=dict(trace=True, items=e['items']))
        elif e['ev'] == 'tau':
            ctx.verdict('TauBySize', e['l'] not in badl, cls='%s:%s:%s:%s' % (e['caller'], e['place'], e['binner'], e['size']),
                        detail='%s holds the optical-depth datasets %s; the specification (TauAt) requires %s' % (
                            e['group'], e['tau'], [r['tau'] for r in tau_rows if (r['caller'], r['place'], r['binner'], r['size']) ==
                                                  (e['caller'], e['place'], e['binner'], e['size'])]), vector=dict(tau=True, caller=e['caller']))
        else:
            ctx.verdict('GridRelationsExact', e['l'] not in badl, cls='flux:dyadic' if e['id'].startswith('flux') else 'simple:dyadic',
                        detail='bin %s: wn=%s w=%s stored wl=%s wlwidth=%s' % (e['id'], e['wn'], e['w'], e['wl'], e['wlw']), vector=dict(trace=True, grid=e))
    return badl


# ---------------------------------------------------------------------------- main
# Findings on the unchanged tree that this check proposes as known (the coordinator owns known_findings.json; until an
# entry with the same id is there, the proposal is matched here so that every OTHER violation is still reported).
PROPOSED_FINDINGS = [
    dict(property='C16', id='L-C16g', status='known', clause='(ModelReloads|WriteCoversCtor)',
         cls='(reload:)?(TemperatureFile|FilePressureProfile|ArrayPressureProfile|ChemistryFile)(:.*)?',
         what='(proposed) a model whose temperature / pressure / chemistry comes from an external file or a positional array '
              '(TemperatureFile, FilePressureProfile, ArrayPressureProfile, ChemistryFile) cannot be rebuilt from its HDF5 file: write() '
              'stores none of the constructor arguments (file name, columns, units, the array; ChemistryFile: not its gases), so '
              'taurex_hdf5_to_model raises (np.loadtxt(None), missing positional argument "array", gases=None)'),
]


def propose_findings(ctx):
    have = {f.get('id') for f in ctx.findings}
    for f in PROPOSED_FINDINGS:
        if f['id'] not in have:
            ctx.findings.append(dict(f))


def run(ctx):
    import time
    q = ctx.tier == 'quick'
    rng = random.Random(ctx.seed * 7907 + 16)
    propose_findings(ctx)
    t0 = [time.time()]

    def lap(what):
        if os.environ.get('C16_PROFILE'):
            print('  [C16 %-28s %6.1f s]' % (what, time.time() - t0[0]))
        t0[0] = time.time()
    ctx.bounds = dict(tier=ctx.tier, dictionaries='all dictionaries over 22 leaf values (every value kind; rectangular, ragged, string, dict-valued '
                      'sequences) and over the 18 leaves of the string-alphabet catalogue (empty, blanks, newlines, accents, typographic quotes, micro '
                      'sign, BibTeX block; scalars, lists, tuples, nested sequences, dictionaries in lists), '
                      + ('2 top-level keys, depth 2' if q else '3 top-level keys, depth 2; export: depth 3'),
                      random_dictionaries=400 if q else 4000, model_roundtrips='pairwise cover (%d) + component sweep' % (8 if q else 60),
                      spectrum_outputs='4 binner kinds (every class of taurex.binning) x 3 output sizes x (uniform, unsorted non-uniform, dyadic) grids; output size consumed through '
                      'direct calls (member and int), store_contributions, the taurex program (5 binning set-ups) and Optimizer.generate_solution',
                      bibliography='short form and BibTeX of every built-in class that carries citations',
                      binner_histories='one FluxBinner / SimpleBinner / NativeBinner each through every ordered pair of %d operations (bindown with / without '
                      'grid_width and error, bin_model, generate_spectrum_output x 3 sizes on %d native grids: same grid, same length and ends with another '
                      'spacing, same length elsewhere, other length) and %d random sequences of %d operations; 4 target bins (overlapping, gapped, unsorted)'
                      % ((32, 4, 120, 6) if q else (40, 5, 1200, 9)))
    ctx.bounds['output_pipeline'] = ('%d TLC-generated sequences of <= %d operations (evaluate model / every contribution / every component on the native or a '
                                     'clipped grid with one of two parameter values on one of two model objects; build a dictionary in one of 3 sizes; store) + the 16 '
                                     'sequences of the program and the optimizer, on Transmission (both path methods), Emission and DirectImage models' % ((60, 7) if q else (900, 10)))
    ctx.bounds['falsy_class'] = 'every numeric / boolean / list keyword of every swept component at 0 / 0.0 / False / [] where the model builds and gives a finite spectrum'
    ctx.assumptions = ['h5py reads back what HDF5Output wrote (Load = the h5py view)',
                       'names are ASCII <= 64 characters without "/" and no key is another key followed by digits',
                       'strings hold no NUL character; an entry of a string list / tuple is at most 64 bytes of UTF-8 (S64 by design)',
                       'the per-contribution blocks of a run are stored one step lighter than the run (the size - 3 of both callers)',
                       'constructor arguments are observed by signature-preserving wrappers installed from outside the repository',
                       'binner histories: native grids ascend, their cells (passed widths, or mid-point widths centred on the points) ascend in both edges and '
                       'reach every target bin (AlphabetOk, checked by TLC); lattice coordinates times a dyadic unit are exact floats',
                       'output pipeline: "what was computed" is what the arrays hold when the evaluation returns them (private copies taken at once); the '
                       'two results held of model_contrib / model_full_contrib (first and last) are different quantities in the fixture, so shared memory is an error',
                       'a falsy keyword value is inside the quantifier iff the model built with it gives a finite spectrum before anything is written',
                       'TLC + CommunityModules Json/IOUtils']
    tmp = tempfile.mkdtemp(prefix='c16_')
    sd = None
    try:
        # 1. design level (quick: the export configurations are the exhaustive ones -- same constants, same invariants)
        if q:
            r = ctx.check_spec('exhaustive', 'MC_Output', 'EX_Output_quick.cfg', workers=1)
            rs = ctx.check_spec('exhaustive-strings', 'MC_Output', 'EX_OutputStr_quick.cfg', workers=1)
            exports = [r, rs]
        else:
            r = ctx.check_spec('exhaustive', 'MC_Output', 'MC_Output_thorough.cfg')
            ctx.check_spec('exhaustive-strings', 'MC_Output', 'MC_OutputStr_thorough.cfg')
            exports = []
            for cfg in ('EX_Output_thorough.cfg', 'EX_OutputStr_thorough.cfg'):
                ex = run_tlc('MC_Output', cfg, workers=1)
                ctx.add_tlc('export' + ('-strings' if 'Str' in cfg else ''), ex, counts=False)
                exports.append(ex)
        ctx.exhaustive = True
        keytable = r.tagged('KEYS')[0]
        tau_rows = r.tagged('TAU')[0]
        # five independent small TLC runs side by side (bookkeeping in this thread): label, module, cfg, invariant TLC must refute (None: must hold)
        jobs = [('numpy2-valueerror-not-caught', 'MC_Output', 'MC_Output_numpy2.cfg', 'RoundTrip'),
                ('size-by-identity', 'MC_Output', 'MC_Output_sizeident.cfg', 'SizeArith'),
                # ONE binner kind (the light-curve binner) with the native / binned payloads of the two size tests exchanged: refuted at 'light'
                ('size-swapped-in-one-binner-kind', 'MC_Output', 'MC_Output_sizeswapped.cfg', 'SizeArith'),
                ('writer-lemma', 'MC_OutputWr', 'MC_OutputWr_sufficient.cfg', None),
                ('writer-lemma-any-values', 'MC_OutputWr', 'MC_OutputWr_any.cfg', 'Exposes'),
                # a sweep without the 'falsy' input class cannot see a write() that tests `if value:` (TLC's counterexample: identity map, guard "truthy")
                ('writer-lemma-no-falsy-class', 'MC_OutputWr', 'MC_OutputWr_nofalsy.cfg', 'SweepExposes')]
        from concurrent.futures import ThreadPoolExecutor
        with ThreadPoolExecutor(len(jobs)) as ex:
            futs = [ex.submit(run_tlc, m, c, allow_violation=True, workers=2) for _, m, c, _ in jobs]
            for (label, m, c, inv), fut in zip(jobs, futs):
                res = fut.result()
                ctx.add_tlc(label, res, counts=inv is None)
                if res.violated != inv:
                    raise Machinery('%s/%s: expected TLC to %s, got %r\n%s' % (m, c, 'refute ' + inv if inv else 'find no violation', res.violated, res.error_trace if res.violated else ''))
                if inv is None and res.distinct == 0:
                    raise Machinery('TLC reported 0 states for %s/%s' % (m, c))
        lap('design')
        # 2. binding A: exported dictionaries through HDF5Output / h5py
        n = 0
        for ex in exports:
            vecs = ex.tagged('VEC')
            if not vecs:
                raise Machinery('no dictionary exported')
            n += run_dict_vectors(ctx, vecs, tmp, rng)
            ctx.add_sample(dict(dictionary=vecs[len(vecs) // 3]['dict']))
        ctx.note('%d exported dictionaries stored and reloaded' % n)
        lap('dict vectors')
        # 3. spectrum outputs
        for kind, k in classes_by_name().values():
            FX._wrap_init(k)
        classes = classes_by_name()
        opacities()
        grid_events = run_spectrum_outputs(ctx, keytable, tmp, classes)
        lap('spectrum outputs')
        run_binner_histories(ctx, tmp)
        lap('binner histories')
        run_output_pipeline(ctx, tmp, classes)
        lap('output pipeline')
        tau_events, prog_bib = run_size_callers(ctx, tmp, classes, rng, tau_rows)
        lap('size callers')
        opacities()
        bib_events = run_bibliography(ctx, tmp, classes) + prog_bib
        lap('bibliography')
        # 4. binding B: random dictionaries, bibliography strings, tau datasets per caller and exact grid relations, validated by TLC
        events = run_dict_traces(ctx, 400 if q else 4000, tmp, rng) + bib_events + tau_events + grid_events
        badl = judge_events(ctx, events, tau_rows)
        # canaries: one per event kind that carries a new clause
        good = [e for e in events if e['ev'] == 'dict' and 'cls' not in e and e['l'] not in badl and e['tree'].get('n') == 'group' and e['tree']['m']]
        canaries = []
        if good:
            c = json.loads(json.dumps(good[len(good) // 2]))
            name = sorted(c['tree']['m'])[0]
            c['tree']['m'][name + 'x'] = c['tree']['m'].pop(name)
            canaries.append(c)
        elif not badl:
            raise Machinery('no accepted event for the canary')
        gb = [e for e in bib_events if e['l'] not in badl and '<U+' in e['items']['bibtex']['v']]
        if gb:
            c = json.loads(json.dumps(gb[0]))
            c['tree']['m']['bibtex']['v'] = re.sub(r'<U\+[0-9A-F]{4,6}>', '', c['tree']['m']['bibtex']['v'])      # the characters dropped
            canaries.append(c)
        elif not any(e['l'] in badl for e in bib_events):
            raise Machinery('no bibliography event with a non-ASCII character for the canary')
        gt = [e for e in tau_events if e['l'] not in badl and e['size'] == 'lighter' and e['place'] == 'Component' and e['caller'] in ('program', 'optimizer')]
        if gt:
            c = json.loads(json.dumps(gt[0]))
            c['tau'] = ['binned_tau']
            canaries.append(c)
        elif not any(e['l'] in badl for e in tau_events):
            raise Machinery('no program/optimizer tau event for the canary')
        for i, c in enumerate(canaries):
            c['l'] = i
        ok2, bad2, _ = validate_trace('Trace_Output', 'Trace_Output.cfg', [{k: v for k, v in e.items() if k not in ('cls', 'group')} for e in canaries]) if canaries else (False, [], None)
        if ok2 or {b['l'] for b in bad2} != set(range(len(canaries))):
            raise Machinery('canary accepted: trace validation is vacuous (%s)' % bad2)
        lap('trace+canary')
        # 5. model write -> rebuild: pairwise cover of component combinations, then the component sweep
        gases = ['ConstantGas', 'TwoLayerGas', 'PowerGas', 'PowerGas/auto']      # TwoPointGas (L-C16f) has its own sweep case
        allc = [dict(model=m, temp=t, gas1=g1, gas2=g2, contribs=cs) for m in MODELS for t in TEMPS for g1 in gases for g2 in gases
                for cs in CONTRIB_SETS if g1 <= g2 and not (g1 == g2 == 'PowerGas/auto')]
        rng.shuffle(allc)
        chosen, pairs = [], set()
        want = 8 if q else 60
        for c in allc:        # greedy pairwise cover, then fill up
            feats = [('m', c['model']), ('t', c['temp']), ('g', c['gas1']), ('g', c['gas2']), ('c', c['contribs'])]
            ps = {frozenset(p) for p in itertools.combinations(feats, 2)} | {frozenset([f]) for f in feats}
            if not ps <= pairs and (len(chosen) < want):
                chosen.append(c)
                pairs |= ps
        singles = {f for p in pairs if len(p) == 1 for f in p}
        for c in allc:
            feats = {('m', c['model']), ('t', c['temp']), ('g', c['gas1']), ('g', c['gas2']), ('c', c['contribs'])}
            if not feats <= singles:
                chosen.append(c)
                singles |= feats
        table = sweep_table(sweep_files(tmp))
        missing = sorted(set(n for n, (kind, k) in classes.items() if kind in ('temperature', 'chemistry', 'gas', 'pressure', 'planet', 'star', 'model', 'contribution'))
                         - {row['cls'] for row in table} - set(NOT_SWEPT))
        if missing:
            raise Machinery('built-in component classes without a sweep entry: %s' % missing)
        cases = [combo_case(c) for c in chosen] + sweep_cases(table, (None,) if q else (None, ('EmissionModel', dict(ngauss=3)), ('DirectImageModel', dict(ngauss=5))))
        probed = {}
        written = run_model_roundtrips(ctx, cases, tmp, classes, probed)
        legal = sorted(k for k, v in probed.items() if v == 'legal')
        ctx.note('%d models written and rebuilt (%d combinations, %d sweep variants of %d component classes; falsy input class: %d keywords '
                 'take 0 / 0.0 / False / [] in a model that builds -- written and rebuilt --, %d reject it)' % (
                     len(cases) - (len(probed) - len(legal)), len(chosen), len(cases) - len(chosen) - (len(probed) - len(legal)), len(table),
                     len(legal), len(probed) - len(legal)))
        kinds_hit = {classes[c][0] for c, k in legal if c in classes}
        if len(legal) < 20 or not {'temperature', 'gas', 'planet', 'star', 'contribution', 'chemistry'} <= kinds_hit:
            raise Machinery('the falsy input class is vacuous: only %d keywords accept a falsy value (kinds %s): %s' % (len(legal), sorted(kinds_hit), probed))
        lap('model roundtrips')
        # 6. ModelFile / Rebuild: constructor keywords that no write() stores; the sweep covers every keyword
        given = sweep_given(table, classes)
        for (c, k), v in probed.items():
            if c in given:
                given[c].setdefault('zeroed' if v == 'legal' else 'nozero', set()).add(k)
        reg_text = gen_output_reg(classes, written, given)
        if os.environ.get('C16_SNAPSHOT'):          # refresh the committed snapshot spec/OutputReg.tla (documentation only)
            with open(os.path.join(SPEC, 'OutputReg.tla'), 'w') as f:
                f.write(reg_text)
        sd = make_spec_dir(reg_text)
        rb = run_tlc('MC_OutputReb', 'MC_OutputReb.cfg', spec_dir=sd, workers=1)
        ctx.add_tlc('rebuild-table', rb, counts=False)
        rows = rb.tagged('REB')
        if not rows:
            raise Machinery('no REB table')
        unswept = {row['name']: sorted(row['unswept']) + ['falsy:' + k for k in sorted(row['unzeroed'])] for row in rows[0]
                   if row['unswept'] or row['unzeroed'] or not row['distinct']}
        if unswept:
            raise Machinery('SweepComplete fails: the component sweep leaves constructor keywords at their default (or uses equal values): %s' % unswept)
        for row in sorted(rows[0], key=lambda x: x['name']):
            lost = sorted(row['lost'])
            if not lost:
                ctx.verdict('WriteCoversCtor', True, cls=row['name'], vector=row)
            for k in lost:
                ctx.verdict('WriteCoversCtor', False, cls='%s:%s' % (row['name'], k),
                            detail='constructor keyword %s of %s is not written by write(): a rebuilt model takes the default' % (k, row['name']), vector=dict(row, key=k))
    finally:
        shutil.rmtree(tmp, ignore_errors=True)
        if sd:
            shutil.rmtree(sd, ignore_errors=True)
        try:
            from ..fixtures import reset_caches
            reset_caches()
        except Exception:
            pass


# built-in classes the sweep cannot build here, with the reason
NOT_SWEPT = {
    'PhoenixStar': 'get_avail_phoenix uses np.float: the class cannot be constructed on this interpreter (and needs PHOENIX FITS files)',
    'AutoChemistry': 'abstract base class of the file / plugin chemistries',
}


def replay(ctx, violations):
    tmp = tempfile.mkdtemp(prefix='c16r_')
    rng = random.Random(0)
    propose_findings(ctx)
    try:
        for kind, k in classes_by_name().values():
            FX._wrap_init(k)
        classes = classes_by_name()
        opacities()
        done = set()
        table = sweep_table(sweep_files(tmp))
        tables = run_tlc('MC_Output', 'MC_Output_numpy2.cfg', workers=1, allow_violation=True)
        hist, pipe = [], []
        for viol in violations:
            v = viol['vector'] or {}
            if 'dict' in v and 'tree' in v:
                run_dict_vectors(ctx, [v], tmp, None)
            elif v.get('trace') and 'items' in v:
                got = store_and_read(dict_py(v['items'], None), os.path.join(tmp, 'r.h5'))
                ok, bad, _ = validate_trace('Trace_Output', 'Trace_Output.cfg', [dict(ev='dict', id=0, l=0, items=v['items'], tree=got)])
                ctx.verdict('RoundTrip', not bad, cls=viol['cls'], detail='reloaded tree %s' % json.dumps(got)[:300], vector=v)
            elif 'model' in v and 'temp' in v:
                v['contribs'] = tuple(v['contribs'])
                run_model_roundtrips(ctx, [combo_case(v)], tmp, classes)
            elif 'sweep' in v:
                run_model_roundtrips(ctx, [c for c in sweep_cases(table, (tuple(v['in_model']) if v.get('in_model') else None,)) if c['vec'].get('variant') == v['variant'] and c['vec']['sweep'] == v['sweep']], tmp, classes)
            elif v.get('binner_history'):
                hist.append(v)
            elif v.get('output_pipeline'):
                pipe.append(v)
            elif (v.get('tau') or v.get('program_file')) and 'tau' in done:
                continue
            elif v.get('tau') or v.get('program_file'):
                done.add('tau')
                ev, bib = run_size_callers(ctx, tmp, classes, rng, tables.tagged('TAU')[0])
                opacities()
                judge_events(ctx, ev + bib, tables.tagged('TAU')[0])
            elif 'bib' in v and 'bib' not in done:
                done.add('bib')
                judge_events(ctx, run_bibliography(ctx, tmp, classes), tables.tagged('TAU')[0])
            elif not ({'tau', 'bib'} & set(v)) and 'spec' not in done:
                done.add('spec')
                run_spectrum_outputs(ctx, tables.tagged('KEYS')[0], tmp, classes)
        if hist:
            run_binner_histories(ctx, tmp, only=hist)
        if pipe:
            opacities()
            run_output_pipeline(ctx, tmp, classes, only=pipe)
    finally:
        shutil.rmtree(tmp, ignore_errors=True)
        try:
            from ..fixtures import reset_caches
            reset_caches()
        except Exception:
            pass
