"""C16 -- output files hold what was computed and reload to the same model.

Spec: spec/Output.tla (value kinds, Store with the code's type dispatch, Canon = documented flattening,
      RoundTrip; SpectrumKeys per binner x output size, exact grid relations; ModelFile/Rebuild),
      spec/MC_Output.tla (exhaustive dictionaries + export), spec/Trace_Output.tla (binding B),
      spec/MC_OutputReb.tla over the GENERATED module OutputReg (constructor keywords from inspect.signature,
      written dataset names observed in the files the components' write() produced).
Binding A: every exported dictionary is stored with HDF5Output.store_dictionary in a temporary file, read back
      with h5py and compared with the specification's tree; spectrum dictionaries of the three binners x three
      output sizes from a real model run; model write -> taurex_hdf5_to_model for a covering set of component
      combinations (types, constructor values observed by recorders, spectrum at 1e-12).
Binding B: random nested dictionaries (depth <= 3) stored by the real code, the file tree validated by TLC
      against Canon, exact grid relations validated on dyadic grids; canary.
"""
import itertools
import json
import os
import random
import shutil
import tempfile
from fractions import Fraction

import numpy as np

from ..core import Machinery, SPEC, run_tlc, validate_trace
from .. import fx_factory as FX


# ---------------------------------------------------------------------------- spec <-> python values
def to_py(v, rng=None):
    k = v['k']
    if k == 'int':
        x = int(v['n'])
        return np.int64(x) if rng and rng.random() < 0.3 else x
    if k == 'float':
        x = v['n'] / v['d']
        return np.float64(x) if rng and rng.random() < 0.3 else float(x)
    if k == 'bool':
        return bool(v['n'])
    if k == 'str':
        return v['v']
    if k == 'arr':
        dt = {'float': np.float64, 'int': np.int64, 'bool': np.bool_}[v['dt']]
        return np.array([d[0] / d[1] for d in v['data']], dtype=dt).reshape(tuple(v['shape']))
    if k in ('list', 'tuple'):
        items = [to_py(x, rng) for x in v['items']]
        return items if k == 'list' else tuple(items)
    if k == 'dict':
        return dict_py(v['items'], rng)
    raise Machinery('unknown value kind %r' % k)


def dict_py(items, rng=None):
    if isinstance(items, list):      # ToJson of the empty function
        return {}
    return {key: to_py(val, rng) for key, val in items.items()}


def fr(x):
    f = Fraction(float(x))
    if abs(f.numerator) >= 2 ** 30 or f.denominator >= 2 ** 30:
        raise Machinery('value %r is not exactly representable within TLC ints' % x)
    return [f.numerator, f.denominator]


def dt_of(dtype):
    return {'f': 'float', 'i': 'int', 'u': 'int', 'b': 'bool'}.get(dtype.kind, dtype.kind)


def read_tree(g):
    """The h5py view of a group as a specification file tree."""
    import h5py
    m = {}
    for name in g:
        it = g[name]
        if isinstance(it, h5py.Group):
            m[name] = read_tree(it)
            continue
        val = it[()]
        if it.dtype.kind in ('O', 'S') and it.shape == ():
            m[name] = dict(n='string', v=val.decode() if isinstance(val, bytes) else str(val))
        elif it.dtype.kind == 'S':
            if len(it.shape) != 2 or it.shape[1] != 1:
                m[name] = dict(n='strarr?', shape=list(it.shape))
            else:
                m[name] = dict(n='strarr', data=[x[0].decode() for x in val])
        elif it.shape == ():
            m[name] = dict(n='scalar', dt=dt_of(it.dtype), v=fr(val))
        else:
            m[name] = dict(n='array', dt=dt_of(it.dtype), shape=list(it.shape), data=[fr(x) for x in np.asarray(val).ravel()])
    return dict(n='group', m=m)


def norm_tree(t):
    """Specification tree from JSON (empty functions come as [])."""
    if t.get('n') == 'group':
        m = t['m'] if isinstance(t['m'], dict) else {}
        return dict(n='group', m={k: norm_tree(v) for k, v in m.items()})
    t = dict(t)
    if 'shape' in t:
        t['shape'] = list(t['shape'])
    if 'data' in t:
        t['data'] = [list(x) if isinstance(x, (list, tuple)) else x for x in t['data']]
    if 'v' in t and isinstance(t['v'], (list, tuple)):
        t['v'] = list(t['v'])
    return t


def store_and_read(pyd, path):
    import h5py
    from taurex.output.hdf5 import HDF5Output
    try:
        with HDF5Output(path) as o:
            o.store_dictionary(pyd, group_name='D')
    except Exception as ex:
        return dict(n='error', why=type(ex).__name__, msg=str(ex)[:160])
    with h5py.File(path, 'r') as f:
        return read_tree(f['D'])


def kinds_in(v, acc=None):
    acc = set() if acc is None else acc
    if isinstance(v, dict) and 'k' in v:
        if v['k'] in ('list', 'tuple'):
            sub = v['items']
            tag = v['k']
            if any(x['k'] == 'str' for x in sub):
                tag += '-str'
            elif any(x['k'] == 'dict' for x in sub):
                tag += '-dict'
            else:
                shapes = {json.dumps(shape_of(x)) for x in sub}
                tag += '-ragged' if len(shapes) > 1 or 'null' in shapes else ('-empty' if not sub else '-rect')
            acc.add(tag)
            for x in sub:
                kinds_in(x, acc)
        elif v['k'] == 'dict':
            acc.add('dict')
            items = v['items'] if isinstance(v['items'], dict) else {}
            for x in items.values():
                kinds_in(x, acc)
        else:
            acc.add(v['k'])
    return acc


def shape_of(v):
    if v['k'] in ('int', 'float', 'bool'):
        return []
    if v['k'] == 'arr':
        return list(v['shape'])
    if v['k'] in ('list', 'tuple'):
        s = [shape_of(x) for x in v['items']]
        if not s:
            return [0]
        if any(x is None for x in s) or any(x != s[0] for x in s):
            return None
        return [len(s)] + s[0]
    return None


def dict_cls(items):
    ks = set()
    for x in (items.values() if isinstance(items, dict) else []):
        kinds_in(x, ks)
    rag = sorted(k for k in ks if 'ragged' in k or 'dict' in k.split('-')[-1:] )
    return 'dict:' + ('+'.join(rag) if rag else 'plain')


# ---------------------------------------------------------------------------- binding A: exported dictionaries
def run_dict_vectors(ctx, vecs, tmp, rng):
    path = os.path.join(tmp, 'rt.h5')
    seen = set()
    n = 0
    for v in vecs:
        key = json.dumps(v['dict'], sort_keys=True)
        if key in seen:
            continue
        seen.add(key)
        n += 1
        pyd = dict_py(v['dict'], rng)
        got = store_and_read(pyd, path)
        want = norm_tree(v['tree'])
        ok = got == want
        ctx.verdict('RoundTrip', ok, cls=dict_cls(v['dict']),
                    detail='stored/reloaded tree %s differs from the documented flattening %s' % (json.dumps(got)[:300], json.dumps(want)[:300]),
                    vector=dict(dict=v['dict'], tree=v['tree']))
    return n


# ---------------------------------------------------------------------------- binding B: random dictionaries
def rand_value(rng, depth):
    r = rng.random()

    def num():
        if rng.random() < 0.5:
            return dict(k='int', n=rng.randint(-50, 50), d=1)
        f = Fraction(rng.randint(-99, 99), rng.choice([1, 2, 4, 8]))
        return dict(k='float', n=f.numerator, d=f.denominator)

    def arr(shape=None):
        shape = shape or [rng.randint(1, 4) for _ in range(rng.choice([1, 1, 2]))]
        size = int(np.prod(shape))
        dt = rng.choice(['float', 'int'])
        d = [[rng.randint(-20, 20), 1 if dt == 'int' else rng.choice([1, 2, 4])] for _ in range(size)]
        d = [list(map(int, (Fraction(a, b).numerator, Fraction(a, b).denominator))) for a, b in d]
        return dict(k='arr', dt=dt, shape=shape, data=d)

    word = lambda: ''.join(rng.choice('abcXYZ012-_ ') for _ in range(rng.randint(1, 12))).strip() or 'w'
    if depth > 0 and r < 0.22:
        return dict(k='dict', items={k: rand_value(rng, depth - 1) for k in rng.sample(['alpha', 'beta', 'gamma', 'k', 'Zz'], rng.randint(0, 3))})
    if r < 0.35:
        return num()
    if r < 0.42:
        return dict(k='bool', n=rng.randint(0, 1), d=1)
    if r < 0.52:
        return dict(k='str', v=word())
    if r < 0.64:
        return arr()
    kind = rng.choice(['list', 'list', 'tuple'])
    r2 = rng.random()
    if r2 < 0.25:
        items = [num() for _ in range(rng.randint(0, 4))]
    elif r2 < 0.4:
        items = [dict(k='str', v=word()) for _ in range(rng.randint(1, 4))]
    elif r2 < 0.55:
        shape = [rng.randint(1, 3)]
        items = [arr(shape) for _ in range(rng.randint(1, 3))]
    elif r2 < 0.7:
        items = [arr([rng.randint(1, 4)]) for _ in range(rng.randint(2, 3))]
    elif r2 < 0.85:
        items = [dict(k='list', items=[num() for _ in range(rng.randint(1, 3))]) for _ in range(rng.randint(1, 3))]
    else:
        items = [dict(k='dict', items={k: num() for k in rng.sample(['p', 'q', 'r'], rng.randint(1, 2))}) for _ in range(rng.randint(1, 2))]
    return dict(k=kind, items=items)


def run_dict_traces(ctx, n, tmp, rng):
    path = os.path.join(tmp, 'tr.h5')
    events = []
    while len(events) < n:
        items = {k: rand_value(rng, 2) for k in rng.sample(['a', 'b', 'c', 'spectrum', 'Tau'], rng.randint(1, 4))}
        got = store_and_read(dict_py(items, rng), path)
        events.append(dict(ev='dict', id=len(events), items=items, tree=got))
    return events


# ---------------------------------------------------------------------------- models
def opacities():
    from taurex.cache import OpacityCache
    from ..fixtures import GridOpacity
    OpacityCache().clear_cache()
    wn = np.linspace(400.0, 2000.0, 33)
    t = np.array([200.0, 1000.0, 2500.0])
    p = np.array([1e-1, 1e3, 1e6])
    rs = np.random.RandomState(11)
    for m in ('H2O', 'CH4'):
        OpacityCache().add_opacity(GridOpacity(m, wn, t, p, 1e-22 * (1 + rs.rand(3, 3, 33))))


NL = 30
TEMPS = {
    'Isothermal': dict(T=1234.0),
    'Guillot2010': dict(T_irr=1400.0, kappa_irr=0.02, kappa_v1=0.004, kappa_v2=0.006, alpha=0.4, T_int=800.0),
    'NPoint': dict(T_surface=1600.0, T_top=700.0, temperature_points=[1200.0], pressure_points=[1e3], smoothing_window=5, limit_slope=5000.0),
    'Rodgers2000': dict(temperature_layers=list(np.linspace(1500.0, 600.0, NL)), correlation_length=4.0),
}
GASES = {
    'ConstantGas': dict(mix_ratio=2e-4),
    'TwoLayerGas': dict(mix_ratio_surface=1e-3, mix_ratio_top=1e-6, mix_ratio_P=2e3, mix_ratio_smoothing=6),
    'TwoPointGas': dict(mix_ratio_surface=1e-3, mix_ratio_top=1e-6),
    'PowerGas': dict(profile_type='TiO', mix_ratio_surface=1e-4, alpha=1.5, beta=3e4, gamma=12.0),
    'PowerGas/auto': dict(),
}
MODELS = {
    'TransmissionModel': dict(), 'TransmissionModel/newpath': dict(new_path_method=True),
    'EmissionModel': dict(ngauss=3), 'DirectImageModel': dict(ngauss=3),
}
CONTRIBS = {
    'AbsorptionContribution': dict(), 'RayleighContribution': dict(), 'SimpleCloudsContribution': dict(clouds_pressure=2e3),
    'LeeMieContribution': dict(lee_mie_radius=0.05, lee_mie_q=30.0, lee_mie_mix_ratio=1e-9, lee_mie_bottomP=1e4, lee_mie_topP=1e2),
    'FlatMieContribution': dict(flat_mix_ratio=1e-9, flat_bottomP=1e4, flat_topP=1e2),
}
CONTRIB_SETS = [('AbsorptionContribution',), ('AbsorptionContribution', 'RayleighContribution'),
                ('AbsorptionContribution', 'SimpleCloudsContribution'), ('AbsorptionContribution', 'LeeMieContribution'),
                ('AbsorptionContribution', 'RayleighContribution', 'FlatMieContribution')]
PLANET = dict(planet_mass=1.3, planet_radius=0.9, planet_distance=0.05, impact_param=0.3, orbital_period=3.5, albedo=0.2, transit_time=4000.0)
STAR = dict(temperature=5500.0, radius=0.8, distance=12.0, magnitudeK=9.0, mass=0.9, metallicity=1.5)


def classes_by_name():
    from taurex.parameter.classfactory import ClassFactory
    cf = ClassFactory()
    out = {}
    for kind, attr in FX.KIND_ATTR.items():
        for k in getattr(cf, attr):
            out[k.__name__] = (kind, k)
    return out


def build_model(combo, classes):
    def K(name):
        base = name.split('/')[0]
        if base not in classes:
            raise KeyError(base)
        return classes[base][1]
    chem = K('TaurexChemistry')(fill_gases=['H2', 'He'], ratio=0.2, base_metallicty=0.02)
    m1, m2 = ('CH4', 'H2O') if combo['gas2'] == 'PowerGas/auto' else ('H2O', 'CH4')   # 'auto' coefficients exist for H2O only
    chem.addGas(K(combo['gas1'])(molecule_name=m1, **GASES[combo['gas1']]))
    chem.addGas(K(combo['gas2'])(molecule_name=m2, **GASES[combo['gas2']]))
    chem.addGas(K('ConstantGas')(molecule_name='N2', mix_ratio=3e-3))      # no opacity registered: an *inactive* gas
    temp = K(combo['temp'])(**TEMPS[combo['temp']])
    press = K('SimplePressureProfile')(nlayers=NL, atm_min_pressure=1e-1, atm_max_pressure=1e6)
    model = K(combo['model'])(planet=K('Planet')(**PLANET), star=K('BlackbodyStar')(**STAR), chemistry=chem,
                              temperature_profile=temp, pressure_profile=press, **MODELS[combo['model']])
    for c in combo['contribs']:
        model.add_contribution(K(c)(**CONTRIBS[c]))
    model.build()
    return model


def component_ids(model):
    objs = [model, model._chemistry, model._temperature_profile, model._pressure_profile, model._planet, model._star]
    objs += list(getattr(model._chemistry, '_gases', [])) + list(model.contribution_list)
    return {id(o) for o in objs if o is not None}


def rec_summary(rec, classes, ids):
    """Recorded constructor calls of the model's own components -> {class name[:molecule]: kwargs}."""
    out = {}
    for cname, kw, tname, oid in rec:
        if cname != tname or oid not in ids or cname not in classes:
            continue
        tag = cname + (':' + str(kw.get('molecule_name')) if classes[cname][0] == 'gas' else '')
        out[tag] = {k: v for k, v in kw.items() if k not in ('planet', 'star', 'chemistry', 'temperature_profile', 'pressure_profile')
                    and not (classes[cname][0] == 'model' and k in ('nlayers', 'atm_min_pressure', 'atm_max_pressure'))}
    return out


def same_value(a, b):
    if a is None or b is None:
        return a is None and b is None
    if isinstance(a, (bytes, str)) or isinstance(b, (bytes, str)):
        return str(a) == str(b)
    try:
        x, y = np.asarray(a), np.asarray(b)
        if x.dtype.kind in 'OSU' or y.dtype.kind in 'OSU':
            return [str(i) for i in x.ravel()] == [str(i) for i in y.ravel()]
        x, y = np.atleast_1d(x).astype(float).ravel(), np.atleast_1d(y).astype(float).ravel()
        return x.shape == y.shape and np.allclose(x, y, rtol=1e-12, atol=0)
    except Exception:
        return False


def h5_component_keys(path):
    """Dataset names per component group of ModelParameters -> {class name: set(names)}."""
    import h5py
    out = {}

    def dsets(g):
        return {k for k in g if not isinstance(g[k], h5py.Group)}
    with h5py.File(path, 'r') as f:
        mp = f['ModelParameters']
        out[mp['model_type'][()].decode()] = dsets(mp)
        for grp, ident in (('Temperature', 'temperature_type'), ('Pressure', 'pressure_type'), ('Planet', 'planet_type'),
                           ('Star', 'star_type'), ('Chemistry', 'chemistry_type')):
            out[mp[grp][ident][()].decode()] = dsets(mp[grp])
        for mol in mp['Chemistry']:
            it = mp['Chemistry'][mol]
            if isinstance(it, h5py.Group) and 'gas_type' in it:
                out.setdefault(it['gas_type'][()].decode(), set()).update(dsets(it))
        for c in mp['Contributions']:
            out[c] = dsets(mp['Contributions'][c])
    return out


def run_model_roundtrips(ctx, combos, tmp, classes):
    from taurex.output.hdf5 import HDF5Output
    from taurex.util.hdf5 import taurex_hdf5_to_model
    written = {}
    for n, combo in enumerate(combos):
        tag = '%s|%s|%s+%s|%s' % (combo['model'], combo['temp'], combo['gas1'], combo['gas2'], '+'.join(c[:-12] for c in combo['contribs']))
        vec = dict(combo)
        path = os.path.join(tmp, 'model%d.h5' % n)
        del FX._REC[:]
        try:
            model = build_model(combo, classes)
        except KeyError as ex:
            ctx.verdict('ModelBuilds', False, cls='class:%s' % ex.args[0], detail='component class %s is not discoverable' % ex.args[0], vector=vec)
            continue
        built = rec_summary(list(FX._REC), classes, component_ids(model))
        wn, spec = model.model()[:2]
        try:
            with HDF5Output(path) as o:
                model.write(o)
        except Exception as ex:
            who = [g for g in (combo['gas1'], combo['gas2']) if g == 'PowerGas/auto']
            ctx.verdict('ModelWrites', False, cls='write:%s' % (who[0] if who else combo['temp']),
                        detail='model.write raised %s: %s  (%s)' % (type(ex).__name__, ex, tag), vector=vec)
            continue
        ctx.verdict('ModelWrites', True, cls='write', vector=vec)
        for cname, names in h5_component_keys(path).items():
            written.setdefault(cname, set()).update(names)
        del FX._REC[:]
        try:
            again = taurex_hdf5_to_model(path)
            again.build()
            wn2, spec2 = again.model()[:2]
        except Exception as ex:
            ctx.verdict('ModelReloads', False, cls='reload:%s' % tag.split('|')[1], detail='taurex_hdf5_to_model raised %s: %s (%s)' % (type(ex).__name__, ex, tag), vector=vec)
            continue
        reloaded = rec_summary(list(FX._REC), classes, component_ids(again))
        ctx.verdict('SameTypes', sorted(built) == sorted(reloaded) and
                    sorted(type(c).__name__ for c in model.contribution_list) == sorted(type(c).__name__ for c in again.contribution_list),
                    cls='types', detail='built %s, reloaded %s' % (sorted(built), sorted(reloaded)), vector=vec)
        lost_here = set()
        for comp, kw in built.items():
            for k, v in kw.items():
                if comp not in reloaded:
                    continue
                w = reloaded[comp].get(k)
                if (comp.split(':')[0], k) in (('NPoint', 'P_surface'), ('NPoint', 'P_top')) and v is None:
                    ok = w is None or float(w) < 0          # documented: "Set to -1 for BOA / TOA" == unset
                elif comp.startswith('PowerGas') and k == 'profile_type' and v == 'auto':
                    ok = str(w) in ('auto', str(kw.get('molecule_name')))   # documented: 'auto' = profile of molecule_name
                elif comp == 'Rodgers2000' and k == 'covariance_matrix' and v is None:
                    continue                                  # the derived default matrix is stored explicitly
                else:
                    ok = same_value(v, w)
                if not ok:
                    lost_here.add('%s:%s' % (comp.split(':')[0], k))
                ctx.verdict('SameValues', ok, cls='%s:%s' % (comp.split(':')[0], k),
                            detail='%s.%s was %r, after write/rebuild %r' % (comp, k, v, reloaded[comp].get(k)), vector=vec)
        same = spec.shape == spec2.shape and np.array_equal(wn, wn2) and np.allclose(spec, spec2, rtol=1e-12, atol=0)
        # a spectrum difference is attributed to the constructor values that did not survive (named in the class)
        ctx.verdict('SameSpectrum', same, cls='spectrum:' + ('+'.join(sorted(lost_here)) if lost_here else 'all-values-kept'),
                    detail='spectrum after write/rebuild differs: max rel %.3g (%s)' % (
                        float(np.max(np.abs(spec2 / spec - 1))) if spec.shape == spec2.shape else -1, tag), vector=vec)
        os.unlink(path)
    return written


def gen_output_reg(classes, written):
    import inspect
    rows = []
    for cname in sorted(written):
        if cname not in classes:
            continue
        kind, k = classes[cname]
        names, _ = FX._params(k.__init__)
        supplied = []
        if cname == 'Planet':
            supplied = ['planet_sma']        # documented alias of planet_distance
        if cname == 'Rodgers2000':
            supplied = []
        if kind == 'model':
            supplied = ['planet', 'star', 'chemistry', 'temperature_profile', 'pressure_profile', 'nlayers', 'atm_min_pressure', 'atm_max_pressure']
        rows.append('[name |-> %s, params |-> %s, written |-> %s, supplied |-> %s]' % (
            FX.tla_str(cname), FX.tla_set(FX.tla_str(x) for x in names), FX.tla_set(FX.tla_str(x) for x in sorted(written[cname])),
            FX.tla_set(FX.tla_str(x) for x in supplied)))
    return ('----------------------------- MODULE OutputReg -----------------------------\n'
            '\\* GENERATED by harness/drivers/C16.py: constructor keywords (inspect.signature) and the dataset names\n'
            '\\* found in the ModelParameters groups that the components\' write() methods produced.\n'
            'MCComponents == {\n  ' + ',\n  '.join(rows) + '}\n'
            '=============================================================================\n')


def make_spec_dir(text):
    d = tempfile.mkdtemp(prefix='c16spec_')
    for f in os.listdir(SPEC):
        if f.endswith(('.tla', '.cfg')) and f != 'OutputReg.tla':
            os.symlink(os.path.join(SPEC, f), os.path.join(d, f))
    with open(os.path.join(d, 'OutputReg.tla'), 'w') as f:
        f.write(text)
    return d


# ---------------------------------------------------------------------------- spectrum output
def run_spectrum_outputs(ctx, keytable, tmp, classes):
    import h5py
    from taurex import OutputSize
    from taurex.binning import FluxBinner, SimpleBinner, NativeBinner
    from taurex.output.hdf5 import HDF5Output
    model = build_model(dict(model='TransmissionModel', temp='Isothermal', gas1='ConstantGas', gas2='ConstantGas',
                             contribs=('AbsorptionContribution', 'RayleighContribution')), classes)
    result = model.model()
    events = []
    grids = {'uniform': np.linspace(500.0, 1900.0, 8), 'unsorted-nonuniform': np.array([1500.0, 600.0, 900.0, 1200.0, 1850.0, 700.0])}
    dy_wn = np.array([625.0, 1250.0, 2500.0, 5000.0])       # 10000/wn and 10000*w/wn^2 are exact in binary floating point
    dy_w = dy_wn / 4.0
    sizes = dict(heavy=OutputSize.heavy, light=OutputSize.light, lighter=OutputSize.lighter)
    want_keys = {(r['binner'], r['size']): set(r['keys']) for r in keytable}
    path = os.path.join(tmp, 'spec.h5')
    for bname in ('native', 'simple', 'flux'):
        for gname, grid in list(grids.items()) + [('dyadic', dy_wn)]:
            if bname == 'native' and gname != 'uniform':
                continue
            widths = dy_w if gname == 'dyadic' else None
            if bname == 'native':
                binner = NativeBinner()
            elif bname == 'simple':
                binner = SimpleBinner(np.sort(grid), widths)      # SimpleBinner expects an ascending grid
            else:
                binner = FluxBinner(grid, widths)
            for sname, size in sizes.items():
                cls = '%s:%s:%s' % (bname, sname, gname)
                out = binner.generate_spectrum_output(result, output_size=size)
                with HDF5Output(path) as o:
                    o.store_dictionary(out, group_name='Spectra')
                with h5py.File(path, 'r') as f:
                    g = {k: f['Spectra'][k][...] for k in f['Spectra']}
                vec = dict(binner=bname, size=sname, grid=gname)
                ctx.verdict('SpectrumKeys', set(g) == want_keys[(bname, sname)], cls=cls,
                            detail='stored keys %s, specification %s' % (sorted(g), sorted(want_keys[(bname, sname)])), vector=vec)
                ok = np.array_equal(g['native_wlgrid'], 10000.0 / g['native_wngrid']) and np.array_equal(g['native_spectrum'], result[1])
                ctx.verdict('NativeGrid', ok, cls=cls, detail='native_wlgrid != 10000/native_wngrid or native spectrum altered', vector=vec)
                if bname == 'native':
                    continue
                wn_, w_ = g['binned_wngrid'], g['binned_wnwidth']
                ctx.verdict('BinnedWlGrid', np.allclose(g['binned_wlgrid'], 10000.0 / wn_, rtol=1e-14, atol=0), cls=cls,
                            detail='binned_wlgrid %s != 10000/binned_wngrid' % g['binned_wlgrid'][:3], vector=vec)
                exp = 10000.0 * w_ / wn_ ** 2
                ctx.verdict('BinnedWlWidth', g['binned_wlwidth'].shape == exp.shape and np.allclose(g['binned_wlwidth'], exp, rtol=1e-12, atol=0), cls=cls,
                            detail='binned_wlwidth %s, wavenumber widths converted at the bin centre %s' % (g['binned_wlwidth'][:3], exp[:3]), vector=vec)
                again = binner.bindown(g['native_wngrid'], g['native_spectrum'])[1]
                ctx.verdict('BinnedSpectrum', np.array_equal(g['binned_spectrum'], again, equal_nan=True), cls=cls,
                            detail='binned_spectrum is not the binner applied to the stored native spectrum', vector=vec)
                if 'binned_tau' in g and 'native_tau' in g:
                    ctx.verdict('BinnedTau', np.array_equal(g['binned_tau'], binner.bindown(g['native_wngrid'], g['native_tau'])[1], equal_nan=True), cls=cls,
                                detail='binned_tau is not the binner applied to native_tau', vector=vec)
                if gname == 'dyadic' and sname == 'heavy':
                    for i in range(len(wn_)):
                        try:
                            events.append(dict(ev='grid', id='%s:%d' % (bname, i), wn=fr(wn_[i]), w=fr(w_[i]), wl=fr(g['binned_wlgrid'][i]), wlw=fr(g['binned_wlwidth'][i])))
                        except Machinery:
                            # the exact values 10000/wn and 10000 w/wn^2 are dyadic on this grid; a stored value that is not is wrong
                            ctx.verdict('GridRelationsExact', False, cls='%s:dyadic' % bname, vector=vec,
                                        detail='bin %d: wn=%r w=%r stored wl=%r wlwidth=%r' % (i, wn_[i], w_[i], g['binned_wlgrid'][i], g['binned_wlwidth'][i]))
    return events


# ---------------------------------------------------------------------------- main
def run(ctx):
    q = ctx.tier == 'quick'
    rng = random.Random(ctx.seed * 7907 + 16)
    ctx.bounds = dict(tier=ctx.tier, dictionaries='all dictionaries over 22 leaf values (every value kind; rectangular, ragged, string, dict-valued '
                      'sequences), ' + ('2 top-level keys, depth 2' if q else '3 top-level keys, depth 2; export: depth 3'),
                      random_dictionaries=400 if q else 4000, model_roundtrips=14 if q else 80,
                      spectrum_outputs='3 binners x 3 output sizes x (uniform, unsorted non-uniform, dyadic) grids')
    ctx.assumptions = ['h5py reads back what HDF5Output wrote (Load = the h5py view)', 'names are ASCII <= 64 characters without "/" and no key is another key followed by digits',
                       'constructor arguments are observed by signature-preserving wrappers installed from outside the repository',
                       'TLC + CommunityModules Json/IOUtils']
    tmp = tempfile.mkdtemp(prefix='c16_')
    sd = None
    try:
        # 1. design level
        r = ctx.check_spec('exhaustive', 'MC_Output', 'MC_Output_%s.cfg' % ctx.tier)
        ctx.exhaustive = True
        keytable = r.tagged('KEYS')[0]
        ctx.expect_refuted('numpy2-valueerror-not-caught', 'MC_Output', 'MC_Output_numpy2.cfg', 'RoundTrip')
        # 2. binding A: exported dictionaries through HDF5Output / h5py
        ex = run_tlc('MC_Output', 'EX_Output_%s.cfg' % ctx.tier, workers=1)
        ctx.add_tlc('export', ex, counts=False)
        vecs = ex.tagged('VEC')
        if not vecs:
            raise Machinery('no dictionary exported')
        if not q:
            pass
        n = run_dict_vectors(ctx, vecs, tmp, rng)
        ctx.note('%d exported dictionaries stored and reloaded' % n)
        ctx.add_sample(dict(dictionary=vecs[len(vecs) // 3]['dict']))
        # 3. spectrum outputs
        for kind, k in classes_by_name().values():
            FX._wrap_init(k)
        classes = classes_by_name()
        opacities()
        grid_events = run_spectrum_outputs(ctx, keytable, tmp, classes)
        # 4. binding B: random dictionaries + exact grid relations, validated by TLC
        events = run_dict_traces(ctx, 400 if q else 4000, tmp, rng) + grid_events
        for i, e in enumerate(events):
            e['l'] = i
        accepted, bad, res = validate_trace('Trace_Output', 'Trace_Output.cfg', events)
        ctx.add_tlc('trace', res, counts=False)
        if res.postcondition_false and not bad:
            raise Machinery('trace spec did not consume the whole trace:\n' + res.out[-1500:])
        badl = {b['l'] for b in bad}
        ctx.traces += len(events)
        for e in events:
            if e['ev'] == 'dict':
                ctx.verdict('RoundTrip', e['l'] not in badl, cls='trace:' + dict_cls(e['items']),
                            detail='TLC rejected the reloaded tree %s' % json.dumps(e['tree'])[:300], vector=dict(trace=True, items=e['items']))
            else:
                ctx.verdict('GridRelationsExact', e['l'] not in badl, cls='flux:dyadic' if e['id'].startswith('flux') else 'simple:dyadic',
                            detail='bin %s: wn=%s w=%s stored wl=%s wlwidth=%s' % (e['id'], e['wn'], e['w'], e['wl'], e['wlw']), vector=dict(trace=True, grid=e))
        good = [e for e in events if e['ev'] == 'dict' and e['l'] not in badl and e['tree'].get('n') == 'group' and e['tree']['m']]
        if not good:
            raise Machinery('no accepted event for the canary')
        c = json.loads(json.dumps(good[len(good) // 2]))
        name = sorted(c['tree']['m'])[0]
        c['tree']['m'][name + 'x'] = c['tree']['m'].pop(name)
        c['l'] = 0
        ok2, bad2, _ = validate_trace('Trace_Output', 'Trace_Output.cfg', [c])
        if ok2 or not bad2:
            raise Machinery('canary accepted: trace validation is vacuous')
        # 5. model write -> rebuild
        gases = ['ConstantGas', 'TwoLayerGas', 'TwoPointGas', 'PowerGas', 'PowerGas/auto']
        allc = [dict(model=m, temp=t, gas1=g1, gas2=g2, contribs=cs) for m in MODELS for t in TEMPS for g1 in gases for g2 in gases
                for cs in CONTRIB_SETS if g1 <= g2 and not (g1 == g2 == 'PowerGas/auto')]
        rng.shuffle(allc)
        chosen, pairs = [], set()
        want = 14 if q else 80
        for c in allc:        # greedy pairwise cover, then fill up
            feats = [('m', c['model']), ('t', c['temp']), ('g', c['gas1']), ('g', c['gas2']), ('c', c['contribs'])]
            ps = {frozenset(p) for p in itertools.combinations(feats, 2)} | {frozenset([f]) for f in feats}
            if not ps <= pairs and (len(chosen) < want):
                chosen.append(c)
                pairs |= ps
        singles = {f for p in pairs if len(p) == 1 for f in p}
        for c in allc:
            feats = {('m', c['model']), ('t', c['temp']), ('g', c['gas1']), ('g', c['gas2']), ('c', c['contribs'])}
            if not feats <= singles:
                chosen.append(c)
                singles |= feats
        written = run_model_roundtrips(ctx, chosen, tmp, classes)
        ctx.note('%d models written and rebuilt' % len(chosen))
        # 6. ModelFile / Rebuild: constructor keywords that no write() stores
        sd = make_spec_dir(gen_output_reg(classes, written))
        rb = run_tlc('MC_OutputReb', 'MC_OutputReb.cfg', spec_dir=sd, workers=1)
        ctx.add_tlc('rebuild-table', rb, counts=False)
        rows = rb.tagged('REB')
        if not rows:
            raise Machinery('no REB table')
        for row in sorted(rows[0], key=lambda x: x['name']):
            lost = sorted(row['lost'])
            if not lost:
                ctx.verdict('WriteCoversCtor', True, cls=row['name'], vector=row)
            for k in lost:
                ctx.verdict('WriteCoversCtor', False, cls='%s:%s' % (row['name'], k),
                            detail='constructor keyword %s of %s is not written by write(): a rebuilt model takes the default' % (k, row['name']), vector=dict(row, key=k))
    finally:
        shutil.rmtree(tmp, ignore_errors=True)
        if sd:
            shutil.rmtree(sd, ignore_errors=True)
        try:
            from taurex.cache import OpacityCache
            OpacityCache().clear_cache()
        except Exception:
            pass


def replay(ctx, violations):
    tmp = tempfile.mkdtemp(prefix='c16r_')
    rng = random.Random(0)
    try:
        for kind, k in classes_by_name().values():
            FX._wrap_init(k)
        classes = classes_by_name()
        opacities()
        done_spec = False
        for viol in violations:
            v = viol['vector'] or {}
            if 'dict' in v and 'tree' in v:
                run_dict_vectors(ctx, [v], tmp, None)
            elif v.get('trace') and 'items' in v:
                got = store_and_read(dict_py(v['items'], None), os.path.join(tmp, 'r.h5'))
                ok, bad, _ = validate_trace('Trace_Output', 'Trace_Output.cfg', [dict(ev='dict', id=0, l=0, items=v['items'], tree=got)])
                ctx.verdict('RoundTrip', not bad, cls=viol['cls'], detail='reloaded tree %s' % json.dumps(got)[:300], vector=v)
            elif 'model' in v and 'temp' in v:
                v['contribs'] = tuple(v['contribs'])
                run_model_roundtrips(ctx, [v], tmp, classes)
            elif not done_spec:
                done_spec = True
                r = run_tlc('MC_Output', 'MC_Output_numpy2.cfg', workers=1, allow_violation=True)
                run_spectrum_outputs(ctx, r.tagged('KEYS')[0], tmp, classes)
    finally:
        shutil.rmtree(tmp, ignore_errors=True)
