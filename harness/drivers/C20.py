"""C20 -- correlated-k reduces to cross-sections when the k-distribution is degenerate.

Spec: spec/KTable.tla (extends Emission / Dyad), spec/MC_KTable.tla (+cfgs), spec/Trace_KTable.tla.
Binding A: TLC-exported (k[l][w][g] in ln 2 units, rational weights, a second cross-section-like
      contribution, temperature indices, quadrature, chord multipliers; exact slant-path transmittances
      and exact emission intensities) replayed into the real code: pickle k-table files written into a
      temporary ktable_path and loaded by KTableCache / PickleKTable, AbsorptionContribution.contribute
      (transmission kernel), EmissionModel.partial_model() in k-table mode; for degenerate vectors the
      same numbers as cross-sections (GridOpacity fixture) through EmissionModel and TransmissionModel
      in cross-section mode must give the same spectra.
Binding B: random tables / weights / atmospheres through both modes; every event validated by TLC
      (unit interval, Jensen bound against the weight-averaged coefficient, exact weighted average on
      integer paths, degenerate equality, hot/cold bounds in k-table mode) + canary.
Binding C (histories): spec/KTableHistory.tla (design + mutants: memo keyed on size / first point / without (T,P),
      opacity mode latched at construction) and spec/Functional.tla walks (harness/history.py) replayed on
      long-lived table objects and long-lived models of both families (harness/fx_c20hist.py): requested grid
      (full, equal lengths at different positions, same start, same ends, between / beyond native points),
      temperature / pressure, mixing ratios, T parameter, opacity mode switch, table directory; every
      evaluation equals a fresh object's AND is paired with its cross-section twin (`twin` events of
      Trace_KTable.tla: equality for degenerate tables, Jensen bound for generic tables) + canaries.
Configuration dimension (KTableHistory.tla: interp x route x extra, (T, P) position classes; mutants: one family's
      container drops the scheme it is constructed with / ignores the in-place setter): the twin relation is stated
      UNDER a configuration applied identically to both twins.  EX_KTableHistory_cfg.cfg exports the alphabet, realised
      by harness/fx_c20cfg.py on table objects and forward models of both families built from pickle AND HDF5 files
      through the caches (clause twin_under_configuration, events validated by TLC); history scenarios with a
      `config` setting change it between evaluations of long-lived objects.
Contribution-list dimension (KTableHistory.tla: clist over CLists, PathRead mutants "k-overwrites", "last-continuum",
      "stops-at-k" refuted, ListBlind / OrderFree hold): WHAT ELSE absorbs next to the tabulated molecule and in which
      order the model holds its contributions.  The exported alphabet (tag LST: continuum terms before / after the
      molecular one, two or more of them) is realised (a) with real Rayleigh / flat-Mie / CIA contributions in twin
      pairs of both families (clause twin_under_contributions, fx_c20hist.ListSweep) and in history scenarios with a
      `contribs` setting, and (b) in the exact vectors of KTable.tla: the exported second contribution c is the SUM of
      two LayerContribution objects placed around the absorption in the order the vector's list says; the kernel is
      called on a path that already holds optical depth and must leave every other row of the array untouched.
Loading part (spec/KTableLoad.tla, MC_KTableLoad.tla; harness/fx_c20load.py): container format {pickle, HDF5, NEMESIS .kta} x weight
      symmetry under g -> n+1-g (dyadic weights, symmetric and NOT symmetric) x coefficient profile across g (equal, rising, falling,
      unordered; two wavenumbers with different profiles) x path length.  PairingIsTheFiles: the transmittance computed from what a
      reader hands over is the file's weight-averaged exponential (exact rationals); the variant "quadrature axis of the coefficients
      reversed, weights as stored" is refuted, and shown to be invisible with symmetric weights or degenerate tables.  Every exported
      table is written in its format, loaded by KTableCache from ktable_path and pushed through the real kernel contribute_ktau:
      exact value (1e-12; 5e-8 for the float32 NEMESIS container, derived in fx_c20load.py), unit interval, Jensen bound.
"""
import math
import os
import random
import re
from fractions import Fraction

import numpy as np

from ..core import Machinery, frac, close, validate_trace, run_tlc
from .. import fx_emission as fx
from .. import fx_c20hist as fh
from .. import fx_c20cfg as fc
from .. import fx_c20load
from ..fixtures import GridOpacity

WN = [800.0, 2500.0]
TK = {1: 600.0, 2: 1100.0, 3: 1700.0}
STAR_T = 5000.0
REL = 1e-9
EXP_M10 = math.exp(-10.0)
MOL = 'H2O'


def bcols(wn):
    return [dict((t, fx.planck_b(w, TK[t])) for t in TK) for w in wn]


class Twin:
    """For one temperature profile: emission + transmission models in k-table mode (pickle file in a
    temporary directory) and in cross-section mode (GridOpacity on the same grid), sharing geometry."""

    def __init__(self, tmpdir, temps, wn, ngauss_k, *, with_grey=True, kw=None, premade=True, order=('k', 'g1')):
        from taurex.contributions import AbsorptionContribution
        self.dir = tmpdir
        self.wn = list(wn)
        self.temps = list(temps)
        self.ng = ngauss_k
        kw = dict(kw or {})
        n = len(temps)
        fx.reset_all()
        # cross-section side first: gives the documented layer geometry (deltaz, density, mixing ratio)
        press0 = np.array([1.0, 2.0])
        self.xop = GridOpacity(MOL, self.wn, [50.0, 20000.0], press0, np.zeros((2, 2, len(wn))))
        # contribution objects for the k-table models are created while the mode is 'xsec' on purpose:
        # the mode must be read when the model is evaluated, not when the contribution is constructed
        pre = [AbsorptionContribution(), AbsorptionContribution()] if premade else [None, None]
        self.xe = fx.Atmos('emission', temps, wn, star_T=STAR_T, with_grey=with_grey, opacity=self.xop, **kw)
        self.xt = fx.Atmos('transmission', temps, wn, star_T=STAR_T, with_grey=False, register=False, **kw)
        self.press = np.asarray(self.xe.model.pressureProfile, dtype=float)
        self.cu = self.xe.column_unit()
        self.mix = self.xe.mixprof
        self.write_tables(np.zeros((n, len(wn), ngauss_k)), [1.0 / ngauss_k] * ngauss_k)
        fx.set_mode('ktables', self.dir)
        self.ke = fx.Atmos('emission', temps, wn, star_T=STAR_T, with_grey=with_grey, register=False,
                           absorption=pre[0], **kw)
        self.kt = fx.Atmos('transmission', temps, wn, star_T=STAR_T, with_grey=False, register=False,
                           absorption=pre[1], **kw)
        fx.set_mode('xsec')
        self.order = tuple(order)
        if with_grey and self.order != ('k', 'g1'):
            for a in (self.xe, self.ke):
                arrange(a, self.order)

    def write_tables(self, sigma, weights, xsec_sigma=None):
        """sigma[l][w][g] in m^2 (after mixing ratio): pickle k-table + the cross-section twin
        (xsec_sigma[l][w], default: the first quadrature point)."""
        sigma = np.asarray(sigma, dtype=float)
        pg, tg, k = fx.ktable_arrays(self.press, sigma, sigma.shape[2])
        fx.write_pickle_ktable(self.dir, MOL, self.wn, tg, pg, k, weights)
        xs = sigma[:, :, 0] if xsec_sigma is None else np.asarray(xsec_sigma, dtype=float)
        _, _, kx = fx.ktable_arrays(self.press, xs[:, :, None], 1)
        self.xop._p = pg
        self.xop._t = tg
        self.xop._x = kx[:, :, :, 0]

    def sigma_from_ln2(self, kk):
        """kk[l][w][g] vertical optical depth in ln 2 units -> m^2 using the documented layer column."""
        kk = np.asarray(kk, dtype=float)
        return kk * fx.LN2 / (self.cu * self.mix)[:, None, None]

    def set_grey(self, c):
        """c[l][w] (ln 2 units) is the SUM of the continuum contributions the model holds: one contribution carries
        all of it, or two carry a quarter and three quarters (exact in binary floating point)"""
        for a in (self.xe, self.ke):
            if a.grey is not None:
                g2 = getattr(a, 'grey2', None)
                if g2 is None:
                    a.set_grey_tau(c)
                else:
                    c = np.asarray(c, dtype=float)
                    a.set_grey_tau(0.25 * c)
                    g1 = a.grey
                    a.grey = g2
                    try:
                        a.set_grey_tau(0.75 * c)
                    finally:
                        a.grey = g1

    def k_mode(self):
        fx.set_mode('ktables', self.dir)

    def x_mode(self):
        fx.set_mode('xsec')



def arrange(atmos, order):
    """the model of `atmos` holds its contributions in the given order ('k': the absorption, 'g1', 'g2': two
    cross-section-like contributions with a given sigma[layer, wn]), added one by one and built again"""
    m = atmos.model
    parts = {'k': atmos.absorption, 'g1': atmos.grey}
    if 'g2' in order:
        base = fx.layer_contribution_class()

        class LayerContribution2(base):
            pass
        atmos.grey2 = LayerContribution2('LayerGrey2')
        atmos.grey2.table = np.zeros((atmos.n, len(atmos.wn)))
        parts['g2'] = atmos.grey2
    m.contribution_list = []
    for key in order:
        m.add_contribution(parts[key])
    m.build()
    if [c for c in m.contribution_list] != [parts[key] for key in order]:
        raise Machinery('the model does not hold its contributions in the order %r' % (order,))


PREFILL = 0.375          # optical depth the path already holds when the kernel is called (exact in binary)


def code_raised(ctx, ex, cls, vec):
    """An exception raised by the code under test on a valid configuration is a violation (clause
    evaluates_without_error); an exception raised inside the harness is re-raised (machinery)."""
    import traceback
    if isinstance(ex, Machinery):
        raise ex
    tb = traceback.extract_tb(ex.__traceback__)
    if '/harness/' in tb[-1].filename:
        raise ex
    ctx.verdict('evaluates_without_error', False, cls=cls,
                detail='%s: %s at %s:%s' % (type(ex).__name__, ex, os.path.basename(tb[-1].filename), tb[-1].name), vector=vec)


def cls_of(v):
    return '%s:%s:ng%d:n%d' % ('degenerate' if v['degenerate'] else 'generic', 'sat' if v['saturated'] else 'unsat',
                               v['ng'], len(v['kk']))


def check_vector(ctx, tw, v):
    nw = len(tw.wn)
    n = len(v['kk'])
    cls = cls_of(v)
    wts = [float(frac(x)) for x in v['wts']]
    bc = bcols(tw.wn)
    tw.write_tables(tw.sigma_from_ln2(v['kk']), wts)
    tw.set_grey(v['c'])
    # ---- emission, k-table mode, against the exact layered integral
    tw.k_mode()
    mu_raw, w_raw = fx.raw_quadrature(v['quad'])
    tw.ke.model.set_quadratures(mu_raw, w_raw)
    Ik, imu, w, _ = tw.ke.model.partial_model()
    _, Fk, _, _ = tw.ke.model.model()
    topc = 'top_layer' if any(x != 0 for x in np.ravel(v['kk'][-1])) or any(x != 0 for x in v['c'][-1]) else 'top_clear'
    for a in range(len(v['quad'])):
        for wi in range(nw):
            exp, _ = fx.bsum_float(v['kint'][a][wi], bc[wi])
            got = float(Ik[a][wi])
            ctx.verdict('emission_ktable_formula', abs(got - exp) <= REL * abs(exp), cls='emission:%s:%s' % (cls, topc),
                        detail='1/mu=%s wn=%s got %r expected %r' % (v['quad'][a][0], tw.wn[wi], got, exp),
                        vector=dict(v, what='kint', a=a, w=wi))
            lo, hi = bc[wi][v['tmin']], bc[wi][v['tmax']]
            ctx.verdict('emission_ktable_bounds', lo * (1 - 1e-12) <= got <= hi * (1 + 1e-12), cls='emission:%s:%s' % (cls, topc),
                        detail='got %r not in [%r, %r]' % (got, lo, hi), vector=dict(v, what='kint', a=a, w=wi))
    # ---- transmission kernel on integer chords: the contributions of the model, in the order the model holds them, each
    # ADD to the row of the tangent layer, which already holds PREFILL; every other row of the array stays as it was
    for j in range(n):
        tau = np.zeros((n, nw))
        tau[:, :] = 3.0 + np.arange(n)[:, None] + 0.125 * np.arange(nw)[None, :]
        tau[j, :] = PREFILL
        before = tau.copy()
        path = np.array(v['ltab'][j], dtype=float)
        cu = np.array(tw.cu, dtype=float)
        for contrib in tw.ke.model.contribution_list:
            contrib.contribute(tw.ke.model, 0, n - j, j, j, cu, tau, path_length=path)
        rest = np.delete(np.arange(n), j)
        kept = np.array_equal(tau[rest], before[rest]) and np.array_equal(cu, np.asarray(tw.cu, dtype=float)) \
            and np.array_equal(path, np.array(v['ltab'][j], dtype=float))
        for wi in range(nw):
            exp = float(fx.dyad_value(v['ktr'][j][wi]))
            got = math.exp(-(tau[j, wi] - PREFILL))
            ok = abs(got - exp) <= REL * max(exp, 1e-30) and 0.0 <= got <= 1.0 + 1e-12 and kept
            ctx.verdict('weighted_transmittance', ok, cls='transmission:' + cls,
                        detail='tangent layer %d wn=%s contributions %s on a path holding %s: got %r expected %r%s'
                               % (j, tw.wn[wi], '+'.join(tw.order), PREFILL, got, exp,
                                  '' if kept else '; other rows of tau / the density or path arguments were modified'),
                        vector=dict(v, what='ktr', j=j, w=wi))
    # ---- degenerate: the same numbers as cross-sections through the real models
    if v['degenerate']:
        tw.x_mode()
        tw.xe.model.set_quadratures(mu_raw, w_raw)
        Ix, _, _, _ = tw.xe.model.partial_model()
        _, Fx, _, _ = tw.xe.model.model()
        hot = [bc[wi][v['tmax']] for wi in range(nw)]
        for wi in range(nw):
            # licensed: the cross-section branch zeroes transmittances below exp(-10) once the column saturates
            slack = n * hot[wi] * EXP_M10 if v['saturated'] else 0.0
            for a in range(len(v['quad'])):
                gk, gx = float(Ik[a][wi]), float(Ix[a][wi])
                ctx.verdict('degenerate_emission_intensity', abs(gk - gx) <= REL * abs(gx) + slack,
                            cls='emission:%s:%s' % (cls, topc), detail='k-table %r cross-section %r' % (gk, gx),
                            vector=dict(v, what='degen_I', a=a, w=wi))
            gk, gx = float(Fk[wi]), float(Fx[wi])
            rel_slack = n * EXP_M10 * hot[wi] / bc[wi][v['tmin']] if v['saturated'] else 0.0
            ctx.verdict('degenerate_emission_flux', abs(gk - gx) <= (REL + rel_slack) * abs(gx),
                        cls='emission:%s:%s' % (cls, topc), detail='k-table %r cross-section %r' % (gk, gx),
                        vector=dict(v, what='degen_F', w=wi))
        # transmission spectrum, both modes (one contribution: the tau>10 early exit cannot differ)
        tw.k_mode()
        _, Dk, Tk, _ = tw.kt.model.model()
        tw.x_mode()
        _, Dx, Tx, _ = tw.xt.model.model()
        for wi in range(nw):
            ctx.verdict('degenerate_transmission', close(Dk[wi], Dx[wi], rel=REL) and
                        np.allclose(Tk[:, wi], Tx[:, wi], rtol=REL, atol=1e-300),
                        cls='transmission:' + cls, detail='depth k-table %r cross-section %r' % (Dk[wi], Dx[wi]),
                        vector=dict(v, what='degen_T', w=wi))


def check_vector_safe(ctx, tw, v):
    """An exception raised by the code under test on a valid configuration is a violation, not a machinery failure."""
    try:
        check_vector(ctx, tw, v)
        ctx.verdict('evaluates_without_error', True, cls='vector:' + cls_of(v), vector=dict(v, what='raise'))
    except Machinery:
        raise
    except Exception as ex:
        import traceback
        tb = traceback.extract_tb(ex.__traceback__)
        where = '%s:%s' % (os.path.basename(tb[-1].filename), tb[-1].name)
        if '/harness/' in tb[-1].filename:
            raise
        ctx.verdict('evaluates_without_error', False, cls='vector:' + cls_of(v),
                    detail='%s: %s at %s' % (type(ex).__name__, ex, where), vector=dict(v, what='raise'))
        fx.set_mode('xsec')


def run_vectors(ctx, cfg, label):
    res = ctx.check_spec('export-' + label, 'MC_KTable', cfg, workers=1, deque=True)
    vecs = res.tagged('VEC')
    if not vecs:
        raise Machinery('no vectors exported by ' + cfg)
    groups = {}
    for v in vecs:          # one twin set of models per temperature profile and per contribution list of the vectors
        groups.setdefault((tuple(v['tp']), v['ng'], len(v['kk'][0]), tuple(v['clist'])), []).append(v)
    if len({k[3] for k in groups}) < 5 or not any(k[3][0] != 'k' for k in groups) or not any(len(k[3]) > 2 for k in groups):
        raise Machinery('the exported vectors do not cover the contribution lists: %r' % sorted({k[3] for k in groups}))
    with fx.TempDir() as d:
        for (tp, ng, nw, order), g in sorted(groups.items()):
            tw = Twin(d, [TK[t] for t in tp], WN[:nw], ng, order=order)
            for v in g:
                check_vector_safe(ctx, tw, v)
            ctx.add_sample(dict(vector=dict(kk=g[-1]['kk'], wts=g[-1]['wts'], tp=list(tp), ktr=g[-1]['ktr'][0][0])))
    fx.reset_all()


def replay_vector(ctx, v):
    with fx.TempDir() as d:
        tw = Twin(d, [TK[t] for t in v['tp']], WN[:len(v['kk'][0])], v['ng'], order=tuple(v.get('clist', ('k', 'g1'))))
        check_vector_safe(ctx, tw, v)
    fx.reset_all()


# ----------------------------------------------------------------------------
# binding B
# ----------------------------------------------------------------------------
S_T = 1000000


def sc(x, S=S_T):
    m = int(round(float(x) * S))
    return max(-(2 ** 30 - 1), min(2 ** 30 - 1, m))


def random_weights(rng, ng):
    style = rng.random()
    if style < 0.4:
        x, w = np.polynomial.legendre.leggauss(ng)
        return [float(v) / 2.0 for v in w]
    r = [rng.uniform(0.05, 1.0) for _ in range(ng)]
    s = sum(r)
    return [v / s for v in r]


def run_traces(ctx, n_models, extra=()):
    rng = random.Random(ctx.seed * 130363 + 20)
    events, meta = [], {}

    def add(ev, cls, detail, vec):
        ev['id'] = len(events)
        clause = ev.pop('_clause', None) or 'trace_' + ev['ev']
        events.append(ev)
        meta[ev['id']] = (cls, detail, vec, clause)

    with fx.TempDir() as d:
        for i in range(n_models):
            vec = dict(trace=True, model_index=i, seed=ctx.seed)
            try:
                n = rng.randint(2, 12)
                nw = rng.randint(2, 4)
                ng = rng.randint(1, 6)
                wn = sorted(rng.uniform(400.0, 8000.0) for _ in range(nw))
                iso = (i % 3 == 0)
                degenerate = (i % 4 == 1)
                if iso:
                    temps = [rng.uniform(400.0, 2200.0)] * n
                else:
                    temps = [rng.uniform(400.0, 2200.0) for _ in range(n)]
                kw = dict(mix=10 ** rng.uniform(-5, -2), planet_radius=rng.uniform(0.5, 1.5), planet_mass=rng.uniform(0.5, 2.0),
                          pmin=10 ** rng.uniform(-1, 1), pmax=10 ** rng.uniform(4, 6), ngauss=rng.randint(1, 6))
                tw = Twin(d, temps, wn, ng, with_grey=False, kw=kw)
                wts = random_weights(rng, ng)
                mag = rng.choice([1e-3, 0.1, 1.0, 1.0, 4.0, 12.0])
                kk = np.array([[[mag * rng.choice([0.0, 0.3, 1.0, 2.5]) * rng.uniform(0.2, 1.8) for _ in range(ng)]
                                for _ in range(nw)] for _ in range(n)])
                if degenerate:
                    kk = np.repeat(kk[:, :, :1], ng, axis=2)
                sig = tw.sigma_from_ln2(kk)
                kbar = np.tensordot(sig, np.array(wts), axes=([2], [0]))
                tw.write_tables(sig, wts, xsec_sigma=kbar)
                cls = '%s:%s:ng%d' % ('degenerate' if degenerate else 'generic', 'iso' if iso else 'noniso', ng)
                # transmission, both modes
                tw.k_mode()
                _, Dk, Tk, _ = tw.kt.model.model()
                Ik, imu, w, _ = tw.ke.model.partial_model()
                _, Fk, _, _ = tw.ke.model.model()
                tw.x_mode()
                _, Dx, Tx, _ = tw.xt.model.model()
                Ix, _, _, _ = tw.xe.model.partial_model()
                add(dict(ev='jensen', tk=[sc(x) for x in np.ravel(Tk)], tx=[sc(x) for x in np.ravel(Tx)], S=S_T),
                    'transmission:' + cls, 'min(Tk - Tx) = %r, range [%r, %r]' % (float(np.min(Tk - Tx)), float(Tk.min()), float(Tk.max())), vec)
                ctx.verdict('transit_depth_order', bool(np.all(Dk <= Dx * (1 + 1e-12))) , cls='transmission:' + cls,
                            detail='k-table depth %r > averaged-coefficient depth %r' % (Dk.tolist(), Dx.tolist()), vector=vec)
                if degenerate:
                    sat = bool((np.sum(kk[:, :, 0], axis=0) * fx.LN2).min() >= 10.0 - 1e-6)
                    hot = max(temps)
                    add(dict(ev='degen', a=[sc(x) for x in np.ravel(Tk)], b=[sc(x) for x in np.ravel(Tx)], S=S_T, slack=0),
                        'transmission:' + cls, 'max |Tk - Tx| = %r' % float(np.max(np.abs(Tk - Tx))), vec)
                    ra, rb = [], []
                    for wi, wnv in enumerate(wn):
                        b = fx.planck_b(wnv, hot)
                        ra += [float(x) / b for x in Ik[:, wi]]
                        rb += [float(x) / b for x in Ix[:, wi]]
                    add(dict(ev='degen', a=[sc(x) for x in ra], b=[sc(x) for x in rb], S=S_T,
                             slack=(int(n * S_T * EXP_M10) + 1) if sat else 0),
                        'emission:%s:%s' % (cls, 'sat' if sat else 'unsat'),
                        'max |Ik - Ix|/B_hot = %r' % max(abs(x - y) for x, y in zip(ra, rb)), vec)
                    tol = [REL * abs(y) + (n * EXP_M10 if sat else 0.0) for y in rb]
                    ctx.verdict('degenerate_emission_intensity', all(abs(x - y) <= t for x, y, t in zip(ra, rb, tol)),
                                cls='emission:%s:%s' % (cls, 'sat' if sat else 'unsat'),
                                detail='max |Ik - Ix|/B_hot = %r' % max(abs(x - y) for x, y in zip(ra, rb)), vector=vec)
                # emission consequences in k-table mode
                tmin, tmax = min(temps), max(temps)
                lo, hi = [], []
                for wi, wnv in enumerate(wn):
                    lo += [float(x) / fx.planck_b(wnv, tmin) for x in Ik[:, wi]]
                    hi += [float(x) / fx.planck_b(wnv, tmax) for x in Ik[:, wi]]
                add(dict(ev='bounds', lo=sc(min(lo)), hi=sc(max(hi)), S=S_T), 'emission:' + cls + ':bounds',
                    'I/B_cold >= %r, I/B_hot <= %r' % (min(lo), max(hi)), vec)
                if iso:
                    ctx.verdict('isothermal_identity_ktable', min(lo) >= 1 - 1e-12 and max(lo) <= 1 + 1e-12,
                                cls='emission:' + cls, detail='I/B in [%r, %r]' % (min(lo), max(lo)), vector=vec)
                    bs = [fx.planck_b(wnv, STAR_T) for wnv in wn]
                    r = [float(Fk[wi]) / (fx.planck_b(wn[wi], temps[0]) / bs[wi] * (tw.ke.rp_m / tw.ke.rs_m) ** 2) for wi in range(nw)]
                    ctx.verdict('isothermal_identity_ktable', min(r) >= 1 - 1e-12 and max(r) <= 1 + 1e-12,
                                cls='emission:' + cls, detail='flux/blackbody ratio in [%r, %r]' % (min(r), max(r)), vector=vec)
                # exact weighted average on integer paths through the real kernel (weights with small denominators)
                den = rng.choice([2, 3, 4, 5, 8])
                parts = [rng.randint(1, 4) for _ in range(ng)]
                tot = sum(parts)
                rw = [Fraction(p, tot) for p in parts]
                if all(x.denominator <= 16 for x in rw):
                    taus = [[rng.randint(0, 3) for _ in range(ng)] for _ in range(n)]
                    kint = np.zeros((n, nw, ng))
                    for l_ in range(n):
                        kint[l_, :, :] = np.array(taus[l_], dtype=float)[None, :]
                    tw.write_tables(tw.sigma_from_ln2(kint), [float(x) for x in rw])
                    tw.k_mode()
                    ab = tw.ke.absorption
                    ab.prepare(tw.ke.model, np.array(wn))
                    j = rng.randint(0, n - 1)
                    path = np.array([rng.randint(1, 2) for _ in range(n - j)], dtype=float)
                    tau = np.zeros((n, nw))
                    ab.contribute(tw.ke.model, 0, n - j, j, j, tw.cu, tau, path_length=path)
                    tg = [int(sum(taus[j + k][g] * int(path[k]) for k in range(n - j))) for g in range(ng)]
                    if max(tg) <= 40:
                        add(dict(ev='wavg', wts=[[x.numerator, x.denominator] for x in rw], taus=tg,
                                 m=sc(math.exp(-tau[j, 0]), 100000), S=100000), 'transmission:kernel:ng%d' % ng,
                            'observed transmittance %r' % math.exp(-tau[j, 0]), vec)
                tw.x_mode()
            except Exception as ex:
                code_raised(ctx, ex, 'trace:model', vec)
                fx.set_mode('xsec')
    fx.reset_all()
    for ev, cls, detail, vec in extra:          # `twin` events of the history walks (binding C)
        add(dict(ev), cls, detail, vec)
    if not events:
        if ctx.clauses.get('evaluates_without_error', {}).get('bad'):
            return          # every model raised: already reported as violations
        raise Machinery('no trace event was recorded')
    accepted, bad, res = validate_trace('Trace_KTable', 'Trace_KTable.cfg', events)
    ctx.add_tlc('trace-ktable', res, counts=False)
    if res.postcondition_false and not bad:
        raise Machinery('Trace_KTable did not consume the whole trace:\n' + res.out[-1500:])
    badids = {b['id'] for b in bad}
    ctx.traces += len(events)
    for ev in events:
        cls, detail, vec, clause = meta[ev['id']]
        ctx.verdict(clause, ev['id'] not in badids, cls=cls, detail='TLC rejected event (%s)' % detail, vector=vec)
    ctx.add_sample(dict(trace_event={k: (v if not isinstance(v, list) else v[:6]) for k, v in events[0].items()}))
    # canaries
    j = [e for e in events if e['ev'] == 'jensen' and e['id'] not in badids]
    wv = [e for e in events if e['ev'] == 'wavg' and e['id'] not in badids]
    if n_models and (not j or not wv) and not (badids or ctx.has_violations()):
        raise Machinery('no event available for the canary')       # (every event rejected: already violations)
    can = []
    if j and wv:
        c1 = dict(j[0])
        c1['tk'] = list(c1['tk'])
        c1['tk'][0] = c1['tx'][0] - 50
        c2 = dict(wv[0])
        c2['m'] = c2['m'] + 40
        can += [c1, c2]
    tw = [e for e in events if e['ev'] == 'twin' and e['id'] not in badids]
    te = [e for e in tw if e['rel'] == 'equal' and e['slack'] == 0]
    tj = [e for e in tw if e['rel'] == 'jensen']
    if extra and not te and not ctx.has_violations():
        raise Machinery('no accepted twin event available for the canary')
    if te:                # a twin differing by 2e-9, a twin on a grid of another length, twins under different configurations,
                          # twins holding different contribution lists, a list outside the alphabet
        can += [dict(te[0], dev=2000), dict(te[-1], nx=te[-1]['nx'] + 1),
                dict(te[0], cx=['exp' if te[0]['ck'][0] == 'linear' else 'linear'] + list(te[0]['ck'][1:])),
                dict(te[0], lx=list(te[0]['lk']) + ['c1' if 'c1' not in te[0]['lk'] else 'c3']),      # twins holding different lists
                dict(te[-1], lk=[x for x in te[-1]['lk'] if x != 'k'] + ['c9'], lx=[x for x in te[-1]['lx'] if x != 'k'] + ['c9'])]
    if tj:
        can += [dict(tj[0], lo=-50)]
    ok2, bad2, _ = validate_trace('Trace_KTable', 'Trace_KTable.cfg', can) if can else (False, can, None)
    if can and (ok2 or len(bad2) != len(can)):
        raise Machinery('canary accepted: Trace_KTable is vacuous')


# ----------------------------------------------------------------------------
# binding C: histories
# ----------------------------------------------------------------------------
MUTANTS = ('RefuteSize', 'RefuteFirst', 'RefuteWindowTwin', 'RefuteLatched',
           'RefuteKDrops', 'RefuteXDrops', 'RefuteKNoop', 'RefuteXNoop', 'RefuteKStale',
           'RefuteOverwrite', 'RefuteLastOnly', 'RefuteStopsAtK')


def check_history_design(ctx):
    """KTableHistory, one TLC run (-continue): the invariants hold without a memo and with a memo keyed on the
    requested points / on their end points; every under-keyed memo and the latched opacity mode are refuted by
    the window alphabet; a family whose container drops the interpolation scheme it is constructed with, or ignores
    the scheme set in place, or whose loaded tables are not reached by the session-wide call, is refuted by the
    configuration alphabet and is invisible on temperature nodes / on the other routes (NodeBlind, RouteBlind hold);
    a k-table path that overwrites what the path holds, keeps the last continuum term only, or stops after the
    molecular term is refuted by the alphabet of contribution lists and is invisible with the molecular term first /
    fewer than two continuum terms / the molecular term last (ListBlind holds; OrderFree holds).
    Exactly the twelve Refute* invariants must be violated."""
    res = run_tlc('MC_KTableHistory', 'MC_KTableHistory_all.cfg', workers=4, coverage=True, allow_violation=True,
                  extra=['-continue'])
    ctx.add_tlc('history-design', res)
    got = set(re.findall(r'Invariant (\S+) is violated', res.out))
    if set(MUTANTS) - got or got - set(MUTANTS):
        raise Machinery('KTableHistory: expected TLC to refute exactly %r, got %r' % (sorted(MUTANTS), sorted(got)))
    for a in ('SetWin', 'SetTP', 'SetMode', 'SetCfg', 'SetList', 'Eval'):
        if res.action_cov.get(a, (0, 0))[1] == 0:
            raise Machinery('vacuous: action %s of KTableHistory never taken' % a)
    if res.distinct == 0:
        raise Machinery('TLC reported 0 states for MC_KTableHistory')


def run_histories(ctx, nwalks, thorough, lists):
    from .. import history
    log = fh.TwinLog(ctx)
    with fx.TempDir() as root:
        fx.reset_all()
        try:
            scs = fh.scenarios(ctx, root, log, thorough=thorough, lists=lists)
            # table objects are cheap to evaluate: many more walks, so that every ORDERED pair of requested grids is
            # evaluated back to back on one object (a memo keyed on too little may be exposed in one order only)
            # (the scenarios whose setting is the evaluation configuration reload their tables: as many walks as the models)
            dense = [x for x in scs if isinstance(x, fh.TableScenario) and 'config' not in x.settings]
            n = history.run_history(ctx, dense, 4 * nwalks)
            n += history.run_history(ctx, [x for x in scs if x not in dense], nwalks)
            if not ctx.has_violations():
                fh.self_check(scs, log)
        finally:
            fx.reset_all()
    ctx.note('binding C: %d history walks over %d scenarios, %d twin evaluations (%d under the exp(-10) licence)'
             % (n, len(scs), len(log.events), log.licensed))
    ctx.add_sample(dict(history_scenarios=[x.name for x in scs]))
    return log


def export_configurations(ctx):
    """the configuration alphabet of KTableHistory with what the specification says about each class, and its alphabet
    of contribution lists"""
    res = ctx.check_spec('export-configurations', 'MC_KTableHistory', 'EX_KTableHistory_cfg.cfg', workers=1)
    vecs = res.tagged('VEC')
    if len(vecs) != 16 * len(fh.INTERPS) * len(fh.ROUTES) * len(fh.EXTRAS):
        raise Machinery('EX_KTableHistory_cfg exported %d configuration classes' % len(vecs))
    lists = sorted(res.tagged('LST'), key=lambda v: v['id'])
    if len(lists) < 5 or len({tuple(v['list']) for v in lists}) != len(lists) or lists[0]['list'] != ['k']:
        raise Machinery('EX_KTableHistory_cfg exported the contribution lists %r' % [v.get('list') for v in lists])
    return vecs, lists


def run_lists(ctx, lists, log, thorough):
    with fx.TempDir() as root:
        fx.reset_all()
        try:
            sw = fh.run_lists(ctx, lists, root, log, thorough)
        finally:
            fx.reset_all()
    ctx.note('contribution lists: %d exported lists, %d twin evaluations of models holding them' % (len(lists), sw.done))
    ctx.add_sample(dict(contribution_list=lists[-1]))
    return sw


def replay_lists(ctx, vs):
    log = fh.TwinLog(ctx)
    with fx.TempDir() as root:
        fx.reset_all()
        try:
            fh.replay_lists(ctx, [v['vector'] for v in vs], root, log)
        finally:
            fx.reset_all()
    if log.events:
        run_traces(ctx, 0, extra=log.events)


def run_configurations(ctx, vecs, log, thorough):
    with fx.TempDir() as root:
        fx.reset_all()
        try:
            sw = fc.run(ctx, vecs, root, log, thorough, check=False)      # (self-check: after TLC has validated the events)
        finally:
            fx.reset_all()
    ctx.note('configuration alphabet: %d exported classes; %d table-object and %d forward-model twin evaluations under them'
             % (len(vecs), sw.done['table'], sw.done['model']))
    ctx.add_sample(dict(configuration_class=vecs[len(vecs) // 2]))
    return sw


def replay_configurations(ctx, vs):
    log = fh.TwinLog(ctx)
    with fx.TempDir() as root:
        fx.reset_all()
        try:
            fc.replay(ctx, [v['vector'] for v in vs], root, log)
        finally:
            fx.reset_all()
    if log.events:
        run_traces(ctx, 0, extra=log.events)


def replay_histories(ctx, vs):
    from ..history import digest
    log = fh.TwinLog(ctx)
    with fx.TempDir() as root:
        fx.reset_all()
        try:
            scs = {x.name: x for x in fh.scenarios(ctx, root, log, thorough=True, lists=export_configurations(ctx)[1])}
            for v in vs:
                vec = v['vector']
                sc = scs.get(vec['history'])
                if sc is None:
                    raise Machinery('replay: unknown history scenario %r' % vec['history'])

                def value(d, text):
                    for x in sc.dims[d]:
                        if repr(x) == text or x == text or repr(x) == repr(text):
                            return x
                    raise Machinery('replay: %r is not a value of setting %d of %s' % (text, d, sc.name))
                vals = [value(d, x) for d, x in enumerate(vec['init'])]
                obj = sc.fresh(list(vals))
                ok = True
                for step in vec['trail']:
                    if step.startswith('set'):
                        d, text = step[3:].split('=', 1)
                        vals[int(d)] = value(int(d), text)
                        sc.set(obj, int(d), vals[int(d)], list(vals))
                    elif step.startswith('eval'):
                        try:
                            ok = digest(sc.observe(obj)) == digest(sc.observe(sc.fresh(list(vals)))) and ok
                        except Machinery:
                            raise
                        except Exception:
                            ok = False
                ctx.verdict('history_independent', ok, cls='%s:replay' % sc.name,
                            detail='replay of the walk %r from %r' % (vec['trail'], vec['init']), vector=vec)
        finally:
            fx.reset_all()
    if log.events:
        run_traces(ctx, 0, extra=log.events)


def run_loading(ctx, only=None):
    """The k-table loading part (spec/KTableLoad.tla): container format x weight symmetry x coefficient profile; the loaded
    (coefficient, weight) pairing is the file's, observed through the real kernel as the exact weight-averaged exponential."""
    res = run_tlc('MC_KTableLoad', 'EX_KTableLoad.cfg', workers=1, allow_violation=True)
    ctx.add_tlc('loading-export', res, counts=False)
    if res.violated:
        raise Machinery('KTableLoad: %s violated by the design' % res.violated)
    vecs = res.tagged('LVEC')
    fmts = {(v['fmt'], bool(v['sym'])) for v in vecs}
    if len(vecs) < 150 or fmts != {(f, s) for f in ('pickle', 'hdf5', 'nemesis') for s in (True, False)}:
        raise Machinery('KTableLoad export incomplete: %d tables, classes %r' % (len(vecs), sorted(fmts)))
    if only is not None:
        vecs = [v for v in vecs if v['fmt'] == only['fmt'] and v['w'] == only['w'] and v['k'] == only['k']]
        return fx_c20load.run(ctx, vecs)
    ctx.expect_refuted('refute-quadrature-axis-reversed', 'MC_KTableLoad', 'MC_KTableLoad_reversed_refuted.cfg', 'PairingIsTheFiles', workers=1)
    ctx.expect_refuted('nonvacuous-asymmetric-weights', 'MC_KTableLoad', 'MC_KTableLoad_nonvac.cfg', 'NeverAsymmetric', workers=1)
    # why the dimension is needed: with symmetric weights only (and on degenerate tables) the reversed pairing is invisible
    for label, cfg in (('symmetric-weights-blind', 'MC_KTableLoad_symmetric_blind.cfg'), ('degenerate-tables-blind', 'MC_KTableLoad_degenerate_blind.cfg')):
        r = run_tlc('MC_KTableLoad', cfg, workers=1, allow_violation=True)
        ctx.add_tlc(label, r, counts=False)
        if r.violated:
            raise Machinery('KTableLoad/%s: expected to hold, %s violated' % (cfg, r.violated))
    import time as _t
    t0 = _t.time()
    n = fx_c20load.run(ctx, vecs)
    ctx.note('k-table loading part: %.1f s' % (_t.time() - t0))
    if n < len(vecs) and not ctx.has_violations():
        raise Machinery('only %d of %d exported k-table files were loaded' % (n, len(vecs)))
    ctx.note('k-table loading: %d files (pickle / HDF5 / NEMESIS x symmetric / asymmetric dyadic weights x 2..4 points) through KTableCache and the kernel' % n)


def run(ctx):
    q = ctx.tier == 'quick'
    ctx.bounds = dict(tier=ctx.tier,
                      exhaustive='2..3 layers, 1..2 wavenumbers, 2..3 quadrature points, k over {0,1,2,3,5,15} ln2, 5 weight sets, '
                                 'second contribution over {0,1,15}, chord multipliers 1..3',
                      vectors='3 layers x 2 wavenumbers x 2 points and 2 layers x 3 points; degenerate and generic rows; pickle k-tables',
                      traces='random tables 2..12 layers, 1..6 points, Gauss-Legendre and random weights',
                      histories='TLC-generated walks (depth 9) over <= 3 settings x <= 3 values on long-lived table objects and '
                                '6-layer transmission / emission models: 41-point uniform, 37-point constant-resolution and '
                                '21-point coarse native grids; degenerate tables with 2, 3, 4 points, one generic table',
                      configurations='interpolation scheme {linear, exp} x route {GlobalCache key, OpacityCache.set_interpolation, '
                                     'constructor argument, set_interpolation_mode} x {none, memory mode off, second molecule '
                                     'de-activated} x T position {node, between, below, above} x P position (same); containers '
                                     'pickle and HDF5; table objects, 6-layer models of both families (TemperatureArray '
                                     'profiles), and 3 of these configurations per history scenario with a config setting')
    ctx.bounds['contribution_lists'] = ('lists over {k, c1 Rayleigh, c2 flat Mie, c3 CIA H2-H2}: k alone, one continuum term after / '
                                        'before k, two after, k between two, two before, three around k; every list in a '
                                        'transmission and an emission twin pair (degenerate and generic table), 3 lists per '
                                        'history scenario with a contribs setting; exact vectors with c carried by one or two '
                                        'contributions in 5 orders around the absorption')
    ctx.bounds['loading'] = ('formats {pickle, hdf5, nemesis} x weights {1,1}/2 {3,1}/4 {1,2,1}/4 {1,2,5}/8 {3,5,5,3}/16 {9,4,2,1}/16 x ordered pairs of '
                             'coefficient profiles of 2..4 points over 0..4 ln2 x path lengths 1..3 (174 files)')
    ctx.assumptions = ['k-table files: PickleKTable layout written by the harness; pressure grid = layer pressures, values constant in T',
                       'cross-section twin: GridOpacity fixture on the same grid and numbers',
                       'per-layer coefficients are scaled with the model\'s documented deltaz and densityProfile',
                       'the exp(-10) clamp of the cross-section emission branch is a licensed slack in the degenerate comparison',
                       'TLC + CommunityModules; exported term lists evaluated with Python Fractions',
                       'histories: every object owns the table objects it has loaded (installed in the cache singletons through '
                       'clear_cache / add_opacity for its own evaluations); results compared after rounding to 11 digits; '
                       'the cross-section twin of a generic table is its weight-averaged coefficient (linear interpolation)',
                       'a configuration is applied identically to both twins; a new scheme reaches long-lived tables because '
                       'they are loaded again (both caches emptied) or through set_interpolation_mode on every loaded object; '
                       'the cross-section twin of a pickle k-table is a pickle cross-section file, of an HDF5 k-table an HDF5 one']
    for cfg in (['MC_KTable_quick.cfg', 'MC_KTable_quick3.cfg'] if q else
                ['MC_KTable_quick.cfg', 'MC_KTable_thorough.cfg', 'MC_KTable_thorough3.cfg']):
        ctx.check_spec('exhaustive-' + cfg[10:-4], 'MC_KTable', cfg, deque=True, need_actions=('KTransmit', 'KEmit'))
    check_history_design(ctx)
    ctx.exhaustive = True
    ctx.expect_refuted('refute-unnormalised-weights', 'MC_KTable', 'MC_KTable_refute_weights.cfg', 'RefuteUnnormalised')
    for cfg in (['EX_KTable_quick.cfg', 'EX_KTable_quick3.cfg'] if q else ['EX_KTable_thorough.cfg', 'EX_KTable_quick3.cfg']):
        run_vectors(ctx, cfg, cfg[3:-4])
    run_loading(ctx)
    cvecs, lists = export_configurations(ctx)
    log = run_histories(ctx, 6 if q else 24, not q, lists)
    sweep = run_configurations(ctx, cvecs, log, not q)
    lsweep = run_lists(ctx, lists, log, not q)
    run_traces(ctx, 40 if q else 400, extra=log.events)
    if not ctx.has_violations():
        sweep.self_check()          # the configuration alphabet was realised and the scheme does enter between nodes
        lsweep.self_check(lists)    # every exported list was realised in every family and every continuum term enters


def replay(ctx, violations):
    done_trace = False
    swept = [v for v in violations if (v['vector'] or {}).get('contribs_sweep')]
    if swept:
        replay_lists(ctx, swept)
    hist = [v for v in violations if (v['vector'] or {}).get('history') and not (v['vector'] or {}).get('config')]
    if hist:
        seen, uniq = set(), []
        for v in hist:
            key = repr((v['vector']['history'], v['vector']['init'], v['vector']['trail']))
            if key not in seen:
                seen.add(key)
                uniq.append(v)
        replay_histories(ctx, uniq)
    conf = [v for v in violations if (v['vector'] or {}).get('config')]
    if conf:
        replay_configurations(ctx, conf)
    for v in violations:
        vec = v['vector'] or {}
        if vec.get('history') or vec.get('config') or vec.get('contribs_sweep'):
            continue
        if vec.get('load'):
            run_loading(ctx, only=vec)
            continue
        if vec.get('trace'):
            if not done_trace:
                ctx.seed = vec.get('seed', ctx.seed)
                run_traces(ctx, max(vec.get('model_index', 0) + 1, 40))
                done_trace = True
        else:
            replay_vector(ctx, vec)
    fx.reset_all()
