"""C15 -- an input file builds exactly the documented object graph.

Spec: spec/FactoryOps.tla + spec/Factory.tla (+ FactoryAsm.tla) over the GENERATED constants module
FactoryReg (live ClassFactory via inspect.signature + harness/data/documented_keywords.json).
Design level: TLC checks UniqueResolution, DocumentedClass, CaseFolded, KeysReachCtor, UnknownKeyIsError,
      UnknownSelectorIsError, TypedAsDocumented, DocumentedKeysExist on every configuration (<= MaxKeys keys).
Binding A: every exported configuration is written as a .par file and run through ParameterParser.generate_*
      in subprocesses with different PYTHONHASHSEED (ClassFactory keeps classes in sets); constructors are
      observed through signature-preserving recorders.  Assembled models are run through taurex.taurex.main()
      in-process (-i/-o/-S) and compared with the same components built through the library.
FactoryVal.tla: one key of one component x the whole value grammar (list lengths 0..3 x numbers / strings / mixed,
      every scalar spelling): the constructor receives Transform(raw) with its exact type, the object equals the library's.
FactoryMix.tla (subs): gas / contribution sub-sections under plain, composite '+' and custom python_file selectors:
      one object per sub-section in the built graph, and the graph equals the library-built one (enhance_class + addGas /
      add_contribution).  FactoryAsm.tla: the forms of the [Chemistry] selector and [Fitting] sections through the CLI.
FactorySect.tla + FactoryAsm family C: the PRESENCE of sections -- every subset of [Temperature] [Pressure] [Chemistry] [Planet]
      [Star] left out x every subset of the layer keys under [Model] x [Instrument]: an absent section leaves the model
      constructor's keyword at None, the [Model] layer keys are the model's pressure grid (in-process on every file, a few
      through the CLI).
FactoryParser.tla: the ParameterParser as a long-lived object -- TLC-generated walks of generate_* calls in any order, twice,
      after read() of another file, on files with sections left out: every call equals a fresh parser's, the parser's
      configuration stays as read (harness/fx_parser.py).
FactoryBin.tla: the [Binning] section x [Observation] x [Instrument] -- which resampling is in force (a written bin_type wins, the
      documented defaults otherwise), the manual grids of every grid key as exact rationals, `accurate`: through
      ParameterParser.generate_binning() and through the command-line program (-S / -o) against the library model resampled by
      the specification's class on the specification's grid (harness/fx_binsect.py).
"""
import contextlib
import io
import json
import os
import random
import shutil
import subprocess
import sys
import tempfile

import numpy as np

from ..core import Machinery, SPEC, VERIF, run_tlc, close
from .. import fx_docs, fx_factory as FX, fx_mixins as MX, fx_parser as PZ, fx_binsect as BS

PY = sys.executable
BS_KEYS = ('wavelength_grid', 'wavenumber_grid', 'log_wavelength_grid', 'log_wavenumber_grid', 'wavelength_res')


# ---------------------------------------------------------------------------- spec directory
def make_spec_dir(text):
    d = tempfile.mkdtemp(prefix='c15spec_')
    for f in os.listdir(SPEC):
        if f.endswith(('.tla', '.cfg')) and f != 'FactoryReg.tla':
            os.symlink(os.path.join(SPEC, f), os.path.join(d, f))
    with open(os.path.join(d, 'FactoryReg.tla'), 'w') as f:
        f.write(text)
    return d


def tlc(ctx, label, module, cfg, spec_dir, counts=True, **kw):
    res = run_tlc(module, cfg, spec_dir=spec_dir, **kw)
    ctx.add_tlc(label, res, counts=counts)
    return res


# ---------------------------------------------------------------------------- comparisons
def typed_matches(tv, got, kind, key, paths_like):
    """Specification value [t, v] against the recorded constructor argument (jsonable form)."""
    t, v = tv['t'], tv['v']
    if t == 'bool':
        return got[0] == 'bool' and got[1] == v
    if t == 'float':
        return got[0] == 'num' and got[1] == 'float' and got[2] == v[0] / v[1]
    if t == 'str':
        if v in ('@P1', '@P2'):
            return got[0] == 'str' and got[1].endswith(paths_like[v])
        return got[0] == 'str' and got[1] == v
    if t == 'floatlist':
        return got[0] == 'list' and len(got[1]) == len(v) and all(
            g[0] == 'num' and g[1] == 'float' and g[2] == x[0] / x[1] for g, x in zip(got[1], v))
    if t == 'strlist':
        return got[0] == 'list' and [g[1] if g[0] == 'str' else None for g in got[1]] == list(v)
    return False


def default_matches(default, got):
    return FX.jsonable(default) == got


SUFFIX = {('temperature', 'filename'): 'tp%s.dat', ('chemistry', 'filename'): 'chem%s.dat',
          ('star', 'phoenix_path'): 'phoenix%s', ('contribution', 'mie_path'): 'mie%s'}


def vec_cls(v):
    return '%s:%s:%s' % (v['kind'], v['sel'], v['variant'])


def run_workers(vectors, resolve, seeds, mix=None):
    """Run the configurations in one subprocess per hash seed; returns {seed: result dict}."""
    tmp = tempfile.mkdtemp(prefix='c15job_')
    try:
        inp = os.path.join(tmp, 'in.json')
        with open(inp, 'w') as f:
            json.dump(dict(vectors=vectors, resolve=resolve, mix=mix or []), f)
        procs = {}
        for s in seeds:
            env = dict(os.environ, PYTHONHASHSEED=str(s))
            procs[s] = subprocess.Popen([PY, '-W', 'ignore', '-m', 'harness.fx_factory', 'worker', inp,
                                         os.path.join(tmp, 'out%d.json' % s)], cwd=VERIF, env=env,
                                        stdout=subprocess.PIPE, stderr=subprocess.STDOUT, text=True)
        out = {}
        for s, p in procs.items():
            so, _ = p.communicate(timeout=1500)
            if p.returncode != 0:
                raise Machinery('C15 worker (PYTHONHASHSEED=%s) failed:\n%s' % (s, so[-3000:]))
            with open(os.path.join(tmp, 'out%d.json' % s)) as f:
                out[s] = json.load(f)
        return out
    finally:
        shutil.rmtree(tmp, ignore_errors=True)


def class_defaults():
    import inspect
    from taurex.parameter.classfactory import ClassFactory
    cf = ClassFactory()
    d = {}
    for kind, attr in FX.KIND_ATTR.items():
        for k in getattr(cf, attr):
            sig = inspect.signature(k.__init__)
            d[k.__name__] = {n: p.default for n, p in list(sig.parameters.items())[1:] if p.default is not inspect._empty}
    return d


def judge_vector(ctx, v, r, seed, defaults):
    cls = vec_cls(v)
    vec = dict(v, hashseed=seed)
    variant = v['variant']
    if variant == 'unknownsel':
        ctx.verdict('UnknownSelectorIsError', r['err'] != 'none', cls=cls,
                    detail='selector %r was accepted and built %s' % (v['written'], r.get('cls')), vector=vec)
        return
    if variant == 'unknownkey':
        if v['err'] == 'error':
            ctx.verdict('UnknownKeyIsError', r['err'] != 'none', cls=cls,
                        detail='unknown key not_a_key was ignored: built %s' % r.get('cls'), vector=vec)
        return
    if v['err'] != 'none':
        return      # documented key missing from the constructor: reported from the resolution table
    wellformed = r['direct'] == 'ok'
    if r['err'] == 'none':
        want = v['cls']
        got_ok = (r['cls'] == want) if variant != 'mixin' else (want in r.get('bases', []))
        ctx.verdict('ResolvesToSpecClass', got_ok, cls=cls, detail='built %s, specification says %s' % (r['cls'], want), vector=vec)
    elif wellformed:
        ctx.verdict('WellFormedFileBuilds', False, cls=cls,
                    detail='library construction %s(**typed values) succeeds but the input file raised %s: %s' % (
                        v['cls'], r['err'], r.get('msg')), vector=vec)
        return
    if not r['rec']:
        if r['err'] == 'none' and v['kwargs']:
            ctx.verdict('KeysReachCtor', False, cls=cls, detail='constructor of %s was never called (%s)' % (v['cls'], r['rec_classes']), vector=vec)
        return
    rec = r['rec'][0][1]
    for k, tv in (v['kwargs'] or {}).items():
        ok = k in rec and typed_matches(tv, rec[k], v['kind'], k, {'@P1': (SUFFIX.get((v['kind'], k), '%s') % 1),
                                                                   '@P2': (SUFFIX.get((v['kind'], k), '%s') % 2)})
        ctx.verdict('KeysReachCtor', ok, cls=cls + ':' + k, detail='key %s: constructor received %r, specification %r' % (k, rec.get(k), tv), vector=vec)
    dflt = defaults.get(v['cls'], {})
    others = [k for k in rec if k not in (v['kwargs'] or {}) and k in dflt and k not in ('molecule_name', 'binner')
              and not (v['kind'] == 'model' and k in ('planet', 'star', 'chemistry', 'temperature_profile', 'pressure_profile', 'observation'))]
    bad = [k for k in others if not default_matches(dflt[k], rec[k])]
    ctx.verdict('DefaultsOtherwise', not bad, cls=cls, detail='keys not set in the file differ from the constructor defaults: %s' % (
        {k: rec[k] for k in bad}), vector=vec)


# ---------------------------------------------------------------------------- the value grammar (FactoryVal)
def val_vector(v):
    """An exported FactoryVal configuration in the form the worker runs."""
    return dict(id=0, kind=v['kind'], by=v['by'], sel=v['sel'], variant='val', written=v['sel'], given=_jmap(v['given']), unknownkey=False,
                err='none', cls='' if v['custom'] else v['cls'], kwargs=_jmap(v['kwargs']), val=True, custom=bool(v['custom']),
                custom_file_name='custom_values.py', valcls=v['cls'], par=v['par'], typ=v['typ'], src=v['src'], shape=v['shape'],
                welltyped=v['welltyped'])


def judge_val(ctx, v, r, seed, defaults):
    """One key of one component written with one raw value of the grammar: the constructor must receive
    Transform(raw) with its exact Python type, and the object must equal the library-built one."""
    cls = 'val:%s:%s:%s:%s' % (v['kind'], v['valcls'], v['par'], v['shape'])
    vec = dict(v, hashseed=seed)
    paths = lambda k: {'@P1': (SUFFIX.get((v['kind'], k), '%s') % 1), '@P2': (SUFFIX.get((v['kind'], k), '%s') % 2)}
    tv = v['kwargs'][v['par']]
    if v['custom']:
        got = (r.get('attrs') or {}).get('_' + v['par'])
        ctx.verdict('KeysReachCtor', r['err'] == 'none' and got is not None and typed_matches(tv, got, v['kind'], v['par'], {}), cls=cls,
                    detail='custom class %s: key %s written %r: constructor received %r (%s %s), specification %r' % (
                        v['valcls'], v['par'], v['given'][v['par']], got, r['err'], r.get('msg'), tv), vector=vec)
        return
    wellformed = r['direct'] == 'ok'
    if not r['rec']:
        if r['err'] == 'none' or wellformed:
            ctx.verdict('KeysReachCtor', False, cls=cls, detail='constructor of %s was never called with the keys of the file (%s %s; constructors called: %s)' % (
                v['cls'], r['err'], r.get('msg'), r['rec_classes']), vector=vec)
        return
    rec = r['rec'][0][1]
    for k, t in v['kwargs'].items():
        ok = k in rec and typed_matches(t, rec[k], v['kind'], k, paths(k))
        if k == v['par'] or not ok:
            ctx.verdict('KeysReachCtor', ok, cls=cls, detail='%s key %s written %r: constructor received %r, specification %r' % (
                v['cls'], k, v['given'].get(k), rec.get(k), t), vector=vec)
    dflt = defaults.get(v['cls'], {})
    bad = [k for k in rec if k not in v['kwargs'] and k in dflt and k not in FX.OBJECT_PARAMS and not default_matches(dflt[k], rec[k])]
    ctx.verdict('DefaultsOtherwise', not bad, cls=cls, detail='keys not set in the file differ from the constructor defaults: %s' % (
        {k: rec[k] for k in bad}), vector=vec)
    if v['kind'] == 'model':
        return
    if (r['err'] == 'none') != wellformed:
        ctx.verdict('FileEqualsLibrary', False, cls=cls, detail='%s(%s=%r): library construction %s, input file %s %s' % (
            v['cls'], v['par'], tv, r['direct'], r['err'], r.get('msg')), vector=vec)
    elif wellformed and 'snapdiff' in r:
        ctx.verdict('FileEqualsLibrary', not r['snapdiff'], cls=cls, detail='%s built from the file differs from %s(%s=%r) built through the library at %s' % (
            v['cls'], v['cls'], v['par'], tv, r['snapdiff']), vector=vec)


# ---------------------------------------------------------------------------- composite selectors with several mixins
def _jmap(x):
    return x if isinstance(x, dict) else {}


def mix_cls(v):
    if v.get('subs'):       # sub-sections under a selector of the given form
        form = 'custom' if v.get('custom') else ('plain' if v['nmix'] == 0 else 'composite')
        return 'sub:%s:%s:%s:n%d' % (v['kind'], form, v['variant'], len(v['subs']))
    return 'mix:%s:%s:k%d' % (v['kind'], v['variant'], v['nmix'])


def judge_mix(ctx, v, r, seed):
    """One exported FactoryMix configuration against what the parser built (and what enhance_class builds)."""
    cls = mix_cls(v)
    vec = dict(v, hashseed=seed, mix=True)
    sel = '+'.join(v['toks'])
    if v['variant'] in ('basefirst', 'twobases', 'unknownmixin'):
        ctx.verdict('InvalidCompositeIsError', r['err'] != 'none', cls=cls,
                    detail='selector %r (documented as not valid) was accepted and built %s' % (sel, r.get('cls')), vector=vec)
        return
    if v['variant'] == 'unknownkey':
        ctx.verdict('UnknownKeyIsError', r['err'] != 'none', cls=cls,
                    detail='unknown key not_a_key under %r was ignored: built %s' % (sel, r.get('cls')), vector=vec)
        return
    if v['variant'] == 'unknownsubkey':
        ctx.verdict('UnknownKeyIsError', r['err'] != 'none', cls=cls, detail='unknown key not_a_key in sub-section [[%s]] under %r was ignored: built %s' % (
            v['subs'][-1]['name'], sel, r.get('cls')), vector=vec)
        return
    if v['variant'] == 'unknownsubsel':
        ctx.verdict('UnknownSelectorIsError', r['err'] != 'none', cls=cls, detail='sub-section [[%s]] with the unknown selector %r under %r was accepted: built %s' % (
            v['subs'][-1]['name'], v['subs'][-1]['sel'], sel, r.get('cls')), vector=vec)
        return
    lib = r.get('lib')
    if r['err'] != 'none':
        if lib is None or lib['err'] == 'none':
            ctx.verdict('WellFormedFileBuilds', False, cls=cls, detail='%r: library construction succeeds but the input file raised %s: %s' % (
                sel, r['err'], r.get('msg')), vector=vec)
        return
    want = list(v['bases'])
    if v['nmix'] == 0:
        ctx.verdict('ResolvesToSpecClass', r['cls'] == want[0], cls=cls, detail='%r built %s (bases %s), specification says %s%s' % (
            sel, r['cls'], r['bases'], want[0], ' (the class defined in the python_file)' if v.get('custom') else ''), vector=vec)
    else:
        ctx.verdict('CompositeOrder', r['bases'] == want and [c for c in r['mro'] if c in want] == want, cls=cls,
                    detail='%r built bases %s (method resolution %s); specification: ordered application %s' % (
                        sel, r['bases'], [c for c in r['mro'] if c in want], want), vector=vec)
    inits = [c for c, _ in r['inits']]
    ctx.verdict('MixinInitOrder', inits == list(v['initorder']), cls=cls,
                detail='%r: mixins initialised in order %s, specification (evaluated in reverse) %s' % (sel, inits, v['initorder']), vector=vec)
    recs = {c: kw for c, kw in r['inits']}
    recs.update({c: kw for c, kw in r['baserec']})
    for owner, d in _jmap(v['kwargs']).items():
        for k, tv in _jmap(d).items():
            got = recs.get(owner, {}).get(k)
            ok = got is not None and typed_matches(tv, got, v['kind'], k, {'@P1': (SUFFIX.get((v['kind'], k), '%s') % 1),
                                                                          '@P2': (SUFFIX.get((v['kind'], k), '%s') % 2)})
            ctx.verdict('KeysReachCtor', ok, cls=cls + ':' + k, detail='%r key %s: %s received %r, specification %r' % (sel, k, owner, got, tv), vector=vec)
    M, A = [c[0] / c[1] for c in v['coef']]
    eff = r['effect']
    x0 = 1000.0
    if any(c.startswith('Verif') for c in want[:-1]):   # the probe method exists iff a plugin mixin takes part
        ok = 'apply' in eff and close(eff['apply'][0], M * x0 + A, rel=1e-12) and close(eff['apply'][1], A, rel=1e-12, abs_=1e-12)
        ctx.verdict('CompositeEffect', ok, cls=cls, detail='%r: the method chain maps %s -> %s and 0 -> %s; specification (first mixin applied last) %s and %s' % (
            sel, x0, eff.get('apply', [None])[0], eff.get('apply', [None, None])[1], M * x0 + A, A), vector=vec)
    if v['kind'] == 'temperature' and r.get('base_effect', {}).get('profile') is not None and 'profile' in eff:
        M, A = [c[0] / c[1] for c in v['pcoef']]
        bp = np.array(r['base_effect']['profile'])
        got = np.array(eff['profile'])
        ok = got.shape == bp.shape and np.allclose(got, M * bp + A, rtol=1e-12, atol=0)
        ctx.verdict('CompositeEffect', ok, cls=cls + ':profile', detail='%r: temperature %s K; %s applied to the plain %s profile %s K gives %s K' % (
            sel, got[:2], '+'.join(v['toks'][:-1]), v['basecls'], bp[:2], (M * bp + A)[:2]), vector=vec)
    if lib is not None and lib['err'] == 'none':
        ok = lib['bases'] == r['bases'] and lib['mro'][1:] == r['mro'][1:] and lib['inits'] == inits and lib['effect'] == eff
        ctx.verdict('FileEqualsLibrary', ok, cls=cls, detail='%r: input file built bases %s / effect %s; enhance_class(%s, %s) gives bases %s / effect %s' % (
            sel, r['bases'], eff, v['basecls'], want[:-1], lib['bases'], lib['effect']), vector=vec)
    if v.get('subs'):
        judge_subs(ctx, v, r, cls, vec, sel)


def judge_subs(ctx, v, r, cls, vec, sel):
    """The sub-sections of a section whose selector is plain / composite / custom: one object per sub-section, in the
    written order, of the specification's class, with its keys typed -- and the graph the library builds."""
    built = v['builtsubs']
    g = r.get('graph') or {}
    names = [b['name'] for b in built]
    if v['kind'] == 'chemistry':
        held = g.get('held', [])
        ok = [h[0] for h in held] == [b['cls'] for b in built] and [h[1] for h in held] == names and all(n in g.get('gases', names) for n in names)
        got = 'gas objects %s, gases %s' % (held, g.get('gases'))
    else:
        got = [c[0] for c in g.get('contribs', [])]
        ok = got == [b['cls'] for b in built]
    ctx.verdict('SubsectionsReachComponent', ok, cls=cls, detail='%r with sub-sections %s: the built %s holds %s; specification: %s' % (
        sel, names, r.get('cls'), got, [(b['name'], b['cls']) for b in built]), vector=vec)
    subkind = 'gas' if v['kind'] == 'chemistry' else 'contribution'
    rec = r.get('subrec') or []
    for i, b in enumerate(built):
        c, kw = rec[i] if i < len(rec) else ('', {})
        ok = c == b['cls'] and (subkind != 'gas' or kw.get('molecule_name') == ['str', b['name']]) and all(
            k in kw and typed_matches(tv, kw[k], subkind, k, {}) for k, tv in _jmap(b['kwargs']).items())
        ctx.verdict('KeysReachCtor', ok, cls=cls + ':' + b['name'], detail='%r sub-section [[%s]]: constructor %s received %s, specification %s %s' % (
            sel, b['name'], c, kw, b['cls'], b['kwargs']), vector=vec)
    lib = r.get('lib')
    if lib is not None and lib['err'] == 'none' and 'graph' in lib:
        diff = FX.snap_diff(g, lib['graph'])
        ctx.verdict('FileEqualsLibrary', not diff, cls=cls + ':graph', detail='%r with sub-sections %s: the graph built from the input file differs from the library-built one '
                    '(%s + %s of the same objects) at %s' % (sel, names, '+'.join(v['bases']), 'addGas' if subkind == 'gas' else 'add_contribution', diff), vector=vec)


# ---------------------------------------------------------------------------- observation / instrument / priors / custom
def side_checks(ctx, doc, tmp):
    """Sections whose selection is hard-wired in the parser: every documented spelling must give exactly
    one object (or an error for unknown ones); run in-process."""
    from taurex.parameter import ParameterParser
    from taurex.parameter.factory import create_prior
    obsfile = os.path.join(tmp, 'obs.dat')
    wl = np.linspace(1.0, 5.0, 12)
    np.savetxt(obsfile, np.column_stack([wl, 0.01 + 0 * wl, 1e-4 + 0 * wl, 0.1 + 0 * wl]))
    import pickle
    lc = os.path.join(tmp, 'lc.pickle')
    with open(lc, 'wb') as f:
        pickle.dump({'obs_spectrum': np.column_stack([wl, 0.01 + 0 * wl, 1e-4 + 0 * wl, 0.1 + 0 * wl])}, f)

    def parse(text):
        p = os.path.join(tmp, 'side.par')
        with open(p, 'w') as f:
            f.write(text)
        pp = ParameterParser()
        pp.read(p)
        return pp

    with open(lc, 'wb') as f:
        pickle.dump({'spectrum': dict(wavelength=wl, depth=0.01 + 0 * wl, error=1e-4 + 0 * wl, width=0.1 + 0 * wl)}, f)
    from taurex.data.spectrum.observed import ObservedSpectrum
    from taurex.data.spectrum.lightcurve import ObservedLightCurve
    from taurex.data.spectrum.iraclis import IraclisSpectrum
    from taurex.data.spectrum.taurex import TaurexSpectrum
    for k in (ObservedSpectrum, ObservedLightCurve, IraclisSpectrum, TaurexSpectrum):
        FX._wrap_init(k)
    for e in doc['entries']:
        if e['selects_by'] != 'key':
            continue
        key = e['selectors'][0]
        val = {'taurex_spectrum': 'self', 'observed_lightcurve': lc, 'lightcurve': lc, 'iraclis_spectrum': lc}.get(key, obsfile)
        cls = 'observation:%s' % key
        vec = dict(section='Observation', key=key)
        del FX._REC[:]
        try:
            obj = parse('[Observation]\n%s = %s\n' % (key, val)).generate_observation()
            built = 'built %s' % (obj if isinstance(obj, str) else type(obj).__name__)
        except BaseException as ex:
            obj, built = None, '%s %s' % (type(ex).__name__, ex)
        called = sorted({r[0] for r in FX._REC})
        ok = len(called) == 1 or obj == 'self'
        ctx.verdict('UniqueResolution', ok, cls=cls, detail='documented key %s selects observation classes %s (%s)' % (key, called, built), vector=vec)
        if ok and key == 'observed_spectrum':
            try:
                obj = parse('[Observation]\n%s = %s\nnot_a_key = 1\n' % (key, val)).generate_observation()
                ctx.verdict('UnknownKeyIsError', False, cls=cls + ':unknownkey', detail='unknown key in [Observation] ignored; built %s' % type(obj).__name__, vector=vec)
            except BaseException:
                ctx.verdict('UnknownKeyIsError', True, cls=cls + ':unknownkey', vector=vec)
    # instrument: parser-level key and unknown key
    from taurex.binning import NativeBinner
    for key in ('num_observations',):
        pp = parse('[Instrument]\ninstrument = snr\nSNR = 12\n%s = 3\n' % key)
        inst, nobs = pp.generate_instrument(binner=NativeBinner())
        ctx.verdict('KeysReachCtor', nobs == 3.0 and inst._SNR == 12.0, cls='instrument:snr:' + key,
                    detail='num_observations -> %r, SNR -> %r' % (nobs, inst._SNR), vector=dict(section='Instrument', key=key))
    try:
        pp = parse('[Instrument]\ninstrument = snr\nSNR = 12\nnot_a_key = 1\n')
        inst = pp.generate_instrument(binner=NativeBinner())
        ctx.verdict('UnknownKeyIsError', False, cls='instrument:snr:unknownkey',
                    detail='unknown key in [Instrument] (snr) ignored; built %s' % type(inst[0]).__name__, vector=dict(section='Instrument'))
    except BaseException:
        ctx.verdict('UnknownKeyIsError', True, cls='instrument:snr:unknownkey', vector=dict(section='Instrument'))
    # priors as documented in fitting.rst
    cases = [('Uniform(bounds=(0.8, 5.0))', 'Uniform', dict(_low_bounds=0.8, _up_bounds=5.0)),
             ('LogUniform(bounds=(-12, -2))', 'LogUniform', dict(_low_bounds=-12, _up_bounds=-2)),
             ('LogUniform(lin_bounds=(1e-12, 1e-2))', 'LogUniform', dict(_low_bounds=-12.0, _up_bounds=-2.0)),
             ('Gaussian(mean=1.0,std=0.3)', 'Gaussian', dict(_loc=1.0, _scale=0.3)),
             ('LogGaussian(mean=-4,std=2)', 'LogGaussian', dict(_loc=-4, _scale=2)),
             ('LogGaussian(lin_mean=1e-4,std=2)', 'LogGaussian', dict(_loc=-4.0, _scale=2))]
    for text, name, attrs in cases:
        vec = dict(section='Fitting', prior=text)
        try:
            pp = parse('[Fitting]\nplanet_radius:fit = True\nplanet_radius:prior = "%s"\n' % text)
            pr = pp.generate_fitting_parameters()['planet_radius']['prior']
            ok = type(pr).__name__ == name and all(close(getattr(pr, a), b, rel=1e-12) for a, b in attrs.items())
            det = 'built %s %s' % (type(pr).__name__, {a: getattr(pr, a, None) for a in attrs})
        except BaseException as ex:
            ok, det = False, '%s: %s' % (type(ex).__name__, ex)
        ctx.verdict('KeysReachCtor', ok, cls='prior:' + name, detail=det, vector=vec)
    for text in ('Unifrom(bounds=(0.8, 5.0))', 'Uniform(bound=(0.8, 5.0))'):
        try:
            parse('[Fitting]\nplanet_radius:prior = "%s"\n' % text).generate_fitting_parameters()
            ok = False
        except BaseException:
            ok = True
        ctx.verdict('UnknownSelectorIsError' if 'Unifrom' in text else 'UnknownKeyIsError', ok, cls='prior:unknown',
                    detail='prior %s accepted' % text, vector=dict(prior=text))


# ---------------------------------------------------------------------------- assembled models, CLI == library
def xsec_dir(tmp):
    return FX.write_xsec(tmp)


ASM_VALUES = {
    'isothermal': dict(T='1100'), 'guillot': dict(T_irr='1400', kappa_v1='0.004'), 'guillot2010': dict(T_irr='1300'),
    'npoint': dict(T_surface='1600', T_top='700', temperature_points='1200,', pressure_points='1e3,'),
    'constant': dict(mix_ratio='2e-4'), 'twolayer': dict(mix_ratio_surface='1e-3', mix_ratio_top='1e-6', mix_ratio_P='1e3'),
    'twopoint': dict(mix_ratio_surface='1e-3', mix_ratio_top='1e-6'),
    'SimpleClouds': dict(clouds_pressure='1e3'), 'ThickClouds': dict(clouds_pressure='5e2'),
    'FlatMie': dict(flat_mix_ratio='1e-9', flat_bottomP='1e4', flat_topP='1e2'),
    'LeeMie': dict(lee_mie_radius='0.05', lee_mie_mix_ratio='1e-9', lee_mie_bottomP='1e4', lee_mie_topP='1e2'),
    'Absorption': {}, 'Rayleigh': {},
}


def pyval(s):
    toks = [t for t in s.split(',') if t.strip()]
    if ',' in s:
        return [float(t) for t in toks]
    return float(s)


def asm_chem_file(tmp):
    """Two fill-gas columns (H2, He) for the 30 layers of the assemblies: the file of the `makefree+file` form."""
    f = os.path.join(tmp, 'asm_chem.dat')
    if not os.path.exists(f):
        np.savetxt(f, np.column_stack([np.full(30, 0.85), np.full(30, 0.15)]))
    return f


def asm_par(a, xdir, files=None):
    form = a.get('chemform', 'plain')
    absent = set(a.get('absent') or ())         # family C: sections that are not written (inputfile.rst: not all headers are required)
    L = ['[Global]', 'xsec_path = %s' % xdir]
    if 'Chemistry' not in absent:
        L += ['[Chemistry]', 'chemistry_type = %s' % a['chem']]
        if form == 'composite':         # mixins.rst: makefree+file, the gas sub-sections are injected into the file profile
            L += ['filename = %s' % files['chemfile'], 'gases = H2, He']
        elif form == 'custom':          # custom.rst: the class of python_file, its constructor keywords are keys
            L += ['python_file = %s' % files['chemistry_duck'], 'base_gas = H2']
        else:
            L += ['fill_gases = H2,He', 'ratio = 0.2']
        for mol, g in (('H2O', a['gas1']), ('CH4', a['gas2'])):
            L += ['    [[%s]]' % mol, '    gas_type = %s' % g] + ['    %s = %s' % kv for kv in ASM_VALUES[g].items()]
    if 'Temperature' not in absent:
        L += ['[Temperature]', 'profile_type = %s' % a['temp']] + ['%s = %s' % kv for kv in ASM_VALUES[a['temp']].items()]
    if 'Pressure' not in absent:
        L += ['[Pressure]', 'profile_type = %s' % a['press'], 'nlayers = 30', 'atm_min_pressure = 1e-1', 'atm_max_pressure = 1e6']
    if 'Planet' not in absent:
        L += ['[Planet]', 'planet_type = simple', 'planet_mass = 1.2', 'planet_radius = 0.9']
    if 'Star' not in absent:
        L += ['[Star]', 'star_type = blackbody', 'temperature = 5500', 'radius = 0.8']
    L += ['[Model]', 'model_type = %s' % a['model']]
    if a['model'] != 'transmission':
        L += ['ngauss = 3']
    L += ['%s = %s' % (k, e['raw']) for k, e in sorted(_jmap(a.get('mkeys')).items())]
    for c in a['contribs']:
        L += ['    [[%s]]' % c] + ['    %s = %s' % kv for kv in ASM_VALUES[c].items()]
    if a['binning'] != 'none':
        L += ['[Binning]', 'bin_type = manual', 'wavenumber_grid = 500, 1900, 8', 'accurate = %s' % ('True' if a['binning'] == 'flux' else 'False')]
    if a.get('inst', 'none') != 'none':
        L += ['[Instrument]', 'instrument = %s' % a['inst']] + ['%s = %s' % (k, e['raw']) for k, e in sorted(_jmap(a.get('instkeys')).items())]
    if a.get('fitting'):
        L += ['[Fitting]']
        for e in a['fitting']:
            L += ['%s:fit = %s' % (e['param'], 'True' if e['fit'] else 'False'), '%s:mode = %s' % (e['param'], e['mode']),
                  '%s:bounds = %s' % (e['param'], ', '.join(e['bounds']))]
    return '\n'.join(L) + '\n'


def asm_library(a, classes, files=None, build=True):
    """The same components through the library, from the specification's class names.  A section that the file
    leaves out (family C) is a keyword the model constructor is not given."""
    from taurex.cache import OpacityCache
    kw = lambda sel: {k: pyval(v) for k, v in ASM_VALUES[sel].items()}
    form = a.get('chemform', 'plain')
    absent = set(a.get('absent') or ())
    mk = {}
    if 'Chemistry' not in absent:
        if form == 'composite':
            from taurex.mixin import enhance_class
            from taurex.parameter.classfactory import ClassFactory
            mixins = {k.__name__: k for k in ClassFactory().chemistryMixinKlasses}
            chem = enhance_class(classes[a['cls']['chembases'][-1]], [mixins[m] for m in a['cls']['chembases'][:-1]],
                                 gases=['H2', 'He'], filename=files['chemfile'])
        elif form == 'custom':
            chem = MX.load_custom_class('chemistry_duck', files)(base_gas='H2')
        else:
            chem = classes[a['cls']['chem']](fill_gases=['H2', 'He'], ratio=0.2)
        chem.addGas(classes[a['cls']['gas1']](molecule_name='H2O', **kw(a['gas1'])))
        chem.addGas(classes[a['cls']['gas2']](molecule_name='CH4', **kw(a['gas2'])))
        mk['chemistry'] = chem
    if 'Temperature' not in absent:
        mk['temperature_profile'] = classes[a['cls']['temp']](**kw(a['temp']))
    if 'Pressure' not in absent:
        mk['pressure_profile'] = classes[a['cls']['press']](nlayers=30.0, atm_min_pressure=1e-1, atm_max_pressure=1e6)
    if 'Planet' not in absent:
        mk['planet'] = classes['Planet'](planet_mass=1.2, planet_radius=0.9)
    if 'Star' not in absent:
        mk['star'] = classes['BlackbodyStar'](temperature=5500.0, radius=0.8)
    if a['model'] != 'transmission':
        mk['ngauss'] = 3.0
    for k, e in _jmap(a.get('mkeys')).items():
        mk[k] = e['typed']['v'][0] / e['typed']['v'][1]
    model = classes[a['cls']['model']](**mk)
    for c, cn in zip(a['contribs'], a['cls']['contribs']):
        model.add_contribution(classes[cn](**kw(c)))
    if build:
        model.build()
    return model


def check_fitting(ctx, a, par, libmodel, cls, vec):
    """The [Fitting] entries of the file applied by ParameterParser.setup_optimizer to an optimizer on the file-built
    model, against the same entries set through the library (enable_fit / set_mode / set_boundary) on the library-built
    model, and against the specification's reading of each entry (exact rationals)."""
    import math
    from taurex.parameter import ParameterParser
    from taurex.optimizer import Optimizer
    from taurex.data.spectrum.array import ArraySpectrum
    wl = np.linspace(5.5, 20.0, 10)
    obs = ArraySpectrum(np.column_stack([wl, np.full(10, 1e-2), np.full(10, 1e-4)]))

    def state(opt):
        opt.compile_params()
        return dict(names=[c[0] for c in opt.fitting_parameters], bounds=[[float(b[0]), float(b[1])] for b in opt.fit_boundaries], values=[float(x) for x in opt.fit_values])
    try:
        pp = ParameterParser()
        pp.read(par)
        model = pp.generate_appropriate_model()
        model.build()
        o1 = Optimizer('verif-file', observed=obs, model=model)
        pp.setup_optimizer(o1)
        got = state(o1)
    except BaseException as ex:
        ctx.verdict('FittingReachesOptimizer', False, cls=cls, detail='[Fitting] %s could not be applied to the model built from the file: %s: %s' % (
            a['fitting'], type(ex).__name__, ex), vector=vec)
        return
    o2 = Optimizer('verif-lib', observed=obs, model=libmodel)
    for e in a['fitting']:
        (o2.enable_fit if e['fit'] else o2.disable_fit)(e['param'])
        o2.set_boundary(e['param'], [e['lo'][0] / e['lo'][1], e['hi'][0] / e['hi'][1]])
        o2.set_mode(e['param'], e['mode'])
    lib = state(o2)
    ok = got == lib
    for e in a['fitting']:      # the specification's reading of the entry
        lo, hi = e['lo'][0] / e['lo'][1], e['hi'][0] / e['hi'][1]
        want = [math.log10(lo), math.log10(hi)] if e['mode'] == 'log' else [lo, hi]
        if e['fit']:
            ok = ok and e['param'] in got['names'] and got['bounds'][got['names'].index(e['param'])] == want
        else:
            ok = ok and e['param'] not in got['names']
    ctx.verdict('FittingReachesOptimizer', ok, cls=cls, detail='[Fitting] %s: the optimizer on the file-built model fits %s; set through the library: %s' % (
        [(e['param'], e['fit'], e['mode'], e['bounds']) for e in a['fitting']], got, lib), vector=vec)


def run_assemblies(ctx, asms, tmp, classes):
    import h5py
    import taurex.taurex as T
    from taurex.cache import OpacityCache, GlobalCache
    from taurex.binning import FluxBinner, SimpleBinner
    from taurex.log import disableLogging
    xdir = xsec_dir(tmp)
    files = dict(MX.write_custom_files(tmp), chemfile=asm_chem_file(tmp))
    for n, a in enumerate(asms):
        cls = 'asm:%s:%s:%s' % (a['model'], a['temp'], '+'.join(a['contribs']))
        if a.get('chemform', 'plain') != 'plain' or a.get('fitting'):
            cls += ':chem=%s:fit=%s' % (a.get('chemform', 'plain'), a.get('fit', 'none'))
        absent = sorted(a.get('absent') or ())
        inst = a.get('inst', 'none')
        if absent or _jmap(a.get('mkeys')) or inst != 'none':       # family C: presence of sections
            cls = 'asm:%s:no[%s]:mk[%s]:inst=%s' % (a['model'], ','.join(absent), ','.join(sorted(_jmap(a.get('mkeys')))), inst)
        par = os.path.join(tmp, 'asm%d.par' % n)
        h5 = os.path.join(tmp, 'asm%d.h5' % n)
        txt = os.path.join(tmp, 'asm%d.txt' % n)
        with open(par, 'w') as f:
            f.write(asm_par(a, xdir, files))
        OpacityCache().clear_cache()
        argv = sys.argv
        sys.argv = ['taurex', '-i', par, '-o', h5, '-S', txt]
        buf = io.StringIO()
        try:
            with contextlib.redirect_stdout(buf), contextlib.redirect_stderr(buf):
                T.main()
            err = None
        except BaseException as ex:
            err = '%s: %s' % (type(ex).__name__, ex)
        finally:
            sys.argv = argv
            disableLogging()
        vec = dict(a, par=asm_par(a, xdir, files))
        if err:
            ctx.verdict('CLIEqualsLibrary', False, cls=cls, detail='taurex -i/-o/-S failed: ' + err, vector=vec)
            continue
        OpacityCache().clear_cache()
        GlobalCache()['xsec_path'] = xdir
        model = asm_library(a, classes, files)
        wn, spec = model.model()[:2]
        form = a.get('chemform', 'plain')
        with h5py.File(h5, 'r') as f:
            st = f['Output/Spectra']
            h_native = st['native_spectrum'][...]
            h_wn = st['native_wngrid'][...]
            h_binned = st['binned_spectrum'][...] if 'binned_spectrum' in st else None
            h_noise = st['instrument_noise'][...] if 'instrument_noise' in st else None
            rd = lambda k: f[k][()].decode() if k in f else None
            types = dict(model=rd('ModelParameters/model_type'), temp=rd('ModelParameters/Temperature/temperature_type'),
                         chem=rd('ModelParameters/Chemistry/chemistry_type'),
                         gas1=rd('ModelParameters/Chemistry/H2O/gas_type'), gas2=rd('ModelParameters/Chemistry/CH4/gas_type'),
                         press=rd('ModelParameters/Pressure/pressure_type'),
                         contribs=sorted(k for k in f['ModelParameters/Contributions']))
            stored_active = sorted(x.decode() if isinstance(x, bytes) else str(x) for x in np.asarray(f['ModelParameters/Chemistry/active_gases'][...]).ravel()) \
                if 'ModelParameters/Chemistry/active_gases' in f else None
        want = dict({k: a['cls'][k] for k in ('model', 'temp', 'chem', 'gas1', 'gas2', 'press')}, contribs=sorted(a['cls']['contribs']))
        if form != 'plain':         # only the free chemistry stores its gas objects; a composite class has a generated name
            for k in ('gas1', 'gas2') + (('chem',) if form == 'composite' else ()):
                types.pop(k), want.pop(k)
            types['active'], want['active'] = stored_active, sorted(model.chemistry.activeGases)
        for sec, ks in (('Temperature', ('temp',)), ('Pressure', ('press',)), ('Chemistry', ('chem', 'gas1', 'gas2'))):
            if sec in absent:       # the model's own default component: compared through the spectrum
                for k in ks:
                    types.pop(k, None), want.pop(k, None)
        ctx.verdict('ObjectGraph', types == want, cls=cls, detail='file built %s, specification %s' % (types, want), vector=vec)
        ok = h_native.shape == spec.shape and np.array_equal(h_wn, wn) and np.allclose(h_native, spec, rtol=1e-12, atol=0)
        ctx.verdict('CLIEqualsLibrary', ok, cls=cls, detail='stored native spectrum differs from the library-built model: max rel %s' % (
            np.max(np.abs(h_native / spec - 1)) if h_native.shape == spec.shape else 'shape'), vector=vec)
        col = np.loadtxt(txt)
        if inst != 'none':          # [Instrument]: -S holds the instrument's spectrum and its noise (SNR, num_observations)
            ik = {k: e['typed']['v'][0] / e['typed']['v'][1] for k, e in _jmap(a.get('instkeys')).items()}
            nobs = ik.pop('num_observations', 1)
            inso = classes[a["cls"]["inst"]](binner=model.defaultBinner(), **ik)
            e_sp, e_noise = inso.model_noise(model, model_res=model.model(), num_observations=nobs)[1:3]
            ok = col.shape[0] == len(e_sp) and np.allclose(col[:, 1], e_sp, rtol=1e-12, atol=0) and np.allclose(col[:, 2], e_noise, rtol=1e-12, atol=0) \
                and h_noise is not None and np.allclose(h_noise, e_noise, rtol=1e-12, atol=0)
            ctx.verdict('CLIEqualsLibrary', ok, cls=cls + ':instrument', detail='-S spectrum / noise columns (noise %s, stored %s) differ from %s(%s).model_noise(model, num_observations=%s) '
                        'built through the library (noise %s)' % (col[:2, 2] if col.ndim == 2 and col.shape[1] > 2 else None, None if h_noise is None else h_noise[:2],
                                                                  a['cls']['inst'], ik, nobs, e_noise[:2]), vector=vec)
            exp = None
        elif a['binning'] == 'none':
            exp = spec
        else:
            grid = np.linspace(500.0, 1900.0, 8)
            b = (FluxBinner if a['binning'] == 'flux' else SimpleBinner)(grid)
            exp = b.bindown(wn, spec)[1]
        if exp is not None:
            ok = col.shape[0] == len(exp) and np.allclose(col[:, 1], exp, rtol=1e-12, atol=0)
            if h_binned is not None:
                ok = ok and np.allclose(h_binned, exp, rtol=1e-12, atol=0)
            ctx.verdict('CLIEqualsLibrary', ok, cls=cls + ':binned', detail='-S / binned spectrum differs from the library binner on the library model', vector=vec)
        if a.get('fitting'):
            check_fitting(ctx, a, par, model, cls, vec)
        for p in (par, h5, txt):
            if os.path.exists(p):
                os.unlink(p)
    OpacityCache().clear_cache()


# ---------------------------------------------------------------------------- main
def run(ctx):
    q = ctx.tier == 'quick'
    rng = random.Random(ctx.seed * 1009 + 15)
    doc = fx_docs.load()
    try:
        if fx_docs.extract()['entries'] != doc['entries']:
            ctx.note('harness/data/documented_keywords.json differs from a fresh extraction of /repo/doc (re-run python -m harness.fx_docs)')
    except Exception as ex:
        ctx.note('documentation not re-extracted: %s' % ex)
    reg, mix = FX.live_registry()
    entries = FX.doc_entries(doc, reg)
    skipped = [(e['kind'], e['sels'], e['status']) for e in entries if e['status'] not in ('builtin', 'custom')]
    ctx.note('documented selectors outside the quantifier (no implementation in this tree / third-party sampler not installed): %s' % skipped)
    ctx.bounds = dict(tier=ctx.tier, max_keys_per_config=2 if q else 3, values_per_key=2,
                      variants='plain, capitalised selector, unknown key, unknown selector, documented mixin composite, custom file; '
                               'composites of 1..3 mixins (3 plugin mixins per kind + built-in) in every order x 2-3 bases per kind, '
                               'with base-first / two-bases / unknown-mixin / unknown-key variants; '
                               'value grammar: every value keyword of every selectable class x list lengths 0..3 x numbers/strings/mixed '
                               '(scalar spellings on %s); 1..2 sub-sections under plain / composite (<= %d mixins) / custom selectors of '
                               '[Chemistry] and [Model]; presence of sections: every subset of [Temperature] [Pressure] [Chemistry] [Planet] [Star] left out x every '
                               'subset of the [Model] layer keys (%s); parser history: walks of %d calls over 15 generate_* methods + read() on %d files; '
                               '[Binning]: absent / native / observed / manual x 5 grid keys x %d (start, end, n) triples x `accurate` x [Observation] none / 3- / 4-column '
                               'file / self x [Instrument] none / snr'
                               % ('one class per kind' if q else 'every class', 1 if q else 2, 'one model type' if q else 'every model type', 2 if q else 3, 3 if q else 4, 2 if q else 3),
                      hash_seeds=[1, 2] if q else [1, 2, 3, 4])
    ctx.assumptions = ['the committed table harness/data/documented_keywords.json is the documentation (extractor: harness/fx_docs.py)',
                       'constructor arguments are observed by signature-preserving wrappers installed from outside the repository',
                       'a configuration is well-formed for a component iff the library constructor accepts the typed values directly',
                       'TLC + CommunityModules Json']
    mixextra = MX.gen_mix_constants(mix, MX.choose_bases(reg, entries, rot=ctx.seed, per_kind=2 if q else 3),
                                    subs=MX.choose_subs(reg, entries, quick=q), adders=MX.sub_adders(reg, mix))
    sd = make_spec_dir(FX.gen_reg_module(reg, mix, entries, doc, extra=mixextra, val_rot=ctx.seed))
    tmp = tempfile.mkdtemp(prefix='c15_')
    try:
        # 1. resolution table of every documented selector, decided on the generated registry
        res = tlc(ctx, 'resolution-table', 'MC_Factory', 'MC_Factory_res.cfg', sd, workers=1)
        table = res.tagged('RES')
        if not table:
            raise Machinery('no RES table printed')
        waived, waived_keys = set(), set()
        for row in sorted(table[0], key=lambda d: (d['kind'], d['sel'], d['id'])):
            cls = '%s:%s' % (row['kind'], row['sel'])
            ok = len(row['cands']) == 1
            ctx.verdict('UniqueResolution', ok, cls=cls, detail='documented selector %s resolves to %d classes %s' % (
                row['sel'], len(row['cands']), row['cands']), vector=row)
            if not ok:
                waived.add(cls)
                continue
            if row['docclass']:
                ctx.verdict('DocumentedClass', row['cands'] == [row['docclass']], cls=cls, detail='documented class %s, candidates %s' % (
                    row['docclass'], row['cands']), vector=row)
            e = [x for x in entries if x['id'] == row['id']][0]
            if e['by'] == 'value':
                ctx.verdict('CaseFolded', row['capcands'] == row['cands'], cls=cls, detail='capitalised selector resolves to %s' % row['capcands'], vector=row)
            for k in e['keys']:
                miss = k['name'] in row['missing']
                ctx.verdict('DocumentedKeysExist', not miss, cls=cls + ':' + k['name'],
                            detail='documented key %s is not a constructor keyword of %s' % (k['name'], row['cands']), vector=dict(row, key=k['name']))
                if miss:
                    waived_keys.add(cls + ':' + k['name'])
        shutil.rmtree(sd, ignore_errors=True)
        sd = make_spec_dir(FX.gen_reg_module(reg, mix, entries, doc, waived=waived, waived_keys=waived_keys, extra=mixextra, val_rot=ctx.seed))
        # 2. every configuration, design level
        # (one run checks the invariants on every configuration and prints them: EX_ = MC_ + Export)
        r = run_tlc('MC_Factory', 'EX_Factory_%s.cfg' % ctx.tier, spec_dir=sd, coverage=True, workers=1)
        ctx.add_tlc('exhaustive+export', r)
        exh = r
        if r.violated:
            raise Machinery('Factory spec violates %s on the generated registry\n%s' % (r.violated, r.error_trace))
        for a in ('Resolve', 'Create'):
            if r.action_cov.get(a, (0, 0))[1] == 0:
                raise Machinery('vacuous: action %s never taken' % a)
        ctx.exhaustive = True
        # 3. non-vacuity: a registry in which one keyword belongs to two classes must be refuted
        bad = [dict(c) for c in reg]
        victim = [row for row in sorted(table[0], key=lambda d: (d['kind'], d['sel'])) if len(row['cands']) == 1 and
                  ('%s:%s' % (row['kind'], row['sel'])) not in waived and
                  [c for c in reg if c['kind'] == row['kind'] and c['name'] != row['cands'][0]] and row['kind'] != 'prior'][0]
        other = [c for c in bad if c['kind'] == victim['kind'] and c['name'] != victim['cands'][0]][0]
        other['kw'] = sorted(other['kw'] + [victim['sel'].lower() if victim['kind'] != 'contribution' else victim['sel']])
        sd2 = make_spec_dir(FX.gen_reg_module(bad, mix, entries, doc, waived=waived, waived_keys=waived_keys, extra=mixextra))
        try:
            try:
                run_tlc('MC_Factory', 'MC_Factory_res.cfg', spec_dir=sd2, workers=1)
                run_tlc('MC_Factory', 'MC_Factory_quick.cfg', spec_dir=sd2, workers=1)
                refuted = False
            except Machinery as ex:
                refuted = 'UniqueResolution is equal to FALSE' in str(ex)
            if not refuted:
                raise Machinery('non-vacuity: a keyword shared by two classes was not refuted by UniqueResolution')
        finally:
            shutil.rmtree(sd2, ignore_errors=True)
        # 3b. composite selectors with SEVERAL mixins: ordered application (FactoryMix)
        # (one exhaustive run checks the invariants and prints the configurations: EX_ = MC_ + Export)
        mx = ctx.check_spec('mixin-composites+sub-sections', 'FactoryMix', 'EX_FactoryMix_%s.cfg' % ctx.tier, spec_dir=sd, workers=1,
                            need_actions=('Split', 'ResolveMixin', 'Build'))
        ctx.expect_refuted('mixin-order-irrelevant', 'FactoryMix', 'MC_FactoryMix_orderirrelevant_refuted.cfg', 'OrderIrrelevant', spec_dir=sd)
        mixvecs = mx.tagged('MIX')
        if not [m for m in mixvecs if m['variant'] == 'plain' and m['nmix'] >= 2 and m['err'] == 'none']:
            raise Machinery('no composite configuration with two or more mixins exported')
        for kind in ('chemistry', 'model'):
            for form in (lambda m: m['nmix'] == 0 and not m['custom'], lambda m: m['nmix'] >= 1, lambda m: bool(m['custom'])):
                if not [m for m in mixvecs if m['kind'] == kind and form(m) and m['variant'] == 'plain' and len(m['subs']) >= 2 and m['err'] == 'none']:
                    raise Machinery('sub-sections: a selector form (plain / composite / custom) of [%s] was exported without sub-sections' % kind)
        ctx.expect_refuted('subsections-only-under-plain-selectors', 'FactoryMix', 'MC_FactoryMix_subsdropped_refuted.cfg', 'SubsOnlyUnderPlainSelectors', spec_dir=sd)
        for m in mixvecs:
            m['given'] = _jmap(m['given'])
            m['written'] = '+'.join(m['toks'])
        # 3c. the value grammar: every value keyword of every selectable class x list lengths 0..3 x element kinds x scalar spellings
        vr = ctx.check_spec('value-grammar', 'FactoryVal', 'MC_FactoryVal_%s.cfg' % ctx.tier, spec_dir=sd, workers=1, need_actions=('Deliver',))
        ctx.expect_refuted('one-element-list-collapses', 'FactoryVal', 'MC_FactoryVal_collapse_refuted.cfg', 'ListStaysList', spec_dir=sd, workers=4)
        valvecs = [val_vector(v) for v in vr.tagged('VAL')]
        for shape in ('list0empty', 'list1num', 'list1str', 'list2mixed', 'list3num'):
            if not [v for v in valvecs if v['shape'] == shape and not v['custom']] or not [v for v in valvecs if v['shape'] == shape and v['custom']]:
                raise Machinery('value grammar: no built-in / custom configuration of shape %s exported' % shape)
        # 4. binding A: exported configurations through the parser under several hash seeds
        vecs = exh.tagged('VEC')
        if not vecs:
            raise Machinery('no configuration exported')
        for v in vecs:
            v['given'] = v['given'] if isinstance(v['given'], dict) else {}
            v['kwargs'] = v['kwargs'] if isinstance(v['kwargs'], dict) else {}
        vecs = [v for v in vecs if v['kind'] != 'prior']
        # custom-file variants (documented in custom.rst): class from python_file, its keywords become keys
        for kind, given, kwargs in (('temperature', {'base_temp': dict(k='scalar', toks=['1250'])}, {'base_temp': dict(t='float', v=[1250, 1])}),
                                    ('temperature', {}, {}), ('planet', {'ring_size': dict(k='scalar', toks=['0.25'])}, {'ring_size': dict(t='float', v=[1, 4])})):
            for uk in (False, True):
                vecs.append(dict(id=0, kind=kind, by='value', sel='custom', variant='unknownkey' if uk else 'custom', written='custom',
                                 given=given, unknownkey=uk, err='error' if uk else 'none', cls='', kwargs=kwargs, custom=True))
        resolve = sorted({(row['kind'], row['sel']) for row in table[0] if row['kind'] in
                          ('temperature', 'pressure', 'chemistry', 'gas', 'star', 'planet', 'model', 'optimizer', 'instrument')})
        seeds = ctx.bounds['hash_seeds']
        nplain = len(vecs)
        vecs = vecs + valvecs
        out = run_workers(vecs, [list(x) for x in resolve], seeds, mix=mixvecs)
        defaults = class_defaults()
        orders = set()
        for s in seeds:
            o = out[s]
            orders.add(json.dumps(o['order'], sort_keys=True))
            cand = {(row['kind'], row['sel']): row['cands'] for row in table[0]}
            for kind, sel, got in o['resolved']:
                c = cand[(kind, sel)]
                ctx.verdict('UniqueResolution', len(c) == 1 and got == c[0], cls='%s:%s' % (kind, sel),
                            detail='factory resolved %r under PYTHONHASHSEED=%s, candidates %s' % (got, s, c), vector=dict(kind=kind, sel=sel, hashseed=s))
            for v, r in zip(vecs, o['results']):
                if v.get('val'):
                    judge_val(ctx, v, r, s, defaults)
                elif v.get('custom'):
                    judge_custom(ctx, v, r, s)
                else:
                    judge_vector(ctx, v, r, s, defaults)
            if len(o.get('mixresults', [])) != len(mixvecs):
                raise Machinery('worker returned %d composite results for %d configurations' % (len(o.get('mixresults', [])), len(mixvecs)))
            for v, r in zip(mixvecs, o['mixresults']):
                judge_mix(ctx, v, r, s)
            ctx.traces += len(vecs) + len(mixvecs)
        ctx.note('%d composite configurations with 1..3 mixins (plugin mixins registered through ClassFactory.load_plugin) x %d hash seeds' % (len(mixvecs), len(seeds)))
        subres = [(v, r) for v, r in zip(mixvecs, out[seeds[0]]['mixresults']) if v['subs'] and v['variant'] == 'plain']
        ninit = sum(1 for v, r in subres if 'init_err' in (r.get('graph') or {}))
        ctx.note('%d configurations with 1..2 sub-sections under plain / composite / custom selectors of [Chemistry] and [Model] compared as object graphs with '
                 'the library-built component (%d of them: the chemistry refuses to initialise on both sides alike)' % (len(subres), ninit))
        if subres and ninit * 2 > len(subres):
            raise Machinery('sub-section graphs: most chemistries do not initialise (%d of %d): the comparison is vacuous' % (ninit, len(subres)))
        ctx.note('%d configurations x %d hash seeds; %d distinct class-set iteration orders observed' % (nplain, len(seeds), len(orders)))
        ctx.note('%d value-grammar configurations (one key x one raw value: list lengths 0..3 x numbers / strings / mixed, scalar spellings) x %d hash seeds' % (
            len(valvecs), len(seeds)))
        nill = sum(1 for r in out[seeds[0]]['results'][:nplain] if r['direct'] not in ('ok', None))
        ctx.note('%d configurations are ill-formed for their component (library constructor rejects the typed values); only argument delivery is compared there' % nill)
        ctx.add_sample(dict(configuration=vecs[len(vecs) // 2]))
        # 5. hard-wired sections
        side_checks(ctx, doc, tmp)
        # 5b. the parser as a long-lived object: generate_* calls in any order, repeated, after read() of another file (FactoryParser)
        hr = ctx.check_spec('parser-history', 'FactoryParser', 'MC_FactoryParser_%s.cfg' % ctx.tier, workers=4, need_actions=('Gen', 'Read'))
        # (the two expected-counterexample variants run while the walks are replayed)
        from concurrent.futures import ThreadPoolExecutor
        with ThreadPoolExecutor(2) as pool:
            refuted = [pool.submit(ctx.expect_refuted, 'parser-consumes-live-config', 'FactoryParser', 'MC_FactoryParser_consuming_refuted.cfg',
                                   'GenerateEqualsFresh', workers=1),
                       pool.submit(ctx.expect_refuted, 'parser-prebuilds-absent-section', 'FactoryParser', 'MC_FactoryParser_prebuild_refuted.cfg',
                                   'AbsentSectionIsDefaultArgument', workers=1)]
            walks, hfiles = hr.tagged('WALK'), hr.tagged('FILES')
            if not walks or not hfiles:
                raise Machinery('parser history: no walks / files exported')
            nw, nc = PZ.run_history(ctx, walks, hfiles[0], tmp, xsec_dir(tmp), 110 if q else 1500, random.Random(ctx.seed * 1009 + 151))
            for fu in refuted:
                fu.result()
        ctx.note('%d of %d TLC-generated walks on one long-lived ParameterParser (%d generate_* calls, each compared with a fresh parser of the same file; '
                 'the parser configuration compared with the file as read after every step)' % (nw, len(walks), nc))
        # 5c. the [Binning] section x [Observation] x [Instrument]: the resampling in force and its grid (FactoryBin)
        br = ctx.check_spec('binning-section', 'FactoryBin', 'MC_FactoryBin_%s.cfg' % ctx.tier, workers=1, need_actions=('Select', 'Build'))
        with ThreadPoolExecutor(2) as pool:     # (the two expected-counterexample variants run while the configurations are replayed)
            refuted = [pool.submit(ctx.expect_refuted, 'binning-observation-overrides-native', 'FactoryBin', 'MC_FactoryBin_obsoverrides_refuted.cfg',
                                   'WrittenBinTypeWins', workers=1),
                       pool.submit(ctx.expect_refuted, 'binning-wavelength-grid-linear-in-wavenumber', 'FactoryBin', 'MC_FactoryBin_linearinwn_refuted.cfg',
                                   'GridAsDocumented', workers=1)]
            binvecs = br.tagged('BIN')
            if not [v for v in binvecs if v['bt'] == 'native' and v['obs'].startswith('file')] or {v['key'] for v in binvecs if v['bt'] == 'manual'} != set(BS_KEYS):
                raise Machinery('binning section: the exported configurations do not cover native x observation / every grid key')
            nbp, nbc, bmodel = BS.run(ctx, binvecs, tmp, xsec_dir(tmp), q)
            for fu in refuted:
                fu.result()
        ctx.note('%d [Binning] configurations: %d manual ones through ParameterParser.generate_binning() (class, grid = the exact documented grid at %g, resampled values = the '
                 'library resampler on that grid), %d through taurex.taurex.main() on a %s model (-S and Output/Spectra = the library model resampled as the specification says, 1e-12)'
                 % (len(binvecs), nbp, BS.GRID_RTOL, nbc, bmodel))
        # 6. assembled models through the CLI
        ar = tlc(ctx, 'assemblies', 'FactoryAsm', 'FactoryAsm.cfg', sd, workers=1)
        asms = ar.tagged('ASM')
        if not asms:
            raise Machinery('no assembly exported')
        asms = [a for a in asms if all(a['cls'][k] for k in ('temp', 'gas1', 'gas2', 'model', 'chem', 'press')) and all(a['cls']['contribs'])]
        asms = sorted({json.dumps(a, sort_keys=True): a for a in asms}.items())
        asms = [a for _, a in asms]
        rng.shuffle(asms)
        for a in asms:
            a['mkeys'], a['instkeys'] = _jmap(a['mkeys']), _jmap(a['instkeys'])
        isC = lambda a: bool(a['absent'] or a['mkeys'] or a['inst'] != 'none')
        famC = [a for a in asms if isC(a)]
        famB = [a for a in asms if a['fit'] != 'none' and not isC(a)]
        asms = [a for a in asms if a['fit'] == 'none' and not isC(a)]
        pickn = 6 if q else 40
        # make sure every model type and every temperature / gas selector appears
        chosen, seen = [], set()
        for a in asms:
            feats = {('m', a['model']), ('t', a['temp']), ('g', a['gas1']), ('g', a['gas2']), ('b', a['binning'])} | {('c', c) for c in a['contribs']}
            if not feats <= seen or len(chosen) < pickn:
                if len(chosen) < pickn or not feats <= seen:
                    chosen.append(a)
                    seen |= feats
            if len(chosen) >= pickn and len(seen) >= 14:
                break
        from taurex.parameter.classfactory import ClassFactory
        cf = ClassFactory()
        classes = {k.__name__: k for attr in FX.KIND_ATTR.values() for k in getattr(cf, attr)}
        chosen = chosen[:max(pickn, 10 if q else 40)]
        # family B: every form of the [Chemistry] selector (plain / composite / custom) x both [Fitting] sections
        formsB, seenB = [], set()
        for a in famB:
            key = (a['chemform'], a['fit']) if q else (a['chemform'], a['fit'], a['model'], a['gas1'])
            if key not in seenB:
                seenB.add(key)
                formsB.append(a)
        if {a['chemform'] for a in formsB} != {'plain', 'composite', 'custom'}:
            raise Machinery('assemblies: not every form of the [Chemistry] selector was exported: %s' % sorted({a['chemform'] for a in formsB}))
        # family C: the presence of sections.  Every file in-process (recorded model constructor call, pressure grid, model = library),
        # a few through the command-line program
        cmodels = sorted({a['model'] for a in famC})
        sect = [a for a in famC if a['inst'] == 'none' and (not q or a['model'] == cmodels[ctx.seed % len(cmodels)])]
        if not [a for a in sect if 'Pressure' in a['absent'] and 'nlayers' in a['mkeys']] or not [a for a in sect if len(a['absent']) == 5]:
            if not ctx.has_violations():        # (selectors that do not resolve are violations of their own)
                raise Machinery('assemblies: family C (presence of sections) was not exported in full')
        files = dict(MX.write_custom_files(tmp), chemfile=asm_chem_file(tmp))
        from taurex.cache import GlobalCache
        GlobalCache()['xsec_path'] = xsec_dir(tmp)
        nsect = PZ.run_sections(ctx, sect, tmp, xsec_dir(tmp), classes, files, asm_par, asm_library, typed_matches)
        picksC = []
        for pred in (lambda a: 'Pressure' in a['absent'] and 'nlayers' in a['mkeys'] and a['inst'] == 'none',
                     lambda a: 'Chemistry' in a['absent'] and a['inst'] == 'none',
                     lambda a: a['inst'] != 'none' and a['absent']):
            picksC += [a for a in famC if pred(a) and a not in picksC][:1 if q else 4]
        if len(picksC) < 3 and not ctx.has_violations():
            raise Machinery('assemblies: family C offers no file for the command-line program')
        run_assemblies(ctx, chosen + formsB + picksC, tmp, classes)
        ctx.note('%d assembled models (+ %d over the forms of the [Chemistry] selector x [Fitting] sections, + %d with sections left out / an [Instrument] section) '
                 'run through taurex.taurex.main() and compared with the library-built model (1e-12); %d files over the presence of sections x [Model] layer keys '
                 'compared in-process (model constructor call, pressure grid, model = library)' % (len(chosen), len(formsB), len(picksC), nsect))
    finally:
        shutil.rmtree(sd, ignore_errors=True)
        shutil.rmtree(tmp, ignore_errors=True)


def judge_custom(ctx, v, r, seed):
    cls = '%s:custom:%s' % (v['kind'], 'unknownkey' if v['unknownkey'] else 'plain')
    vec = dict(v, hashseed=seed)
    if v['unknownkey']:
        ctx.verdict('UnknownKeyIsError', r['err'] != 'none', cls=cls, detail='unknown key accepted by custom class: %s' % r.get('cls'), vector=vec)
        return
    want = {'temperature': 'RandomTemperature', 'planet': 'MyPlanet'}[v['kind']]
    ctx.verdict('ResolvesToSpecClass', r['err'] == 'none' and r.get('cls') == want, cls=cls,
                detail='custom file built %s (%s %s)' % (r.get('cls'), r['err'], r.get('msg')), vector=vec)
    attr = {'base_temp': '_base_temp', 'ring_size': '_ring_size'}
    for k, tv in v['kwargs'].items():
        got = (r.get('attrs') or {}).get(attr[k])
        ctx.verdict('KeysReachCtor', got is not None and typed_matches(tv, got, v['kind'], k, {}), cls=cls + ':' + k,
                    detail='custom class attribute %s = %r' % (attr[k], got), vector=vec)


def replay(ctx, violations):
    """Re-run the stored configurations (hash seed of the stored vector) / assemblies."""
    from taurex.parameter.classfactory import ClassFactory
    defaults = class_defaults()
    tmp = tempfile.mkdtemp(prefix='c15r_')
    try:
        doc = fx_docs.load()
        reg, mix = FX.live_registry()
        cands = {}
        for c in reg:
            for k in c['kw']:
                cands.setdefault((c['kind'], k), []).append(c['name'])
        for viol in violations:
            v = viol['vector'] or {}
            if v.get('binroute'):       # a [Binning] configuration through the parser / the program
                import pickle
                xd = xsec_dir(tmp)
                if v['binroute'] == 'parser':
                    with open(os.path.join(xd, 'H2O.pickle'), 'rb') as f:
                        BS.run_parser_route(ctx, [v], tmp, np.asarray(pickle.load(f)['wno'], dtype=float))
                else:
                    BS.run_cli_route(ctx, [v], tmp, xd, ctx.seed, model=v.get('model'))
            elif v.get('sections') or 'history' in v:       # presence of sections in-process / a walk on one long-lived parser
                cf = ClassFactory()
                classes = {k.__name__: k for attr in FX.KIND_ATTR.values() for k in getattr(cf, attr)}
                if v.get('sections'):
                    from taurex.cache import GlobalCache
                    GlobalCache()['xsec_path'] = xsec_dir(tmp)
                    PZ.run_sections(ctx, [v], tmp, xsec_dir(tmp), classes, dict(MX.write_custom_files(tmp), chemfile=asm_chem_file(tmp)),
                                    asm_par, asm_library, typed_matches)
                else:
                    hr = run_tlc('FactoryParser', 'MC_FactoryParser_quick.cfg', workers=4)
                    PZ.run_history(ctx, hr.tagged('WALK'), hr.tagged('FILES')[0], tmp, xsec_dir(tmp), 110, random.Random(ctx.seed * 1009 + 151))
                    break
            elif 'par' in v and 'model' in v and 'contribs' in v:      # an assembly (value-grammar vectors name their key `par` too)
                cf = ClassFactory()
                classes = {k.__name__: k for attr in FX.KIND_ATTR.values() for k in getattr(cf, attr)}
                run_assemblies(ctx, [v], tmp, classes)
            elif v.get('mix'):
                s = v.get('hashseed', 1)
                out = run_workers([], [], [s], mix=[v])
                judge_mix(ctx, v, out[s]['mixresults'][0], s)
            elif 'variant' in v and 'given' in v:
                s = v.get('hashseed', 1)
                out = run_workers([v], [], [s])
                r = out[s]['results'][0]
                if v.get('val'):
                    judge_val(ctx, v, r, s, defaults)
                else:
                    (judge_custom if v.get('custom') else judge_vector)(ctx, v, r, s, *(() if v.get('custom') else (defaults,)))
            elif 'cands' in v or ('kind' in v and 'sel' in v):
                kind, sel = v['kind'], v['sel']
                c = cands.get((kind, sel.lower() if kind != 'contribution' else sel), [])
                if viol['clause'] == 'DocumentedKeysExist':
                    names = [x for x in reg if x['name'] in c]
                    ctx.verdict(viol['clause'], bool(names) and v.get('key') in names[0]['params'], cls=viol['cls'], detail='constructor keywords %s' % (names and names[0]['params']), vector=v)
                else:
                    ctx.verdict(viol['clause'], len(c) == 1, cls=viol['cls'], detail='candidates now %s' % c, vector=v)
            else:
                side_checks(ctx, doc, tmp)
                break
    finally:
        shutil.rmtree(tmp, ignore_errors=True)
