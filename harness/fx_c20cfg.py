"""C20 under every EVALUATION CONFIGURATION (binding A of the configuration dimension of spec/KTableHistory.tla).

TLC exports the alphabet (EX_KTableHistory_cfg.cfg): every class of temperature position x pressure position
(on a node / between nodes / below / above the table) x interpolation scheme (linear | exp) x route through which the
scheme reaches the table objects (GlobalCache key, OpacityCache.set_interpolation, constructor argument,
set_interpolation_mode on loaded objects) x further global keys both families read (memory mode, de-activated
molecules), with what the specification says about it: `twin` (the k-table twin evaluated under c equals the cross-
section twin evaluated under the same c) and `schemefree` (the scheme cannot enter: on nodes and outside the table).
Every exported class is realised
  * on table objects of BOTH containers (PickleKTable / PickleOpacity files, HDF5KTable / HDF5Opacity files), loaded
    from ktable_path / xsec_path through KTableCache / OpacityCache, at representatives of the (T, P) class (interior
    node, first and last node, two positions between nodes, outside) on the full grid, a native run and between
    native points, and
  * in forward models of both families, one twin pair (a model constructed under `ktables`, one under `xsec`) per
    class (layer temperatures on nodes / between nodes / partly below / partly above the table, non-isothermal;
    atmosphere inside / beyond the pressure range of the table; set of active molecules), evaluated under every
    configuration on the tables that configuration's route has loaded,
and every evaluation is logged as a `twin` event validated by TLC (spec/Trace_KTable.tla).  Non-vacuity: where the
specification says the scheme enters (T between nodes) the cross-section twin under `exp` must differ from `linear`.
Nothing here computes an expected value with the function under test."""
import numpy as np

from . import fx_c20hist as fh
from .core import Machinery

CLAUSE = 'twin_under_configuration'
NLAYERS = 6
# layer temperatures (surface first) relative to the nodes 300, 900, 1500, 2400 K of fh.coefficients
T_PROFILES = {'node': [1500.0, 1500.0, 900.0, 900.0, 300.0, 300.0],
              'between': [1400.0, 1234.5, 1000.0, 850.0, 640.0, 410.0],
              'below': [700.0, 600.0, 450.0, 320.0, 250.0, 150.0],
              'above': [3000.0, 2600.0, 2400.0, 2000.0, 1600.0, 1000.0]}
# atmosphere inside / beyond the pressure range 1e1 .. 1e6 Pa of the tables
P_RANGES = {'inside': (1e1, 1e6), 'beyond': (1e-1, 1e7)}


def reps(nodes, cls):
    """representatives of a position class relative to the (ascending) nodes of a table axis"""
    n = [float(v) for v in nodes]
    if cls == 'node':
        return [n[1], n[0], n[-1]]
    if cls == 'between':
        return [0.4425 * n[1] + 0.5575 * n[2], 0.1 * n[-2] + 0.9 * n[-1]]
    if cls == 'below':
        return [0.4 * n[0]]
    if cls == 'above':
        return [1.3 * n[-1]]
    raise Machinery('unknown position class %r' % cls)


def p_of(pcls):
    return 'inside' if pcls in ('node', 'between') else 'beyond'


class Sweep:
    def __init__(self, ctx, root, log, thorough):
        self.ctx, self.log, self.thorough = ctx, log, thorough
        un = fh.uniform_native()
        coarse = fh.uniform_native(n=21, start=650.0, step=190.0)
        self.sets = {'pickle': fh.TableSet(root, 10, {'H2O': un, 'CH4': coarse}, [0.05, 0.15, 0.3, 0.5], 0.0),
                     'hdf5': fh.TableSet(root, 11, {'H2O': un, 'CH4': coarse}, [0.25, 0.25, 0.5], 0.0, container='hdf5')}
        self.windows = [fh.FULL, fh.run_of(un, 7, 9), fh.between(un, 12, 8)]
        self.kinds = ['transmission', 'emission'] + (['direct'] if thorough else [])
        self.effect = {}          # (level, ..class..) -> {interp: cross-section result}: does the scheme enter?
        self.done = dict(table=0, model=0)
        self.seen = set()
        self.models = {}

    # ---- table objects
    def table_vectors(self, container, c, vs, loaded=None):
        ts = self.sets[container]
        ktabs, xops = loaded or fh.establish(ts, c)
        kt, xo = ktabs['H2O'], xops['H2O']
        fh.use_paths(ts, 'ktables', c)
        for v in vs:
            vec = dict(v, config='table', container=container)
            cls = 'config:table:%s:%r:T-%s:P-%s' % (container, c, v['t'], v['p'])
            worst, n = None, 0
            try:
                for T in reps(ts.tnodes, v['t']):
                    for P in reps(ts.pnodes, v['p']):
                        win = self.windows[n % len(self.windows)]
                        n += 1
                        grid = None if win.grid is None else np.array(win.grid)
                        k, x = kt.opacity(T, P, grid), xo.opacity(T, P, None if grid is None else np.array(grid))
                        nreq = len(ts.grids['H2O']) if grid is None else len(grid)
                        ev = fh.table_twin_event(ts, k, x, nreq, c)
                        if worst is None or ev['dev'] > worst[0]['dev'] or ev['nk'] != ev['nx']:
                            worst = (ev, 'T=%g P=%g %s: k-table %r vs cross-section %r'
                                     % (T, P, win.label, np.asarray(k)[:2].tolist(), np.asarray(x)[:3].tolist()))
                        if c.route == 'global' and c.extra == 'none':
                            self.effect.setdefault(('table', container, v['t'], v['p'], T, P, win.label), {})[c.interp] = np.array(x, dtype=float)
            except Exception as ex:
                self.log.code_raised(ex, cls, vec)
                continue
            ev, detail = worst
            self.log.add(dict(ev, _clause=CLAUSE), cls, 'under %r: %s' % (c, detail), vec)
            self.done['table'] += 1
            self.seen.add((container, c.interp, c.route, v['t']))

    # ---- forward models
    def build(self, kind, ts, mode, c, tcls, prange):
        from taurex.model import EmissionModel, DirectImageModel, TransmissionModel
        from taurex.chemistry import TaurexChemistry, ConstantGas
        from taurex.data.profiles.temperature.temparray import TemperatureArray
        from taurex.contributions import AbsorptionContribution
        from taurex.planet import Planet
        from taurex.stellar import BlackbodyStar
        fh.use_paths(ts, mode, c)
        chem = TaurexChemistry(fill_gases=['H2', 'He'], ratio=0.17)
        chem.addGas(ConstantGas('H2O', 2e-4))
        chem.addGas(ConstantGas('CH4', 5e-5))
        lo, hi = P_RANGES[prange]
        kw = dict(planet=Planet(planet_mass=1.0, planet_radius=1.0), star=BlackbodyStar(temperature=5500.0, radius=0.9),
                  chemistry=chem, temperature_profile=TemperatureArray(tp_array=list(T_PROFILES[tcls])),
                  nlayers=NLAYERS, atm_min_pressure=lo, atm_max_pressure=hi)
        if kind == 'emission':
            m = EmissionModel(ngauss=3, **kw)
        elif kind == 'direct':
            m = DirectImageModel(ngauss=2, **kw)
        else:
            m = TransmissionModel(**kw)
        m.add_contribution(AbsorptionContribution())
        m.build()
        return m

    def twins(self, container, kind, c, tcls, prange):
        """the twin pair of models of a class: constructed once (caches empty, default scheme), under the set of active
        molecules of the configuration"""
        key = (container, kind, tcls, prange, c.extra == 'deactive')
        if key not in self.models:
            fh.install({}, {})
            c0 = fh.Cfg('linear', 'global', 'deactive' if c.extra == 'deactive' else 'none')
            self.models[key] = (self.build(kind, self.sets[container], 'ktables', c0, tcls, prange),
                                self.build(kind, self.sets[container], 'xsec', c0, tcls, prange))
        return self.models[key]

    def model_vector(self, container, kind, c, v, index, loaded=None):
        ts = self.sets[container]
        prange = p_of(v['p'])
        vec = dict(v, config='model', container=container, kind=kind, index=index)
        cls = 'config:%s:%s:%r:T-%s:P-%s' % (kind, container, c, v['t'], prange)
        grid = None if index % 2 else np.linspace(1030.0, 3970.0, 13)
        try:
            km, xm = self.twins(container, kind, c, v['t'], prange)
            ktabs, xops = loaded or fh.establish(ts, c)
            fh.install(ktabs, xops)
            try:
                fh.use_paths(ts, 'ktables', c)
                rk = km.model(wngrid=grid)
                fh.use_paths(ts, 'xsec', c)
                rx = xm.model(wngrid=grid)
            finally:
                fh.install({}, {})
            temps = np.asarray(km.temperatureProfile, dtype=float)
            if not np.array_equal(temps, np.array(T_PROFILES[v['t']])):
                raise Machinery('the model does not carry the layer temperatures of class %r: %r' % (v['t'], temps.tolist()))
            if sorted(km.chemistry.activeGases) != sorted(xm.chemistry.activeGases):
                self.ctx.verdict(CLAUSE, False, cls=cls, vector=vec,
                                 detail='active gases differ between the twins: %r vs %r' % (km.chemistry.activeGases, xm.chemistry.activeGases))
                return
        except Exception as ex:
            self.log.code_raised(ex, cls, vec)
            return
        out = fh.model_twin(self.log, kind, NLAYERS, ts, ktabs, rk, rx, xm, c, cls, 'models of the class under %r' % c, vec, clause=CLAUSE)
        if c.route == 'global' and c.extra == 'none':
            self.effect.setdefault(('model', container, kind, v['t'], prange), {})[c.interp] = out['x']
        self.done['model'] += 1
        self.seen.add((container, c.interp, c.route, v['t']))

    # ---- the whole alphabet
    def run(self, vecs):
        groups = {}
        for v in vecs:
            if not (v['twin'] is True and v['schemefree'] == (v['t'] != 'between')):
                raise Machinery('unexpected content of an exported configuration class: %r' % v)
            groups.setdefault((v['interp'], v['route'], v['extra']), []).append(v)
        index = 0
        for key, vs in sorted(groups.items()):
            c = fh.Cfg(*key)
            if not self.thorough and c.extra != 'none' and c.interp != 'exp':
                continue          # quick: the further global keys are combined with the non-default scheme only
            for container in sorted(self.sets):
                loaded = fh.establish(self.sets[container], c)          # once: through the route of the configuration
                if c.extra != 'deactive':          # one molecule: nothing to de-activate at the level of a table object
                    self.table_vectors(container, c, vs, loaded)
                done = set()
                for v in vs:
                    mk = (v['t'], p_of(v['p']))
                    if mk in done or (not self.thorough and c.extra != 'none' and v['t'] != 'between'):
                        continue
                    done.add(mk)
                    for kind in self.kinds:
                        index += 1
                        self.model_vector(container, kind, c, v, index, loaded)
        fh.clear_config()

    def self_check(self):
        """the alphabet is realised: every container x scheme x route x temperature class evaluated; where the
        specification says the scheme enters the value (T between nodes) it does, in the cross-section twin"""
        missing = [(co, i, r, t) for co in self.sets for i in fh.INTERPS for r in fh.ROUTES for t in T_PROFILES
                   if (co, i, r, t) not in self.seen]
        if missing:
            raise Machinery('configuration classes not realised: %r' % missing[:6])
        entered = {}
        for key, by in self.effect.items():
            if len(by) < 2 or key[3 if key[0] == 'model' else 2] != 'between':
                continue
            a, b = by['linear'], by['exp']
            d = float(np.max(np.abs(a - b) / np.maximum(np.abs(a), 1e-300))) if a.shape == b.shape else 1.0
            entered[key[:2]] = max(entered.get(key[:2], 0.0), d)
        for level in ('table', 'model'):
            for co in self.sets:
                if entered.get((level, co), 0.0) < 1e-6:
                    raise Machinery('the interpolation scheme does not enter the %s results of the %s cross-sections between '
                                    'temperature nodes: the configuration alphabet is vacuous (%r)' % (level, co, entered))


def run(ctx, vecs, root, log, thorough, check=True):
    sw = Sweep(ctx, root, log, thorough)
    try:
        sw.run(vecs)
    finally:
        fh.install({}, {})
        fh.clear_config()
    if check and not ctx.has_violations():
        sw.self_check()
    return sw


def replay(ctx, vecs, root, log):
    """re-drive saved configuration vectors (table and model level)"""
    sw = Sweep(ctx, root, log, True)
    try:
        for v in vecs:
            c = fh.Cfg(v['interp'], v['route'], v['extra'])
            if v['config'] == 'table':
                sw.table_vectors(v['container'], c, [v])
            else:
                sw.model_vector(v['container'], v['kind'], c, v, v.get('index', 1))
    finally:
        fh.install({}, {})
        fh.clear_config()
    return sw
