"""Fixtures for C06 (strengthening after seeded changes, second round; no file of /repo is touched).

The forward model's native grid is MUCH WIDER than the observation, so that what Optimizer.chisq_trans hands to the
binner -- model(wngrid = observation centres), i.e. the native grid clipped by SimpleForwardModel.model /
clip_native_to_wngrid -- matters.

 * GridToy: a real SimpleForwardModel subclass (its real model(), including the clip) whose path_integral returns
   the exact linear toy of spec/MC_LikeGrid.tla, f_i(a) = c0[i] + a c1[i], on whatever native points it is handed;
   native grid = lattice of the specification mapped to cm-1 by wn = WN0 + WNSTEP * x (dyadic: exact floats)
 * wide real world: a real TransmissionModel (CO2 + CO over fixture opacities on a constant-R native grid
   0.3 - 25 micron) and observation layouts given in wavelength, as real ArraySpectrum files are:
   constant resolving power over 0.4 - 10 micron (widths growing 25x end to end), the same with gaps, a narrow
   spectrograph plus a few very broad photometric bins, two instruments of different resolving power
 * overlap_mean(): the independent definition "binned to the observation's bins" -- overlap-weighted mean of the
   native bins (centred on the native points, mid-point widths) on the FULL native grid, math.fsum
"""
import math

import numpy as np

WN0 = 1000.0
WNSTEP = 4.0


def lattice_wn(x):
    return WN0 + WNSTEP * np.asarray(x, dtype=float)


def grid_toy_class():
    from taurex.model.simplemodel import SimpleForwardModel

    class GridToy(SimpleForwardModel):
        """SimpleForwardModel.model() does everything (profiles, clip of the native grid, star, contributions);
        only the path integral is the toy's."""

        def __init__(self, nat, c0, c1, a0=2.0):
            from taurex.chemistry import TaurexChemistry
            super().__init__('GridToy', nlayers=3, atm_min_pressure=1e-1, atm_max_pressure=1e6,
                             chemistry=TaurexChemistry(fill_gases=['H2', 'He'], ratio=0.17))
            self._nat = lattice_wn(nat)
            self._c0 = np.asarray(c0, dtype=float)
            self._c1 = np.asarray(c1, dtype=float)
            self.a = float(a0)
            self.handed = None           # the native points of the last evaluation

        @property
        def nativeWavenumberGrid(self):
            return self._nat

        def build(self):
            super().build()

            def fget():
                return self.a

            def fset(value):
                self.a = value
            self._fitting_parameters['a'] = ('a', 'a', fget, fset, 'linear', False, (0.0, 4.0))

        def path_integral(self, wngrid, return_contrib):
            idx = np.searchsorted(self._nat, wngrid)
            if not np.array_equal(self._nat[idx], wngrid):
                raise RuntimeError('GridToy was handed points that are not native points')
            self.handed = np.array(wngrid)
            return self._c0[idx] + self.a * self._c1[idx], np.zeros((3, len(idx)))

    return GridToy


def make_grid_toy(nat, c0, c1):
    m = grid_toy_class()(nat, c0, c1)
    m.build()
    return m


# ----------------------------------------------------------------------------------------------
# the independent definition of "binned to the observation's bins"
# ----------------------------------------------------------------------------------------------

def native_bins(wn):
    """Native bins: centred on the native points, as wide as the distance between the mid-points to the neighbours
    (first / last: the distance to the only neighbour) -- Grid.tla GMidW2 / GWt."""
    wn = np.asarray(wn, dtype=float)
    w = np.empty_like(wn)
    w[1:-1] = (wn[2:] - wn[:-2]) / 2.0
    w[0] = wn[1] - wn[0]
    w[-1] = wn[-1] - wn[-2]
    return wn - w / 2.0, wn + w / 2.0


def overlap_mean(wn, flux, lo, hi):
    """Overlap-weighted mean of the native bins in every bin [lo_j, hi_j]; NaN where nothing overlaps."""
    order = np.argsort(wn)
    wn = np.asarray(wn, dtype=float)[order]
    flux = np.asarray(flux, dtype=float)[order]
    nlo, nhi = native_bins(wn)
    out = []
    for a, b in zip(lo, hi):
        ov = np.minimum(nhi, b) - np.maximum(nlo, a)
        sel = ov > 0
        if not sel.any():
            out.append(float('nan'))
            continue
        den = math.fsum(ov[sel])
        out.append(math.fsum(ov[sel] * flux[sel]) / den)
    return np.array(out)


# ----------------------------------------------------------------------------------------------
# wide real world
# ----------------------------------------------------------------------------------------------

WIDE_WN = np.sort(10000.0 / np.geomspace(0.3, 25.0, 800))        # constant resolving power ~ 180, 400 - 33333 cm-1


def register_wide_opacities():
    """CO2 and CO on the wide grid (H2O / CH4 of fx_retrieval stay on their narrow grid)."""
    from taurex.cache import OpacityCache
    from .fixtures import GridOpacity
    T = [200.0, 1000.0, 3000.0]
    P = [1e-2, 1e2, 1e6]
    lw = np.log(WIDE_WN)
    s1 = 1.6 + np.sin(lw * 7.0) ** 2 + 0.5 * np.sin(lw * 31.0)
    s2 = 1.6 + np.cos(lw * 5.0) ** 2 + 0.5 * np.cos(lw * 23.0)
    tfac = np.array([0.7, 1.0, 1.6])[None, :, None]
    n = len(WIDE_WN)
    OpacityCache().add_opacity(GridOpacity('CO2', WIDE_WN, T, P, np.ones((3, 3, n)) * 3e-22 * s1[None, None, :] * tfac))
    OpacityCache().add_opacity(GridOpacity('CO', WIDE_WN, T, P, np.ones((3, 3, n)) * 2e-22 * s2[None, None, :] * tfac))


def make_wide_transmission(nlayers=8):
    from taurex.model import TransmissionModel
    from taurex.chemistry import TaurexChemistry, ConstantGas
    from taurex.temperature import Isothermal
    from taurex.planet import Planet
    from taurex.stellar import BlackbodyStar
    from taurex.contributions import AbsorptionContribution
    chem = TaurexChemistry(fill_gases=['H2', 'He'], ratio=0.17)
    chem.addGas(ConstantGas('CO2', 1e-4))
    chem.addGas(ConstantGas('CO', 1e-5))
    tm = TransmissionModel(planet=Planet(planet_mass=1.0, planet_radius=1.0), star=BlackbodyStar(5000.0, 1.0),
                           chemistry=chem, temperature_profile=Isothermal(1000.0), nlayers=nlayers,
                           atm_min_pressure=1e-1, atm_max_pressure=1e6)
    tm.add_contribution(AbsorptionContribution())
    tm.build()
    return tm


def _const_r_edges(r, w0, w1):
    e = [w0]
    while e[-1] * (1.0 + 1.0 / r) <= w1 * (1.0 + 0.5 / r):
        e.append(e[-1] * (1.0 + 1.0 / r))
    return np.array(e)


LAYOUT_CLASSES = ('constR', 'constR-gaps', 'photometric', 'two-instruments')


def wide_layout(rng, cls):
    """Bins in WAVELENGTH (micron): arrays (centre, width) of non-overlapping bins, as an observer would tabulate them."""
    if cls in ('constR', 'constR-gaps'):
        r = rng.choice([8.0, 12.0, 20.0])
        e = _const_r_edges(r, rng.choice([0.4, 0.5, 0.6]), rng.choice([8.0, 10.0, 12.0]))
        lo, hi = e[:-1], e[1:]
        if cls == 'constR-gaps':
            keep = np.ones(len(lo), dtype=bool)
            for _ in range(rng.randint(1, 3)):
                k = rng.randint(1, len(lo) - 4)
                keep[k:k + rng.randint(1, 3)] = False
            lo, hi = lo[keep], hi[keep]
    elif cls == 'photometric':
        e = _const_r_edges(rng.choice([30.0, 45.0]), 1.1, 1.7)
        lo, hi = list(e[:-1]), list(e[1:])
        bands = [(0.43, 0.89), (3.2, 4.0), (4.0, 5.0), (6.5, 9.4)]         # very broad filters next to the narrow bins
        for b in rng.sample(bands, rng.randint(1, 3)):
            lo.append(b[0])
            hi.append(b[1])
        lo, hi = np.array(lo), np.array(hi)
    else:
        e1 = _const_r_edges(rng.choice([30.0, 40.0]), rng.choice([0.8, 1.0]), 2.0)
        e2 = _const_r_edges(rng.choice([5.0, 7.0]), rng.choice([2.0, 2.6]), 11.0)
        lo = np.concatenate([e1[:-1], e2[:-1]])
        hi = np.concatenate([e1[1:], e2[1:]])
    return (lo + hi) / 2.0, hi - lo


def overlapping_layout():
    """A layout OUTSIDE the clip window of the code (not judged; see the report): two broad, overlapping
    photometric bands (0.43-0.89 and 0.6-1.0 micron)."""
    lo = np.array([0.43, 0.6])
    hi = np.array([0.89, 1.0])
    return (lo + hi) / 2.0, hi - lo
