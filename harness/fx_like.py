"""Extra fixtures for C06 / C08 (strengthening after seeded changes; no file of /repo is touched).

 * toy world "mixed" of spec/MC_Likelihood.tla: priors given through set_prior that live in the OTHER space
   than the parameter's mode (LogUniform on a linear-mode parameter, Uniform on a log-mode one)
 * NaNToyModel: the ToyModel of fx_retrieval with two more fault classes -- the forward model returns
   without raising but with NaN in every native point ("NaNAll") or in the native points of the spec's
   NaNBins only ("NaNSome")
 * NaNContribution: the same two fault classes for a real TransmissionModel (a contribution that adds NaN
   optical depth at all / some wavenumbers when armed)
 * ModeModel: a ForwardModel with one linear-mode and one log-mode parameter that records what its setters
   receive (delivery of update_model through priors of either space)
"""
import numpy as np

from . import fx_retrieval as fx

# same world as MC_Likelihood.tla, Layout = "mixed"
MIXED = dict(names=['a', 'b', 'c'], fit=[True, True, False], mode=['linear', 'log', 'linear'],
             lo=[0, 0, 0], hi=[8, 2, 0], val0=[1, 1, 12],
             coef=[[1, 2, 3, 4], [1, 0, 0, 1], [1, 1, 0, 0]], data=[28, 36], sig=[2, 3],
             user={'a': ('log', 0, 2), 'b': ('lin', 0, 48)})
fx.TOY.setdefault('mixed', MIXED)
NAN_NATIVE = {'NaNAll': [0, 1, 2, 3], 'NaNSome': [0, 1]}       # MCNaNBins = {1}: native points 1, 2 of bin 1


def make_toy(layout):
    base = fx._toy_model_class()

    class NaNToyModel(base):
        def model(self, wngrid=None, cutoff_grid=True):
            if self.inject in NAN_NATIVE:
                k, self.inject = self.inject, None
                self.model_calls += 1
                native = np.array(self.values, dtype=float) @ self.coef
                native[NAN_NATIVE[k]] = np.nan
                return fx.TOY_NATIVE_WN.copy(), native, None, None
            return super().model(wngrid=wngrid, cutoff_grid=cutoff_grid)

    return NaNToyModel(layout)


def install_user_priors(opt, layout):
    """set_prior for the parameters of the toy world that have a user prior (space may differ from the mode)."""
    from taurex.core.priors import Uniform, LogUniform
    for name, (space, lo, hi) in fx.TOY[layout].get('user', {}).items():
        opt.set_prior(name, (LogUniform if space == 'log' else Uniform)(bounds=[float(lo), float(hi)]))


def nan_contribution_class():
    from taurex.contributions import Contribution

    class NaNContribution(Contribution):
        """Contributes nothing unless armed; armed = 'NaNAll' | 'NaNSome' | 'raise': NaN optical depth at every /
        the upper half of the wavenumbers (no exception), or InvalidModelException."""

        def __init__(self):
            super().__init__('NaNFault')
            self.armed = None

        def prepare_each(self, model, wngrid):
            return iter(())

        def prepare(self, model, wngrid):
            from taurex.exceptions import InvalidModelException
            if self.armed == 'raise':
                self.armed = None
                raise InvalidModelException('injected fault')
            super().prepare(model, wngrid)

        def contribute(self, model, start_layer, end_layer, density_offset, layer, density, tau, path_length=None):
            if self.armed in ('NaNAll', 'NaNSome'):
                n = tau.shape[-1]
                sl = slice(0, n) if self.armed == 'NaNAll' else slice(n // 2, n)
                tau[layer, sl] = np.nan

    return NaNContribution


def mode_model(bounds_lin=(1.0, 100.0), bounds_log=(1e-6, 1e-1)):
    """A real ForwardModel subclass with a linear-mode parameter 'plin' and a log-mode parameter 'plog';
    received[name] is the list of values its setter was handed."""
    from taurex.model import ForwardModel

    class ModeModel(ForwardModel):
        def __init__(self):
            super().__init__('ModeModel')
            self.values = {'plin': 10.0, 'plog': 1e-3}
            self.received = {'plin': [], 'plog': []}
            for name, mode, b in (('plin', 'linear', bounds_lin), ('plog', 'log', bounds_log)):
                def fget(name=name):
                    return self.values[name]

                def fset(value, name=name):
                    self.values[name] = value
                    self.received[name].append(value)
                self._fitting_parameters[name] = (name, name, fget, fset, mode, False, tuple(b))

        def build(self):
            pass

        def initialize_profiles(self):
            pass

        def model(self, wngrid=None, cutoff_grid=True):
            return fx.TOY_NATIVE_WN.copy(), np.ones(4), None, None

    return ModeModel()
