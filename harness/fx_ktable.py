"""Fixtures for forward models in correlated-k mode and for long-lived forward models evaluated on
several spectral windows (C02 / C20 strengthening):
 * KAtmos: a model built directly under opacity_method='ktables' on pickle k-table files written by the
   harness (exact per-layer coefficients);
 * WindowScenario: history.Scenario over one long-lived Emission / DirectImage / Transmission model whose
   settings (spectral window passed to model(wngrid=..), star temperature, temperature-profile parameter,
   k-table set, planet radius) change between evaluations.  Every object owns the k-table objects it has
   loaded (swapped in and out of the KTableCache singleton through its public API), so that building the
   fresh reference object never resets what the long-lived object has loaded.
Nothing here computes an expected value with the function under test."""
import os

import numpy as np

from . import fx_emission as fx
from . import history
from .core import Machinery
from .fixtures import GridOpacity

MOL = 'H2O'


def mode_only(mode, ktable_path=None):
    """Switch the global opacity mode WITHOUT emptying any cache (fx.set_mode empties KTableCache)."""
    from taurex.cache import GlobalCache
    gc = GlobalCache()
    if ktable_path is not None:
        gc['ktable_path'] = ktable_path
    gc['opacity_method'] = mode


class KAtmos:
    """One model (emission / direct / transmission) constructed and evaluated in k-table mode over a fixed
    T-profile; the pickle table in `directory` carries per-layer coefficients sigma[l][w][g] on a pressure grid
    made of the model's own layer pressures (so that interpolation is the identity)."""

    def __init__(self, directory, kind, temps, wn, ng, **kw):
        self.dir = directory
        self.wn = [float(x) for x in wn]
        self.ng = ng
        # provisional table (the chemistry decides which gases are active when it is constructed)
        fx.write_pickle_ktable(directory, MOL, self.wn, [50.0, 20000.0], [1.0, 2.0],
                               np.zeros((2, 2, len(self.wn), ng)), [1.0 / ng] * ng)
        fx.set_mode('ktables', directory)
        self.a = fx.Atmos(kind, temps, wn, register=False, **kw)
        self.model = self.a.model
        self.grey = self.a.grey
        self.press = np.asarray(self.model.pressureProfile, dtype=float)
        self.cu = self.a.column_unit()
        self.mix = self.a.mixprof

    def write(self, kk_ln2, weights):
        """kk[l][w][g]: vertical optical depth of the molecular absorber in ln 2 units."""
        kk = np.asarray(kk_ln2, dtype=float)
        sigma = kk * fx.LN2 / (self.cu * self.mix)[:, None, None]
        pg, tg, k = fx.ktable_arrays(self.press, sigma, kk.shape[2])
        fx.write_pickle_ktable(self.dir, MOL, self.wn, tg, pg, k, weights)
        fx.set_mode('ktables', self.dir)          # a new file: the cache must be emptied

    def set_grey(self, c_ln2):
        if self.grey is not None:
            self.a.set_grey_tau(c_ln2)


# ----------------------------------------------------------------------------
# long-lived models over spectral windows
# ----------------------------------------------------------------------------

def linear_native(n=48, start=500.0, step=100.0):
    return start + step * np.arange(n)


def smooth_table(native, npress=4, ntemp=3, ng=None, seed=0, spread=0.0):
    """Band-like coefficients [P, T, wn(, g)] in cm^2 spanning transparent to opaque columns; with ng and
    spread > 0 the values differ across the quadrature points (non-degenerate)."""
    rs = np.random.RandomState(1000 + seed)
    press = np.logspace(1, 6, npress)                    # Pa
    temps = np.linspace(200.0, 3200.0, ntemp)
    band = 10 ** (-24.5 + 3.5 * np.sin(native / (230.0 + 40.0 * seed)) ** 2 + 0.3 * rs.uniform(-1, 1, native.shape[0]))
    x = band[None, None, :] * (1.0 + 0.5 * np.arange(npress)[:, None, None]) * (1.0 + 0.3 * np.arange(ntemp)[None, :, None])
    if ng is None:
        return press, temps, x
    k = np.repeat(x[..., None], ng, axis=-1)
    if spread > 0:
        k = k * 10 ** (spread * (np.linspace(0.0, 1.0, ng) - 0.5))[None, None, None, :]
    return press, temps, k


class KSet:
    """One directory with one pickle k-table (+ the same numbers as cross-sections when degenerate)."""

    def __init__(self, root, idx, native, weights, spread):
        self.path = os.path.join(root, 'set%d' % idx)
        os.makedirs(self.path)
        self.idx = idx
        self.weights = [float(w) for w in weights]
        self.degenerate = spread == 0
        press, temps, k = smooth_table(native, ng=len(weights), seed=idx, spread=spread)
        fx.write_pickle_ktable(self.path, MOL, native, temps, press, k, self.weights)
        self.xsec = (press, temps, k[..., 0]) if self.degenerate else None

    def __repr__(self):
        return 'kset%d(ng=%d,%s)' % (self.idx, len(self.weights), 'degenerate' if self.degenerate else 'generic')


class Holder:
    """A model together with its current configuration and the opacity / k-table objects it uses: every
    object owns them (installed in the cache singletons for its own evaluations only)."""

    def __init__(self, model, cfg, op=None):
        self.model = model
        self.cfg = dict(cfg)
        self.op = op              # cross-section mode: the Opacity object registered for this model
        self.tables = None        # k-table mode: the table object this model has loaded (None: nothing loaded yet)

    win = property(lambda s: s.cfg['window'])
    kset = property(lambda s: s.cfg['kset'])


class Window:
    """A requested grid (a run of native points); repr is what the evidence shows."""

    def __init__(self, native, start, npts):
        self.grid = None if start is None else np.array(native[start:start + npts], dtype=float)
        self.label = 'native' if start is None else 'win[%g..%g]x%d' % (self.grid[0], self.grid[-1], npts)

    def __repr__(self):
        return self.label


class WindowScenario(history.Scenario):
    """settings: list of names among 'window', 'star_T', 'T', 'kset', 'planet_radius' (<= 3)."""
    NLAYERS = 6

    def __init__(self, name, kind, mode, settings, *, native=None, windows=(3, 19, 35), npts=6, ksets=None,
                 star_T=(4000.0, 5200.0, 6500.0), T=(800.0, 1300.0, 1900.0), radius=(0.8, 1.0, 1.3),
                 tprofile='npoint', native_as_third=False, ctx=None, twin_clause=None):
        self.name = name
        self.kind, self.mode, self.settings = kind, mode, list(settings)
        self.native = linear_native() if native is None else native
        self.windows = [Window(self.native, s, npts) for s in windows]
        if native_as_third:
            self.windows[2] = Window(self.native, None, npts)
        self.ksets = ksets or []
        self.tprofile = tprofile
        self.ctx, self.twin_clause = ctx, twin_clause
        self.defaults = dict(window=self.windows[0], star_T=star_T[1], T=T[1], kset=(self.ksets[0] if self.ksets else None),
                             planet_radius=radius[1])
        vals = dict(window=self.windows, star_T=list(star_T), T=list(T), kset=list(self.ksets), planet_radius=list(radius))
        self.dims = [vals[s] for s in self.settings]
        self.clip_sizes = {}
        self.twin_skipped = 0
        self._xref = {}
        press, temps, x = smooth_table(self.native, seed=7)
        self.xop = (press, temps, x)

    # -- construction
    def _cfg(self, values):
        c = dict(self.defaults)
        c.update(dict(zip(self.settings, values)))
        return c

    def _build(self, c, mode):
        """-> Holder (a new model, its own opacity object)"""
        from taurex.cache import OpacityCache
        from taurex.model import EmissionModel, DirectImageModel, TransmissionModel
        from taurex.chemistry import TaurexChemistry, ConstantGas
        from taurex.temperature import NPoint, Isothermal
        from taurex.contributions import AbsorptionContribution
        from taurex.planet import Planet
        from taurex.stellar import BlackbodyStar
        op = None
        if mode == 'ktables':
            mode_only('ktables', c['kset'].path)
        else:
            mode_only('xsec')
            OpacityCache().clear_cache()
            p, t, x = c['kset'].xsec if c['kset'] is not None else self.xop
            op = GridOpacity(MOL, self.native, t, p, x)
            OpacityCache().add_opacity(op)
        chem = TaurexChemistry(fill_gases=['H2', 'He'], ratio=0.17)
        chem.addGas(ConstantGas(MOL, 2e-4))
        tp = Isothermal(T=c['T']) if self.tprofile == 'iso' else NPoint(T_surface=c['T'], T_top=0.55 * self.defaults['T'])
        kw = dict(planet=Planet(planet_mass=1.0, planet_radius=c['planet_radius']),
                  star=BlackbodyStar(temperature=c['star_T'], radius=0.9, distance=12.0), chemistry=chem,
                  temperature_profile=tp, nlayers=self.NLAYERS, atm_min_pressure=1e1, atm_max_pressure=1e6)
        if self.kind == 'emission':
            m = EmissionModel(ngauss=3, **kw)
        elif self.kind == 'direct':
            m = DirectImageModel(ngauss=2, **kw)
        else:
            m = TransmissionModel(**kw)
        m.add_contribution(AbsorptionContribution())
        m.build()
        return Holder(m, c, op)

    def fresh(self, values):
        c = self._cfg(values)
        if self.mode == 'ktables':
            from taurex.cache.ktablecache import KTableCache
            mode_only('ktables', c['kset'].path)
            KTableCache().clear_cache()
        return self._build(c, self.mode)

    # -- one setting changed through the public API
    def set(self, h, d, value, values):
        s = self.settings[d]
        h.cfg[s] = value
        if s == 'window':
            pass                          # an argument of model(wngrid=..)
        elif s == 'star_T':
            h.model.star.temperature = value
        elif s == 'T':
            h.model['T' if self.tprofile == 'iso' else 'T_surface'] = value
        elif s == 'planet_radius':
            h.model['planet_radius'] = value
        elif s == 'kset':                 # another directory of tables: new path, cache emptied
            h.tables = None

    # -- evaluation
    def _evaluate(self, h):
        g, y, _, _ = h.model.model(wngrid=h.win.grid)
        return np.array(g, dtype=float), np.array(y, dtype=float)

    def observe(self, h):
        if self.mode == 'ktables':
            from taurex.cache.ktablecache import KTableCache
            kc = KTableCache()
            mode_only('ktables', h.kset.path)
            kc.clear_cache()
            if h.tables is not None:
                kc.add_opacity(h.tables)          # what this object had loaded at its previous evaluation
            try:
                g, y = self._evaluate(h)
            finally:
                try:
                    h.tables = kc[MOL]
                except Exception:
                    h.tables = None
                kc.clear_cache()
        else:
            from taurex.cache import OpacityCache
            mode_only('xsec')
            OpacityCache().clear_cache()
            OpacityCache().add_opacity(h.op)
            g, y = self._evaluate(h)
        if h.win.grid is not None:
            self.clip_sizes[h.win.label] = len(g)
        if self.twin_clause and self.mode == 'ktables' and h.kset.degenerate:
            self._twin(h, g, y)
        return dict(grid=g, spectrum=y)

    def _twin(self, h, g, y):
        """the statement of C20 on this evaluation: a degenerate table gives the cross-section spectrum of the
        same numbers (reference: a freshly built cross-section model evaluated once per configuration)."""
        key = tuple(repr(h.cfg[k]) for k in sorted(h.cfg))
        if key not in self._xref:
            x = self._build(h.cfg, 'xsec')
            gx, yx, _, _ = x.model.model(wngrid=h.win.grid)
            clamp_possible = False
            if self.kind != 'transmission':
                # the cross-section emission branch zeroes transmittances once the optical depth is >= 10 at EVERY
                # wavenumber of the evaluated grid (licensed); the k-table branch does not: no claim in that case
                xm = x.model
                col = np.sum(np.asarray(xm.contribution_list[0].sigma_xsec) *
                             (np.asarray(xm.densityProfile) * np.asarray(xm.deltaz))[:, None], axis=0)
                clamp_possible = bool(col.min() >= 10.0 - 1e-6)
            self._xref[key] = (np.array(gx), np.array(yx), clamp_possible)
            mode_only('ktables', h.kset.path)
        gx, yx, clamp_possible = self._xref[key]
        if clamp_possible:
            self.twin_skipped += 1
            return
        ok = gx.shape == g.shape and np.allclose(gx, g, rtol=1e-12) and np.allclose(y, yx, rtol=1e-9, atol=0.0)
        self.ctx.verdict(self.twin_clause, bool(ok), cls='%s:%r:%s' % (self.name, h.kset, h.win.label),
                         detail='k-table %r vs cross-section %r on %r' % (y[:4].tolist(), yx[:4].tolist(), h.win),
                         vector=dict(history=self.name, window=h.win.label, kset=repr(h.kset)))

    def require_equal_windows(self):
        if len(set(self.clip_sizes.values())) > 1:
            raise Machinery('%s: the windows do not clip to equally many native points: %r' % (self.name, self.clip_sizes))
        if 'window' in self.settings and len(self.clip_sizes) < 2:
            raise Machinery('%s: fewer than two windows were evaluated' % self.name)
