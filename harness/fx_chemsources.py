"""Source of the opacity data (C10; spec/MC_ChemistrySources.tla, operator AvailableFrom of spec/Chemistry.tla).

A vector SRC exported by TLC names the molecules whose files lie in the cross-section directory (dir), the molecules whose
opacity objects are registered by hand (hand), how (route: OpacityCache().add_opacity | load_opacity(opacities=[..])) and
when (order: before | after the directory is set), and the split of the declared gases the specification expects.  The
binding sets the real OpacityCache up exactly so, builds a TaurexChemistry with the declared gases and compares the split,
the rows of the active / inactive profiles, and that the cache really serves every molecule counted as available.
Nothing here computes an expected value.
"""
import os

import numpy as np

from .core import Machinery
from .fixtures import GridOpacity
from .fx_files import write_pickle_opacity

WN = [100.0, 200.0]
TG = [100.0, 5000.0]
PG = [1e-4, 1e8]


def _hand(nm):
    return GridOpacity(nm, WN, TG, PG, np.ones((2, 2, 2)) * 1e-22)


def _directory(tmp, mols, made):
    key = '+'.join(sorted(mols)) or 'empty'
    if key not in made:
        d = os.path.join(tmp, 'xsec_' + key)
        os.makedirs(d)
        for m in mols:
            write_pickle_opacity(d, '%s.R100.TauREx' % m, WN, TG, PG, np.ones((2, 2, 2)) * 1e-22)
        made[key] = d
    return made[key]


def run_source_vector(ctx, v, tmp, made, clause='active_split_by_source'):
    from taurex.cache import OpacityCache, GlobalCache
    from taurex.data.profiles.chemistry.taurexchemistry import TaurexChemistry
    from taurex.data.profiles.chemistry.gas.constantgas import ConstantGas
    cache = OpacityCache()
    cache.clear_cache()
    GlobalCache()['xsec_path'] = None
    # an empty `dir`: no directory set at all, or (when something is registered by hand) a directory without files
    nopath = not v['dir'] and (not v['hand'] or v['route'] == 'add_opacity')
    cls = 'source=%s:%s:%s%s' % (v['source'], v['route'], v['order'], ':nopath' if nopath else '')
    vec = dict(v, kind='sources')
    ok = lambda cl, cond, detail='': ctx.verdict(cl, bool(cond), cls=cls, detail=detail, vector=vec)

    def set_path():
        if not nopath:
            cache.set_opacity_path(_directory(tmp, v['dir'], made))

    def register():
        ops = [_hand(m) for m in v['hand']]
        if not ops:
            return
        if v['route'] == 'add_opacity':
            for o in ops:
                cache.add_opacity(o)
        else:
            cache.load_opacity(opacities=ops)
    try:
        for step in ((register, set_path) if v['order'] == 'hand_first' else (set_path, register)):
            step()
        fills, traces = v['gases'][:2], v['gases'][2:]
        chem = TaurexChemistry(fill_gases=fills, ratio=0.25)
        for k, g in enumerate(traces):
            chem.addGas(ConstantGas(g, mix_ratio=(k + 1) * 1e-3))
        chem.initialize_chemistry(3, np.full(3, 1000.0), np.logspace(5, 1, 3), None)
        act, ina = list(chem.activeGases), list(chem.inactiveGases)
        mix = np.asarray(chem.mixProfile, dtype=float)
        am, im = chem.activeGasMixProfile, chem.inactiveGasMixProfile
    except Machinery:
        raise
    except Exception as e:      # noqa -- a set-up inside the quantifier refused by the implementation is a verdict
        ok(clause, False, '%s: %s' % (type(e).__name__, str(e)[:100]))
        return
    ok(clause, act == v['active'] and ina == v['inactive'],
       'directory %r + by hand %r: active %r inactive %r, expected %r / %r' % (v['dir'], v['hand'], act, ina, v['active'], v['inactive']))
    names = list(chem.gases)
    good = mix.shape == (len(names), 3)
    for lst, prof in ((act, am), (ina, im)):
        if not lst:             # no gas on this side: no rows (None / an empty array)
            good = good and (prof is None or len(prof) == 0)
            continue
        prof = np.asarray(prof, dtype=float)
        good = good and prof.shape == (len(lst), 3)
        for k, g in enumerate(lst):
            good = good and g in names and prof.shape[0] > k and np.array_equal(prof[k], mix[names.index(g)])
    ok('active_split_profiles', good, 'active / inactive mix profiles are not the rows of mixProfile for %r / %r' % (act, ina))
    # availability itself: the cache serves exactly the molecules the specification counts as available
    served = []
    for g in v['gases']:
        try:
            o = cache[g]
            if o is not None and o.moleculeName == g:
                served.append(g)
        except Exception:       # noqa -- no opacity data for g
            pass
    ok('availability_is_what_the_cache_serves', served == v['active'], 'cache serves %r, specification %r' % (served, v['active']))


def run_source_vectors(ctx, vecs, tmp):
    from taurex.cache import GlobalCache
    from .fixtures import reset_caches
    made = {}
    old = GlobalCache()['xsec_path']
    try:
        for v in vecs:
            run_source_vector(ctx, v, tmp, made)
    finally:
        reset_caches()
        GlobalCache()['xsec_path'] = old
    return len(vecs)
