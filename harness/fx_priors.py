"""Fixture for C08 (end-to-end delivery of prior transforms through the optimizer).

A real ForwardModel subclass whose fitting parameters are declared with the public @fitparam decorator,
one per parameter kind of spec/Priors.tla (ParamKinds):

   plin  declared default_mode='linear'                       (like planet_radius, T)
   plog  declared default_mode='log'                          (like the mixing ratios)
   pl2g  declared linear, switched by set_mode(.., 'log')     ("X:mode = log" in an input file)
   pg2l  declared log,    switched by set_mode(.., 'linear')
   idle  declared linear, never fitted (sits between the others in the parameter table)

Every setter records what it is handed: `received[name]` is what reaches the model.  Nothing here decides
anything: the module builds objects and records calls.

Owners (spec/Priors.tla: Owners): a fitted parameter may live on the observation as well.  RecordingObservation is a
real BaseSpectrum subclass that declares the same five kinds of parameters with @fitparam (olin, olog, ol2g, og2l,
oidle -- like the offset / scale parameters of observation plugins) and records what its setters are handed.
`fresh_owners()` gives an optimizer over a RecordingModel and a RecordingObservation; PARAM[(owner, kind)] names the
parameter.  FlatObservation (no fitting parameters at all) stays the observation of `fresh()`.
"""
import os
import tempfile

import numpy as np

KIND_PARAM = {'lin': 'plin', 'log': 'plog', 'lin2log': 'pl2g', 'log2lin': 'pg2l'}
DECLARED = {'plin': 'linear', 'plog': 'log', 'pl2g': 'linear', 'pg2l': 'log', 'idle': 'linear'}
SWITCH = {'pl2g': 'log', 'pg2l': 'linear', 'ol2g': 'log', 'og2l': 'linear'}
OBS_KIND_PARAM = {'lin': 'olin', 'log': 'olog', 'lin2log': 'ol2g', 'log2lin': 'og2l'}
PARAM = dict([(('model', k), v) for k, v in KIND_PARAM.items()] + [(('observation', k), v) for k, v in OBS_KIND_PARAM.items()])
DECLARED.update({'olin': 'linear', 'olog': 'log', 'ol2g': 'linear', 'og2l': 'log', 'oidle': 'linear'})

_CLASSES = {}


def _classes():
    if _CLASSES:
        return _CLASSES
    from taurex.model import ForwardModel
    from taurex.core import fitparam
    from taurex.spectrum import BaseSpectrum

    class RecordingModel(ForwardModel):
        def __init__(self):
            super().__init__('RecordingModel')
            self.values = {'plin': 10.0, 'plog': 1e-3, 'pl2g': 2.0, 'pg2l': 1e-2, 'idle': 7.0}
            self.received = {k: [] for k in self.values}
            self._x = np.linspace(1.0, 100.0, 8)

        def _set(self, name, value):
            self.values[name] = value
            self.received[name].append(value)

        @fitparam(param_name='plin', param_latex='plin', default_mode='linear', default_fit=False, default_bounds=[1.0, 50.0])
        def plin(self):
            return self.values['plin']

        @plin.setter
        def plin(self, value):
            self._set('plin', value)

        @fitparam(param_name='plog', param_latex='plog', default_mode='log', default_fit=False, default_bounds=[1e-8, 1e-1])
        def plog(self):
            return self.values['plog']

        @plog.setter
        def plog(self, value):
            self._set('plog', value)

        @fitparam(param_name='pl2g', param_latex='pl2g', default_mode='linear', default_fit=False, default_bounds=[0.1, 10.0])
        def pl2g(self):
            return self.values['pl2g']

        @pl2g.setter
        def pl2g(self, value):
            self._set('pl2g', value)

        @fitparam(param_name='pg2l', param_latex='pg2l', default_mode='log', default_fit=False, default_bounds=[1e-4, 1.0])
        def pg2l(self):
            return self.values['pg2l']

        @pg2l.setter
        def pg2l(self, value):
            self._set('pg2l', value)

        @fitparam(param_name='idle', param_latex='idle', default_mode='linear', default_fit=False, default_bounds=[0.0, 10.0])
        def idle(self):
            return self.values['idle']

        @idle.setter
        def idle(self, value):
            self._set('idle', value)

        def build(self):
            pass

        def initialize_profiles(self):
            pass

        def model(self, wngrid=None, cutoff_grid=True):
            return self._x, np.ones_like(self._x), None, None

    class FlatObservation(BaseSpectrum):
        def __init__(self):
            super().__init__('FlatObservation')
            self._x = np.linspace(1.0, 100.0, 8)

        def create_binner(self):
            from taurex.binning import NativeBinner
            return NativeBinner()

        @property
        def spectrum(self):
            return np.ones_like(self._x)

        @property
        def wavenumberGrid(self):
            return self._x

        @property
        def errorBar(self):
            return np.full_like(self._x, 0.1)

    class RecordingObservation(FlatObservation):
        """An observed spectrum with fitting parameters of its own (declared like any Fittable's)."""

        def __init__(self):
            super().__init__()
            self.values = {'olin': 3.0, 'olog': 1e-2, 'ol2g': 5.0, 'og2l': 1e-1, 'oidle': 0.5}
            self.received = {k: [] for k in self.values}

        def _set(self, name, value):
            self.values[name] = value
            self.received[name].append(value)

        @property
        def spectrum(self):
            return np.ones_like(self._x) + self.values['oidle'] * 0.0

        @fitparam(param_name='olin', param_latex='olin', default_mode='linear', default_fit=False, default_bounds=[0.5, 20.0])
        def olin(self):
            return self.values['olin']

        @olin.setter
        def olin(self, value):
            self._set('olin', value)

        @fitparam(param_name='oidle', param_latex='oidle', default_mode='linear', default_fit=False, default_bounds=[0.0, 1.0])
        def oidle(self):
            return self.values['oidle']

        @oidle.setter
        def oidle(self, value):
            self._set('oidle', value)

        @fitparam(param_name='olog', param_latex='olog', default_mode='log', default_fit=False, default_bounds=[1e-6, 1e2])
        def olog(self):
            return self.values['olog']

        @olog.setter
        def olog(self, value):
            self._set('olog', value)

        @fitparam(param_name='ol2g', param_latex='ol2g', default_mode='linear', default_fit=False, default_bounds=[0.2, 30.0])
        def ol2g(self):
            return self.values['ol2g']

        @ol2g.setter
        def ol2g(self, value):
            self._set('ol2g', value)

        @fitparam(param_name='og2l', param_latex='og2l', default_mode='log', default_fit=False, default_bounds=[1e-3, 10.0])
        def og2l(self):
            return self.values['og2l']

        @og2l.setter
        def og2l(self, value):
            self._set('og2l', value)

    _CLASSES.update(model=RecordingModel, obs=FlatObservation, recobs=RecordingObservation)
    return _CLASSES


def fresh():
    """(optimizer, model): a base Optimizer over a fresh RecordingModel; nothing fitted yet."""
    import logging
    from taurex.optimizer import Optimizer
    logging.disable(logging.CRITICAL)
    c = _classes()
    m = c['model']()
    return Optimizer('c08', observed=c['obs'](), model=m), m


def fresh_owners():
    """(optimizer, {'model': RecordingModel, 'observation': RecordingObservation}); nothing fitted yet."""
    import logging
    from taurex.optimizer import Optimizer
    logging.disable(logging.CRITICAL)
    c = _classes()
    owners = {'model': c['model'](), 'observation': c['recobs']()}
    return Optimizer('c08', observed=owners['observation'], model=owners['model']), owners


def setup_by_calls(opt, items):
    """items: list of dict(param, mode_switch or None, route, prior=<object or None>, text=<str or None>,
    bounds=<(lo, hi) or None>) applied through the optimizer's public setters."""
    from taurex.parameter.factory import create_prior
    for it in items:
        opt.enable_fit(it['param'])
        if it.get('mode_switch'):
            opt.set_mode(it['param'], it['mode_switch'])
        if it.get('bounds_obj') is not None:          # the caller's own container, handed over as it is
            opt.set_boundary(it['param'], it['bounds_obj'])
        elif it.get('bounds') is not None:
            opt.set_boundary(it['param'], list(it['bounds']))
        if it['route'] == 'set_prior':
            opt.set_prior(it['param'], it['prior'])
        elif it['route'] == 'text':
            opt.set_prior(it['param'], create_prior(it['text']))


def apply_fitting_lines(opt, lines):
    """A [Fitting] section made of `lines` ("name:key = value"), read and applied by ParameterParser.setup_optimizer."""
    from taurex.parameter import ParameterParser
    fd, path = tempfile.mkstemp(prefix='verifpar_', suffix='.par')
    try:
        with os.fdopen(fd, 'w') as f:
            f.write('\n'.join(['[Fitting]'] + list(lines)) + '\n')
        pp = ParameterParser()
        pp.read(path)
        pp.setup_optimizer(opt)
    finally:
        os.unlink(path)


def setup_by_file(opt, items):
    """The same set-up written as the [Fitting] section of an input file and applied by ParameterParser."""
    from taurex.parameter import ParameterParser
    lines = ['[Fitting]']
    for it in items:
        lines.append('%s:fit = True' % it['param'])
        if it.get('mode_switch'):
            lines.append('%s:mode = %s' % (it['param'], it['mode_switch']))
        if it.get('bounds') is not None:
            lines.append('%s:bounds = %r, %r' % (it['param'], it['bounds'][0], it['bounds'][1]))
        if it.get('text'):
            lines.append('%s:prior = "%s"' % (it['param'], it['text']))
    fd, path = tempfile.mkstemp(prefix='verifpar_', suffix='.par')
    try:
        with os.fdopen(fd, 'w') as f:
            f.write('\n'.join(lines) + '\n')
        pp = ParameterParser()
        pp.read(path)
        pp.setup_optimizer(opt)
    finally:
        os.unlink(path)
    return '\n'.join(lines)
