"""Histories of CALLS on long-lived caller arrays and binners (spec/BinCalls.tla, spec/MC_BinCalls.tla) -- C05.

TLC owns the alphabet (target bins, native grids on an integer lattice, spectrum / optical-depth rows / noise, the
stored order of the caller's arrays), the table of operations with what the statement requires for each (exact
rationals, computed from the values the caller SUPPLIED), every sequence of calls it explores and -- per sequence -- which
design mutants (variances formed in place, arguments sorted in place, constructor sorting the caller's centres in place,
results returned as views of one buffer) it exposes.  This module maps the lattice to cm-1 (dyadic unit), keeps ONE set
of caller arrays and ONE long-lived binner per sequence, replays the calls on the real binners and reports per call
   calls_result          a returned value is not the specification's
   calls_args_untouched  an array the caller handed over (to this or an earlier call, or to a constructor) changed
   calls_earlier_kept    something an earlier call returned changed afterwards
Nothing here computes an expected value with the code under test.
"""
import numpy as np

from .core import Machinery, frac

REL = 1e-12
MUTANTS = {'flux': ('sqinplace', 'sortargs', 'sortctor', 'outbuffer'), 'simple': ('sortargs',), 'native': ()}
UNITS = ((0.0, 1.0), (64.0, 0.5), (1000.0, 0.25), (8.0, 2.0))


def opkey(op):
    return (op['b'], int(op['g']), op['how'], op['wm'], bool(op['err']), int(op['dim']), op['api'])


def opname(op):
    if op['api'] == 'bin_model':
        what = 'bin_model'
    else:
        what = '%s%s' % (op['wm'], '+err' if op['err'] else '')
    return '%s/%s/G%d/%s/%dd' % (op['b'], op['how'], op['g'], what, op['dim'])


class Alphabet:
    """one COPS row: the alphabet and the operation table of one kind of binner and one stored order"""

    def __init__(self, row, lat):
        self.kind, self.ord = row['kind'], row['ord']
        self.lat = lat
        x0, u = lat
        self.tc = np.array([x0 + u * (lo + hi) / 2.0 for lo, hi in row['tb']])
        self.tw = np.array([u * float(hi - lo) for lo, hi in row['tb']])
        self.grids = []
        for g in row['grids']:
            sp = np.array(g['sp']) - 1
            bins = g['bins']
            c = np.array([x0 + u * (lo + hi) / 2.0 for lo, hi in bins])
            w = np.array([u * float(hi - lo) for lo, hi in bins])
            self.grids.append(dict(c=c[sp], w=w[sp], f=np.array(g['f'], float)[sp], f2=np.vstack([g['r1'], g['r2']]).astype(float)[:, sp],
                                   e=np.array(g['e'], float)[sp], cp=np.array(g['cp']) - 1))
        self.table = {opkey(r['op']): r['res'] for r in row['table']}
        if len(self.table) < 8:
            raise Machinery('operation table of BinCalls incomplete for %s/%s' % (self.kind, self.ord))

    def real_c(self, c2):
        return self.lat[0] + self.lat[1] * c2 / 2.0

    def real_w(self, w):
        return self.lat[1] * float(w)


def binner_classes():
    from taurex.binning import FluxBinner, SimpleBinner, NativeBinner
    return dict(flux=FluxBinner, simple=SimpleBinner, native=NativeBinner)


# ---------------------------------------------------------------------------- the harness's own mutants (canary)
def mutant_class(kind, mut):
    """The design mutants of BinCalls.tla implemented ON TOP of the real binner: used only to show that the binding reports
    each of them on the sequences TLC says expose it."""
    base = binner_classes()[kind]

    if mut == 'sqinplace':
        class M(base):
            def bindown(self, wngrid, spectrum, grid_width=None, error=None):
                if error is not None and np.all(np.diff(wngrid) > 0):
                    error *= error                                   # variances formed in the caller's array
                    return super().bindown(wngrid, spectrum, grid_width=grid_width, error=np.sqrt(error))
                return super().bindown(wngrid, spectrum, grid_width=grid_width, error=error)
    elif mut == 'sortargs':
        class M(base):
            def bindown(self, wngrid, spectrum, grid_width=None, error=None):
                if not np.all(np.diff(wngrid) > 0):
                    idx = np.argsort(wngrid)
                    if grid_width is not None and hasattr(grid_width, '__len__'):
                        grid_width = np.asarray(grid_width)[idx]
                    if error is not None:
                        error = error[idx]
                    wngrid[:] = wngrid[idx]                          # the caller's grid and spectrum sorted in place
                    spectrum[...] = spectrum[..., idx]
                return super().bindown(wngrid, spectrum, grid_width=grid_width, error=error)
    elif mut == 'sortctor':
        class M(base):
            def __init__(self, wngrid, wngrid_width=None):
                idx = np.argsort(wngrid)
                ww = wngrid_width[idx] if wngrid_width is not None and hasattr(wngrid_width, '__len__') else wngrid_width
                wngrid.sort()                                        # the caller's centres sorted in place
                super().__init__(wngrid, ww)
    elif mut == 'outbuffer':
        class M(base):
            def bindown(self, wngrid, spectrum, grid_width=None, error=None):
                wn, sp, err, wid = super().bindown(wngrid, spectrum, grid_width=grid_width, error=error)
                bufs = self.__dict__.setdefault('_bufs', {})
                buf = bufs.setdefault(np.shape(sp), np.zeros(np.shape(sp)))
                buf[...] = sp                                        # one buffer per output shape
                return wn, buf, err, wid
    else:
        raise Machinery('unknown mutant %r' % mut)
    M.__name__ = '%s_%s' % (base.__name__, mut)
    return M


# ---------------------------------------------------------------------------- one sequence of calls on real objects
def _snap(arrs):
    return [None if a is None else np.array(a, copy=True) for a in arrs]


def _same(a, b):
    if a is None or b is None:
        return a is None and b is None
    a, b = np.asarray(a), np.asarray(b)
    return a.shape == b.shape and bool(np.array_equal(a, b, equal_nan=True))


def compare_result(A, op, out):
    """list of differences between what the call returned and the table entry of the operation"""
    exp = A.table[opkey(op)]
    wn, sp, err, wid = out
    bad = []
    g = A.grids[op['g'] - 1]
    if A.kind == 'native':
        hand = (lambda a: a) if op['how'] == 'asis' else (lambda a: a[..., g['cp']])
        if not _same(wn, hand(g['c'])):
            bad.append('grid')
        if not _same(wid, hand(g['w']) if op['wm'] == 'explicit' else None):
            bad.append('widths')
        if not _same(err, hand(g['e']) if op['err'] else None):
            bad.append('error')
    else:
        if not _same(np.asarray(wn, float), np.array([A.real_c(c) for c in exp['grid']])):
            bad.append('grid %r' % (np.asarray(wn).tolist(),))
        if not _same(np.asarray(wid, float), np.array([A.real_w(w) for w in exp['widths']])):
            bad.append('widths %r' % (np.asarray(wid).tolist(),))
    rows = np.atleast_2d(np.asarray(sp, dtype=float))
    want = exp['val']
    if rows.shape[0] != len(want) or rows.shape[1] != len(want[0]) or (op['dim'] == 1) != (np.ndim(sp) == 1):
        bad.append('shape %r' % (np.shape(sp),))
    else:
        for r, wr in enumerate(want):
            for i, en in enumerate(wr):
                x = float(rows[r, i])
                if en['k'] == 'num':
                    v = float(frac(en['v']))
                    if not (x == x and abs(x - v) <= REL * max(abs(x), abs(v))):
                        bad.append('value[%d][%d] %r expected %r' % (r, i, x, v))
                elif en['k'] == 'zero':
                    if not (x == 0.0 or x != x):
                        bad.append('value[%d][%d] %r for a bin without native data' % (r, i, x))
    if A.kind != 'native':
        if exp['err2']:
            if err is None or np.shape(err) != (len(exp['err2']),):
                bad.append('error shape %r' % (None if err is None else np.shape(err),))
            else:
                for i, e2 in enumerate(exp['err2']):
                    if want[0][i]['k'] != 'num':
                        continue
                    x, v = float(err[i]), float(frac(e2))
                    if not (x == x and abs(x * x - v) <= 1e-11 * max(x * x, v)):
                        bad.append('error[%d] %r expected sqrt(%r)' % (i, x, v))
        elif err is not None:
            bad.append('error returned though none was passed')
    return bad


def replay_walk(A, ops, classes, judge):
    """Replays one sequence of calls on ONE set of caller arrays and ONE long-lived binner.
    judge(j, clause, ok, detail) is called for every clause after every call (j = -1: after construction)."""
    Kind = classes[A.kind]
    own = {}                                      # the caller's long-lived arrays: name -> array
    for gi, g in enumerate(A.grids):
        for k in ('c', 'w', 'f', 'f2', 'e'):
            own['G%d.%s' % (gi + 1, k)] = np.array(g[k], copy=True)
    own['ctor.centres'] = np.array(A.tc, copy=True)
    own['ctor.widths'] = np.array(A.tw, copy=True)
    names = sorted(own)
    private = {k: np.array(v, copy=True) for k, v in own.items()}

    def build():
        return Kind() if A.kind == 'native' else Kind(own['ctor.centres'], own['ctor.widths'])

    def changed():
        return [k for k in names if not _same(own[k], private[k])]

    try:
        old = build()
        ch = changed()
        judge(-1, 'calls_args_untouched', not ch, 'constructor changed the caller\'s %s' % ', '.join(ch))
    except Exception as ex:
        judge(-1, 'calls_result', False, 'constructor raised %r' % ex)
        return
    kept = []                                     # (call index, returned arrays, snapshots at return)
    for j, op in enumerate(ops):
        g = 'G%d.' % op['g']
        cp = A.grids[op['g'] - 1]['cp']
        hand = (lambda a: a) if op['how'] == 'asis' else (lambda a: a[..., cp])
        wn = hand(own[g + 'c'])
        spec = hand(own[g + 'f'] if op['dim'] == 1 else own[g + 'f2'])
        gw = hand(own[g + 'w']) if op['wm'] == 'explicit' else None
        er = hand(own[g + 'e']) if op['err'] else None
        try:
            bn = old if op['b'] == 'old' else build()
            if op['api'] == 'bin_model':
                out = bn.bin_model((wn, spec, None, None))
            else:
                out = bn.bindown(wn, spec, grid_width=gw, error=er)
            if not isinstance(out, tuple) or len(out) != 4:
                raise ValueError('bindown returned %r' % (type(out),))
            bad = compare_result(A, op, out)
        except Machinery:
            raise
        except Exception as ex:                   # an input inside the quantifier: a crash is a verdict
            judge(j, 'calls_result', False, 'raised %r' % ex)
            out, bad = None, None
        if bad is not None:
            judge(j, 'calls_result', not bad, '; '.join(bad[:4]))
        ch = changed()
        judge(j, 'calls_args_untouched', not ch, 'the caller\'s %s changed' % ', '.join(ch))
        moved = ['call %d: %s' % (i, n) for i, arrs, snaps in kept for n, a, s in zip(('grid', 'values', 'error', 'widths'), arrs, snaps)
                 if not _same(a, s)]
        judge(j, 'calls_earlier_kept', not moved, 'returned earlier and changed since: %s' % ', '.join(moved))
        if out is not None and A.kind != 'native':          # the identity binner returns the caller's arrays themselves
            kept.append((j, out, _snap(out)))


# ---------------------------------------------------------------------------- the binding
def load(res_pairs, res_walks, seed, tables=None):
    """(alphabets by (kind, ord), walks) from the TLC runs; `tables`: the run whose operation tables cover the alphabet of
    every sequence (default: the run of the pairs)"""
    rows = (tables or res_pairs).tagged('COPS')
    lat = UNITS[seed % len(UNITS)]
    alph = {(r['kind'], r['ord']): Alphabet(r, lat) for r in rows}
    walks = [dict(w, src='pairs') for w in res_pairs.tagged('CWALK')]
    if res_walks is not None:
        walks += [dict(w, src='walk') for w in res_walks.tagged('CWALK')]
    if not alph or not walks:
        raise Machinery('BinCalls: nothing exported')
    return alph, walks


def run_walks(ctx, alph, walks, vector_of=None):
    classes = binner_classes()
    seen = set()
    nfirst = 0
    exposing = {}
    for w in walks:
        A = alph.get((w['kind'], w['ord']))
        if A is None:
            raise Machinery('BinCalls: no operation table for %s/%s' % (w['kind'], w['ord']))
        ops = w['ops']
        for m in w['kills']:
            exposing.setdefault((w['kind'], m), []).append(w)
        names = [opname(o) for o in ops]

        def judge(j, clause, ok, detail, w=w, names=names, A=A):
            prefix = (w['kind'], w['ord'], tuple(names[:j + 1]), clause)
            if ok and prefix in seen:
                return                      # the same calls from the same start were already judged
            seen.add(prefix)
            cls = 'calls:%s:%s:%s:%s' % (w['kind'], w['ord'], names[j] if j >= 0 else 'constructor',
                                         ('after:' + names[j - 1]) if j >= 1 else 'first')
            ctx.verdict(clause, ok, cls=cls, detail='%s after %s: %s' % (names[j] if j >= 0 else 'constructor', ' > '.join(names[:max(j, 0)]) or 'nothing', detail),
                        vector=None if ok else dict(kind='calls', bkind=w['kind'], ord=w['ord'], ops=ops, lat=list(A.lat)))
        replay_walk(A, ops, classes, judge)
        nfirst += 1
    ctx.traces += nfirst
    # non-vacuity 1: TLC's sequences expose every design mutant (each one is refuted by some exported behaviour)
    for kind in sorted(set(w['kind'] for w in walks)):
        for m in MUTANTS[kind]:
            if not exposing.get((kind, m)):
                raise Machinery('BinCalls: no exported sequence exposes the design mutant %s of the %s binner' % (m, kind))
    return exposing


def canary(ctx, alph, walks, exposing, per_mutant=12):
    """non-vacuity 2: the binding reports each design mutant -- implemented by the harness on top of the real binner -- on
    sequences TLC says expose it (skipped when the run already reports violations of the real binner)."""
    if ctx.has_violations():
        return
    n = 0
    for (kind, m), ws in sorted(exposing.items()):
        classes = dict(binner_classes())
        classes[kind] = mutant_class(kind, m)
        step = max(1, len(ws) // per_mutant)
        for w in ws[::step][:per_mutant]:
            A = alph[(w['kind'], w['ord'])]
            seen = []
            replay_walk(A, w['ops'], classes, lambda j, clause, ok, detail: seen.append(ok))
            n += 1
            if all(seen):
                raise Machinery('canary accepted: the harness mutant %s of the %s binner passes %s/%s %s although TLC says the sequence exposes it'
                                % (m, kind, w['kind'], w['ord'], ' > '.join(opname(o) for o in w['ops'])))
    ctx.note('call histories: canary -- %d sequences replayed on the harness\'s own mutants of the real binners, all reported' % n)


def replay_vector(ctx, vec, alph_for):
    """--replay: one recorded sequence again"""
    A = alph_for(vec['bkind'], vec['ord'], tuple(vec['lat']))
    names = [opname(o) for o in vec['ops']]

    def judge(j, clause, ok, detail):
        ctx.verdict(clause, ok, cls='replay:calls:%s:%s:%s' % (vec['bkind'], vec['ord'], names[j] if j >= 0 else 'constructor'),
                    detail=detail, vector=vec)
    replay_walk(A, vec['ops'], binner_classes(), judge)
