"""C17: histories of the HOLDERS of an observation and its binner (spec/ObsHolder.tla, spec/MC_ObsHolder.tla).

TLC owns the alphabet (three observations on an integer lattice, the native model, the exact binned model of every
observation, the exact chi-squared of the aligned comparison), the design run (sound policies hold, the three unsound ones
are refuted), every short history on one holder, longer random histories on two holders, and -- per history -- which
unsound policies it exposes.  This module maps the lattice to cm-1 (dyadic unit), builds the real observations, replays each
history on real taurex Optimizer objects (constructor keyword observed=, set_observed(), chisq_trans(), generate_solution()
with its Spectra / Contributions) and, use by use, also on a freshly built holder, and reports what differs:
   'exposed'  the centres / widths of the solution's binned spectrum are not the held observation's
   'values'   the binned model / chi-squared is not the specification's for the held observation
   'fresh'    the use does not return what a freshly built holder of the same observation returns
   'raised'   the use raised
Nothing here computes an expected value with the code under test.
"""
import re
from concurrent.futures import ThreadPoolExecutor

import numpy as np

from .core import Machinery, run_tlc, frac

REFUTED = ('RefuteLazyKeep', 'RefuteFirstOnly', 'RefuteShared')
UNSOUND = ('lazy-keep', 'first-only', 'shared')


# ---------------------------------------------------------------------------- TLC
def generate(ctx, thorough=False):
    """(table, walks): the design run + table, every short history on one holder, random longer ones on two holders."""
    n = 1000 if thorough else 100
    jobs = dict(design=('MC_ObsHolder_design.cfg', dict(extra=['-continue'], allow_violation=True)),
                short=('EX_ObsHolder_short_%s.cfg' % ('thorough' if thorough else 'quick'), {}),
                walks=('SIM_ObsHolder.cfg', dict(simulate='num=%d' % n, depth=12, seed=ctx.seed + 17)))
    with ThreadPoolExecutor(max_workers=3) as pool:
        futs = {k: pool.submit(run_tlc, 'MC_ObsHolder', cfg, workers=1, **kw) for k, (cfg, kw) in jobs.items()}
        res = {k: f.result() for k, f in futs.items()}
    ctx.add_tlc('obsholder-design', res['design'])
    ctx.add_tlc('obsholder-short', res['short'])
    ctx.add_tlc('obsholder-walks', res['walks'], counts=False)
    got = set(re.findall(r'Invariant (\S+) is violated', res['design'].out))
    if got != set(REFUTED):
        raise Machinery('ObsHolder: expected TLC to refute exactly %r, got %r\n%s' % (sorted(REFUTED), sorted(got), res['design'].out[-1500:]))
    if res['design'].distinct < 100:
        raise Machinery('ObsHolder: design run explored %d states' % res['design'].distinct)
    for k in ('short', 'walks'):
        if res[k].violated:
            raise Machinery('ObsHolder (%s) violates %s' % (k, res[k].violated))
    tabs = res['design'].tagged('OBS')
    if not tabs:
        raise Machinery('ObsHolder: no observation table exported')
    short, longer = res['short'].tagged('HWALK'), res['walks'].tagged('HWALK')
    if len(short) < 100 or len(longer) < n // 2:
        raise Machinery('ObsHolder: %d short and %d random histories exported' % (len(short), len(longer)))
    walks = [dict(w, src='short') for w in short] + [dict(w, src='walk') for w in longer]
    for m in UNSOUND:
        k = sum(1 for w in walks if m in w['kills'])
        if k < 10:
            raise Machinery('only %d exported histories expose the unsound policy %s' % (k, m))
    return tabs[0], walks


# ---------------------------------------------------------------------------- the real world
def _classes():
    from taurex.model import ForwardModel
    from taurex.optimizer.optimizer import Optimizer

    class LatticeModel(ForwardModel):
        """Stand-in forward model: the specification's native spectrum (times the fitting parameter amp) on its native grid."""

        def __init__(self, p, f, tau):
            super().__init__('LatticeModel')
            self.p, self.f, self.tau = (np.array(x, dtype=float) for x in (p, f, tau))
            self.amp = 1.0
            self._fitting_parameters['amp'] = ('amp', 'amp', lambda: self.amp, self._set_amp, 'linear', True, (0.5, 2.0))

        def _set_amp(self, v):
            self.amp = v

        def build(self):
            pass

        def initialize_profiles(self):
            pass

        def model(self, wngrid=None, cutoff_grid=True):
            return self.p.copy(), self.amp * self.f, self.tau.copy(), None

        def model_contrib(self, wngrid=None, cutoff_grid=True):
            return self.p.copy(), {'Standin': (self.amp * self.f, self.tau.copy(), None)}

        def model_full_contrib(self, wngrid=None, cutoff_grid=True):
            return self.p.copy(), {'Standin': [('part', self.amp * self.f, self.tau.copy(), None)]}

    class SolutionOptimizer(Optimizer):
        """The library's Optimizer with the one thing a sampler adds for generate_solution(): a single solution at amp = 1."""

        def get_solution(self):
            yield 0, [1.0], [1.0], []

        def sample_parameters(self, solution):
            return iter(())

    return LatticeModel, SolutionOptimizer


class World:
    def __init__(self, table, unit, load_obs):
        """load_obs(o, rows) -> BaseSpectrum for observation index o (1-based) from 4-column rows (um, value, error, width um)."""
        self.U = float(unit)
        self.table = table
        LatticeModel, self.Holder = _classes()
        self.model = LatticeModel(np.array(table['p'], float) * self.U, table['f'], table['tau'])
        self.obs, self.exp = {}, {}
        for i, t in enumerate(table['obs']):
            o = i + 1
            c, w = np.array(t['c'], float) * self.U, np.array(t['w'], float) * self.U
            model = np.array([float(frac(q)) for q in t['model']])
            err = np.array(t['err'], float)
            data = model + np.array(t['dev'], float) * err
            wl = 10000.0 / c
            rows = np.column_stack([wl, data, err, w * wl * wl / 10000.0])
            order = np.random.RandomState(o + int(unit)).permutation(len(wl))
            self.obs[o] = load_obs(o, rows[order])
            wn, wid = np.array(self.obs[o].wavenumberGrid, float), np.array(self.obs[o].binWidths, float)
            if wn.shape != c.shape or not np.allclose(wn, c, rtol=1e-12, atol=0) or not np.allclose(wid, w, rtol=1e-9, atol=0):
                self.exp[o] = None                              # not on the lattice bins: the load itself is wrong (reported by the caller)
            else:
                self.exp[o] = dict(wn=wn, wid=wid, model=model, chi2=float(t['chi2']))

    def new_holder(self, klass, o):
        return klass('holder', observed=self.obs[o] if o else None, model=self.model)

    def use(self, opt, u):
        """One use of a holder; everything returned is copied at once."""
        self.model.amp = 1.0
        opt.compile_params()
        if u == 'chisq':
            ob = opt._observed
            return dict(chi2=float(opt.chisq_trans([1.0], ob.spectrum, ob.errorBar)))
        sol = opt.generate_solution()
        sp = sol['solution0']['Spectra']
        con = sp.get('Contributions', {}).get('Standin', {})
        cp = lambda x: None if x is None else np.array(x, dtype=float, copy=True)
        return dict(grid=cp(sp.get('binned_wngrid')), widths=cp(sp.get('binned_wnwidth')), val=cp(sp.get('binned_spectrum')),
                    contrib=cp(con.get('binned_spectrum')), part=cp(con.get('part', {}).get('binned_spectrum')))


def _same(a, b):
    if a is None or b is None:
        return a is None and b is None
    if isinstance(a, float):
        return a == b or (a != a and b != b)
    return a.shape == b.shape and np.array_equal(a, b, equal_nan=True)


def judge(exp, u, rec, tol=1e-9):
    out = []
    if u == 'chisq':
        x = rec['chi2']
        if not (abs(x - exp['chi2']) <= tol * exp['chi2']):
            out.append(('values', 'chi-squared of the model binned to the observation against its values is %r, aligned element by element it is %r' % (x, exp['chi2'])))
        return out
    if not _same(rec['grid'], exp['wn']):
        out.append(('exposed', 'binned_wngrid %r, the observation the holder was given has centres %r' % (None if rec['grid'] is None else rec['grid'].tolist(), exp['wn'].tolist())))
    if not _same(rec['widths'], exp['wid']):
        out.append(('exposed', 'binned_wnwidth %r, the observation the holder was given has widths %r' % (None if rec['widths'] is None else rec['widths'].tolist(), exp['wid'].tolist())))
    for k, what in (('val', 'binned_spectrum'), ('contrib', 'binned_spectrum of the contribution'), ('part', 'binned_spectrum of the contribution component')):
        v = rec[k]
        if v is None or v.shape != exp['model'].shape or not np.allclose(v, exp['model'], rtol=tol, atol=0):
            out.append(('values', '%s %r, the model over each element\'s own centre and width %r' % (what, None if v is None else v.tolist(), exp['model'].tolist())))
            break
    return out


def situation(acts, j):
    """input class of use j: what its holder was given before (since it was constructed) and what else lives in the process"""
    h = acts[j]['h']
    start = max([i for i in range(j) if acts[i]['a'] == 'construct' and acts[i]['h'] == h] or [0])
    mine = [a for a in acts[start:j] if a['h'] == h]
    gives = [i for i, a in enumerate(mine) if a['a'] != 'use' and a['o']]
    via = 'constructor' if mine and mine[0]['a'] == 'construct' and mine[0]['o'] and len(gives) == 1 else 'set_observed'
    if len(gives) <= 1:
        s = 'first-observation(%s)' % via
    else:
        used = any(a['a'] == 'use' for a in mine[gives[0]:gives[-1]])
        s = 'observation-replaced' + ('+used-before' if used else '')
    if any(a['h'] != h for a in acts[:j]):
        s += '+second-holder'
    return s


def trail(acts):
    def one(a):
        if a['a'] == 'construct':
            return 'H%d=Optimizer(observed=%s)' % (a['h'], 'O%d' % a['o'] if a['o'] else 'None')
        if a['a'] == 'set':
            return 'H%d.set_observed(O%d)' % (a['h'], a['o'])
        return 'H%d.%s' % (a['h'], 'chisq_trans' if a['u'] == 'chisq' else 'generate_solution')
    return ' > '.join(one(a) for a in acts)


def replay(world, walks, klass=None, with_fresh=True, nholders=2):
    """Replay every history on real holders; yields (walk, problems) with problems = [(step, tag, detail)]."""
    klass = klass or world.Holder
    for w in walks:
        acts, held = w['acts'], w['held']
        hs = {h: world.new_holder(klass, 0) for h in range(1, nholders + 1)}       # the specification's initial holders: no observation yet
        problems = []
        for j, a in enumerate(acts):
            try:
                if a['a'] == 'construct':
                    hs[a['h']] = world.new_holder(klass, a['o'])
                elif a['a'] == 'set':
                    hs[a['h']].set_observed(world.obs[a['o']])
                else:
                    exp = world.exp[held[j]]
                    if exp is None:
                        continue
                    rec = world.use(hs[a['h']], a['u'])
                    for tag, detail in judge(exp, a['u'], rec):
                        problems.append((j, tag, detail))
                    if with_fresh:
                        other = world.use(world.new_holder(world.Holder if klass is world.Holder else klass, held[j]), a['u'])
                        diff = [k for k in rec if not _same(rec[k], other[k])]
                        if diff:
                            problems.append((j, 'fresh', 'differs from what a freshly built holder of the same observation returns in %s' % ', '.join(diff)))
            except Machinery:
                raise
            except Exception as ex:
                problems.append((j, 'raised', '%s: %s' % (type(ex).__name__, ex)))
                break
        yield w, problems


# ---------------------------------------------------------------------------- canary: harness-owned unsound holders
def mutant_doubles(base):
    """Doubles that realise the unsound policies of ObsHolder on top of the REAL Optimizer: the replay must flag exactly the
    histories TLC says expose them."""
    class LazyKeep(base):
        def set_observed(self, observed):
            self._observed = observed
            if not hasattr(self, '_vb'):
                self._vb = None

        @property
        def _binner(self):
            if self._vb is None and self._observed is not None:
                self._vb = self._observed.create_binner()
            return self._vb

    class FirstOnly(base):
        def set_observed(self, observed):
            self._observed = observed
            if observed is not None and '_vb' not in self.__dict__:
                self._vb = observed.create_binner()

        @property
        def _binner(self):
            return self._vb

    class Shared(base):
        _vb = None

        def set_observed(self, observed):
            self._observed = observed
            if observed is not None:
                Shared._vb = observed.create_binner()

        @property
        def _binner(self):
            return Shared._vb
    return {'lazy-keep': LazyKeep, 'first-only': FirstOnly, 'shared': Shared}


def canary(world, walks, limit=150):
    sample = [w for w in walks if w['src'] == 'walk'] + [w for i, w in enumerate(w for w in walks if w['src'] == 'short') if i % 2 == 0]
    sample = sample[:limit] if limit else sample
    for name, klass in mutant_doubles(world.Holder).items():
        hits = 0
        for w, problems in replay(world, sample, klass=klass, with_fresh=False):
            if name == 'shared':
                klass._vb = None
            predicted = name in w['kills']
            if bool(problems) != predicted:
                raise Machinery('canary: the %s double of Optimizer %s on %s although the specification says it %s' % (
                    name, 'fails' if problems else 'passes', trail(w['acts']), 'is exposed' if predicted else 'is not exposed'))
            hits += predicted
        if hits < 5:
            raise Machinery('canary: only %d sampled histories expose the %s policy' % (hits, name))
    return len(sample)
