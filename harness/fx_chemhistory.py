"""C10 -- history scenarios (spec/Functional.tla) for the built-in gas profiles and TaurexChemistry.

ONE long-lived gas / chemistry object is initialised again and again while its settings change:
every fitting parameter (written through the public setters: fitting_parameters()[name][3], obj[name] = v,
the python properties), the layer count, the pressure range and the temperature profile handed to
initialize_profile / initialize_chemistry.  The reference of every evaluation is a freshly built object
(constructor arguments) at the same settings.
"""
import ast

import numpy as np

from . import history
from .core import Machinery

GRID_KEYS = ('n', 'pr', 'tp')
PRANGES = [(6.0, -1.0, 1.0), (4.0, -2.0, 1.0), (5.0, 1.0, 1.7)]   # log10(Pa) surface, top, warp (1 = log-uniform grid)
TEMPS = [(1500.0, 800.0), (1000.0, 1000.0), (2600.0, 2100.0)]
# python property behind a fitting-parameter suffix (route 'prop')
PROPS = dict(twopoint=dict(surface='mixRatioSurface', top='mixRatioTop'),
             twolayer=dict(surface='mixRatioSurface', top='mixRatioTop', P='mixRatioPressure', smoothing='mixRatioSmoothing'),
             power=dict(surface='mixRatioSurface', alpha='alpha', beta='beta', gamma='gamma'))


def classes():
    from taurex.data.profiles.chemistry.gas.constantgas import ConstantGas
    from taurex.data.profiles.chemistry.gas.twolayergas import TwoLayerGas
    from taurex.data.profiles.chemistry.gas.twopointgas import TwoPointGas
    from taurex.data.profiles.chemistry.gas.arraygas import ArrayGas
    from taurex.data.profiles.chemistry.gas.powergas import PowerGas
    return dict(constant=ConstantGas, twolayer=TwoLayerGas, twopoint=TwoPointGas, array=ArrayGas, power=PowerGas)


def make_gas(kind, mol, c, prefix=''):
    """constructor route: the gas of `kind` for molecule `mol` at the settings c[prefix + suffix]"""
    G = classes()
    g = lambda k: c[prefix + k]
    if kind == 'constant':
        return G[kind](mol, mix_ratio=g('mix'))
    if kind == 'twopoint':
        return G[kind](mol, mix_ratio_surface=g('surface'), mix_ratio_top=g('top'))
    if kind == 'twolayer':
        return G[kind](mol, mix_ratio_surface=g('surface'), mix_ratio_top=g('top'), mix_ratio_P=g('P'),
                       mix_ratio_smoothing=g('smoothing'))
    if kind == 'array':
        return G[kind](mol, mix_ratio_array=list(g('array')))
    if kind == 'power':
        return G[kind](mol, profile_type=g('ptype'), mix_ratio_surface=g('surface'), alpha=g('alpha'), beta=g('beta'),
                       gamma=g('gamma'))
    raise Machinery('gas kind ' + kind)


def param_name(kind, mol, suffix):
    return mol if (kind == 'constant' and suffix == 'mix') else '%s_%s' % (mol, suffix)


class Held:
    """the long-lived object plus the grid arguments of its next (re-)initialisation"""

    def __init__(self, obj, c):
        self.obj = obj
        self.grid = {k: c[k] for k in GRID_KEYS}

    def arrays(self):
        n = self.grid['n']
        a, b, w = self.grid['pr']
        return n, np.linspace(*self.grid['tp'], n), 10.0 ** (a + (b - a) * np.linspace(0.0, 1.0, n) ** w)


class _Base(history.Scenario):
    def config(self, values):
        c = dict(self.base)
        c.update(dict(zip(self.keys, values)))
        return c

    def write(self, owner, top, name, value):
        """one setting through a public setter"""
        if self.route == 'fit':
            top.fitting_parameters()[name][3](value)
        elif self.route == 'item':
            owner[name] = value
        else:
            raise Machinery('route ' + self.route)


class GasScenario(_Base):
    """ONE gas object of a built-in profile type."""

    def __init__(self, name, kind, settings, base, route='fit', mol='H2O'):
        self.name, self.kind, self.route, self.mol = name, kind, route, mol
        self.keys = [k for k, _ in settings]
        self.dims = [list(v) for _, v in settings]
        self.base = base

    def fresh(self, values):
        c = self.config(values)
        return Held(make_gas(self.kind, self.mol, c), c)

    def set(self, h, d, value, values):
        k = self.keys[d]
        if k in GRID_KEYS:
            h.grid[k] = value
        elif self.route == 'prop':
            setattr(h.obj, PROPS[self.kind][k], value)
        else:
            self.write(h.obj, h.obj, param_name(self.kind, self.mol, k), value)

    def observe(self, h):
        n, T, P = h.arrays()
        h.obj.initialize_profile(n, T, P, None)
        return dict(mix=np.array(h.obj.mixProfile, dtype=float))


CHEM_GASES = [('constant', 'H2O'), ('twopoint', 'CH4'), ('twolayer', 'CO'), ('array', 'NH3'), ('power', 'TiO')]
CHEM_FILLS = ['H2', 'He', 'N2', 'CO2']


class ChemScenario(_Base):
    """ONE TaurexChemistry with four fill gases and one gas of every built-in profile type."""

    def __init__(self, name, settings, base, route='fit'):
        self.name, self.route = name, route
        self.keys = [k for k, _ in settings]
        self.dims = [list(v) for _, v in settings]
        self.base = base
        self.owner = {}
        for kind, mol in CHEM_GASES:
            if kind == 'constant':
                self.owner[mol] = mol
            for k in base:
                if k.startswith(mol + ':'):
                    self.owner[param_name(kind, mol, k.split(':', 1)[1])] = mol

    def fresh(self, values):
        from taurex.data.profiles.chemistry.taurexchemistry import TaurexChemistry
        c = self.config(values)
        flat = {k.replace(':', '_'): v for k, v in c.items()}       # 'CH4:surface' and 'CH4_surface' name the same setting
        flat['H2O_mix'] = flat.get('H2O', flat.get('H2O_mix'))
        chem = TaurexChemistry(fill_gases=list(CHEM_FILLS), ratio=[flat['%s_H2' % f] for f in CHEM_FILLS[1:]])
        for kind, mol in CHEM_GASES:
            chem.addGas(make_gas(kind, mol, flat, prefix=mol + '_'))
        return Held(chem, c)

    def set(self, h, d, value, values):
        k = self.keys[d]
        if k in GRID_KEYS:
            h.grid[k] = value
            return
        name = k.replace(':', '_')
        owner = h.obj
        if name in self.owner:
            owner = next(g for g in h.obj._gases if g.molecule == self.owner[name])
        self.write(owner, h.obj, name, value)

    def observe(self, h):
        from taurex.exceptions import InvalidModelException
        n, T, P = h.arrays()
        chem = h.obj
        try:
            chem.initialize_chemistry(n, T, P, None)
        except InvalidModelException:
            return dict(invalid=True)
        return dict(invalid=False, gases=list(chem.gases), active=list(chem.activeGases), inactive=list(chem.inactiveGases),
                    mix=np.array(chem.mixProfile, dtype=float), mu=np.array(chem.muProfile, dtype=float),
                    amix=np.array(chem.activeGasMixProfile, dtype=float), imix=np.array(chem.inactiveGasMixProfile, dtype=float))


def scenarios(tier):
    """every built-in profile type x (own parameters, layer count, pressure range, temperature), and the chemistry"""
    ns = [7, 20, 2] if tier == 'quick' else [13, 40, 3]
    ns2 = [20, 33, 5] if tier == 'quick' else [30, 64, 2]
    grid = dict(n=ns[0], pr=PRANGES[0], tp=TEMPS[0])
    G = [('pr', PRANGES), ('n', ns), ('tp', TEMPS)]
    ab = [1e-3, 1e-7, 3e-2]
    ab2 = [1e-6, 2e-2, 1e-4]
    out = []
    b = dict(grid, mix=1e-4)
    out.append(GasScenario('constant:grid', 'constant', G, b))
    out.append(GasScenario('constant:param', 'constant', [('mix', ab), ('n', ns2), ('pr', PRANGES)], b, route='item'))
    b = dict(grid, surface=1e-3, top=1e-7)
    out.append(GasScenario('twopoint:grid', 'twopoint', G, b))
    out.append(GasScenario('twopoint:params', 'twopoint', [('surface', ab), ('top', ab2), ('pr', PRANGES)], b))
    out.append(GasScenario('twopoint:params-item', 'twopoint', [('top', ab), ('n', ns2), ('surface', ab2)], b, route='item'))
    out.append(GasScenario('twopoint:params-prop', 'twopoint', [('surface', ab), ('top', ab2), ('n', ns2)], b, route='prop'))
    b = dict(grid, surface=1e-3, top=1e-7, P=1e3, smoothing=10, n=ns2[1])
    out.append(GasScenario('twolayer:grid', 'twolayer', [('pr', PRANGES), ('n', ns2), ('tp', TEMPS)], b))
    out.append(GasScenario('twolayer:params', 'twolayer', [('surface', ab), ('top', ab2), ('P', [1e3, 1e1, 2e4])], b))
    out.append(GasScenario('twolayer:boundary', 'twolayer', [('P', [1e3, 1e1, 2e4]), ('n', ns2), ('pr', PRANGES)], b, route='item'))
    out.append(GasScenario('twolayer:params-prop', 'twolayer', [('surface', ab), ('P', [1e3, 1e1, 2e4]), ('top', ab2)], b, route='prop'))
    out.append(GasScenario('twolayer:smoothing-prop', 'twolayer', [('smoothing', [10, 30, 0]), ('P', [1e3, 1e1, 2e4]), ('n', ns2)], b, route='prop'))
    b = dict(grid, array=(1e-2, 1e-6, 1e-4, 3e-3))
    out.append(GasScenario('array:grid', 'array', [('n', ns), ('pr', PRANGES), ('tp', TEMPS)], b))
    b = dict(grid, ptype='auto', surface=1e-4, alpha=1.0, beta=2.0e4, gamma=10.0)
    out.append(GasScenario('power:grid', 'power', G, b))
    out.append(GasScenario('power:params', 'power', [('surface', ab), ('alpha', [1.0, 0.6, 2.2]), ('tp', TEMPS)], b))
    out.append(GasScenario('power:params2', 'power', [('beta', [2.0e4, 4.8e4, 1.2e4]), ('gamma', [10.0, 6.0, 21.0]), ('pr', PRANGES)], b, route='item'))
    out.append(GasScenario('power:params-prop', 'power', [('gamma', [10.0, 6.0, 21.0]), ('surface', ab), ('beta', [2.0e4, 4.8e4, 1.2e4])], b, route='prop'))
    b = dict(grid, ptype='TiO', surface=None, alpha=None, beta=None, gamma=None)
    out.append(GasScenario('power:known-type', 'power', [('tp', TEMPS), ('n', ns2), ('surface', [None, 1e-5, 1e-8])], b, mol='TiO'))
    c = dict(grid, n=ns2[1], tp=TEMPS[2])
    c.update({'He_H2': 0.17, 'N2_H2': 0.05, 'CO2_H2': 0.01, 'H2O': 1e-3, 'CH4:surface': 1e-4, 'CH4:top': 1e-8,
              'CO:surface': 1e-3, 'CO:top': 1e-6, 'CO:P': 1e3, 'CO:smoothing': 10, 'NH3:array': (1e-5, 1e-7, 1e-6),
              'TiO:ptype': 'TiO', 'TiO:surface': None, 'TiO:alpha': None, 'TiO:beta': None, 'TiO:gamma': None})
    out.append(ChemScenario('chemistry:fill-ratios', [('He_H2', [0.17, 0.3, 0.02]), ('N2_H2', [0.05, 0.4, 0.001]), ('CO2_H2', [0.01, 0.07, 0.25])], c))
    out.append(ChemScenario('chemistry:fill-ratios-item', [('CO2_H2', [0.01, 0.07, 0.25]), ('He_H2', [0.17, 0.3, 0.02]), ('n', ns2)], c, route='item'))
    out.append(ChemScenario('chemistry:grid', [('pr', PRANGES), ('n', ns2), ('tp', TEMPS)], c))
    out.append(ChemScenario('chemistry:gas-params', [('H2O', ab), ('CH4:surface', ab2), ('CO:P', [1e3, 1e1, 2e4])], c))
    out.append(ChemScenario('chemistry:gas-params-item', [('CH4:top', ab), ('CO:top', ab2), ('TiO:alpha', [None, 1.1, 2.0])], c, route='item'))
    out.append(ChemScenario('chemistry:mixed', [('N2_H2', [0.05, 0.4, 0.001]), ('CO:surface', ab), ('pr', PRANGES)], c))
    out.append(ChemScenario('chemistry:validity', [('H2O', [1e-3, 0.7, 0.45]), ('CO:surface', [1e-3, 0.5, 0.2]), ('n', ns2)], c))
    return out


# settings the profile type does not depend on by its definition (they are varied all the same: a defect may add a dependence)
INERT = dict(constant=('pr', 'tp'), twopoint=('tp',), twolayer=('tp',), array=('pr', 'tp'), power=())


def control_range(sc, c):
    """(lo, hi) of the control values of a gas scenario at the configuration dict c; lo None for the power law
    (only 'at most its deep-atmosphere value' is stated); the table of known power-law species is input data"""
    kind = getattr(sc, 'kind', None)
    if kind == 'constant':
        return c['mix'], c['mix']
    if kind in ('twopoint', 'twolayer'):
        return min(c['surface'], c['top']), max(c['surface'], c['top'])
    if kind == 'array':
        return min(c['array']), max(c['array'])
    if kind == 'power':
        deep = c['surface']
        if deep is None:
            deep = classes()['power']('H2O').check_known(sc.mol if c['ptype'] == 'auto' else c['ptype'])[3]
        return None, (None if deep is None else float(deep))
    return None, None


def preflight(ctx, scs):
    """non-vacuity: a fresh object at the base configuration and at every singly-changed configuration
    evaluates (an exception on both sides would make 'long-lived == fresh' hold trivially)."""
    for sc in scs:
        base = [d[0] for d in sc.dims]
        cfgs = [list(base)]
        for d, vals in enumerate(sc.dims):
            for v in vals[1:]:
                c = list(base)
                c[d] = v
                cfgs.append(c)
        seen = {}
        for c in cfgs:
            try:
                o = sc.observe(sc.fresh(list(c)))
                ok, det = True, ''
                seen[tuple(map(repr, c))] = history.digest(o)
                for k, a in o.items():
                    if isinstance(a, np.ndarray) and a.dtype.kind == 'f' and not np.all(np.isfinite(a)):
                        ok, det = False, 'non-finite %s' % k
                lo, hi = control_range(sc, sc.config(list(c)))
                if ok and hi is not None:      # the range clause of the property at every configuration the walks visit singly
                    m = o['mix']
                    inr = np.all(m <= hi * (1 + 1e-9)) and (np.all(m >= lo * (1 - 1e-9)) if lo is not None else np.all(m > 0.0))
                    ctx.verdict('fresh_profile_within_control_range', bool(inr), cls=sc.name,
                                detail='%s at %r: profile min %r max %r, control range [%r, %r]' % (sc.name, c, float(m.min()), float(m.max()), lo, hi),
                                vector=dict(history=sc.name, init=c, trail=['eval']))
            except Exception as e:
                ok, det = False, '%s: %s' % (type(e).__name__, str(e)[:100])
            ctx.verdict('fresh_object_evaluates', ok, cls=sc.name, detail='%s at %r: %s' % (sc.name, c, det),
                        vector=dict(history=sc.name, init=c, trail=['eval']))
        b0 = seen.get(tuple(map(repr, base)))
        moved = set()
        for c in cfgs[1:]:
            d = next(i for i in range(len(c)) if repr(c[i]) != repr(base[i]))
            if seen.get(tuple(map(repr, c))) != b0:
                moved.add(d)
        for d, k in enumerate(sc.keys):
            if d not in moved and k not in INERT.get(getattr(sc, 'kind', ''), ()) and not ctx.has_violations():
                raise Machinery('history scenario %s: setting %s does not change the observation (vacuous)' % (sc.name, k))


def replay(ctx, viol, tier):
    """Re-drive one recorded walk.  harness/history.py records the configuration at the END of the walk as
    `init` (the list is updated in place), so the start value of every setting the walk changes is only known
    to differ from the first value written to it: every such start configuration is tried."""
    import itertools
    vec = viol['vector']
    sc = next((s for s in scenarios(tier) if s.name == vec['history']), None)
    if sc is None:
        raise Machinery('replay: unknown history scenario %r' % vec['history'])
    tup = lambda v: tuple(v) if isinstance(v, list) else v
    end = [tup(v) for v in vec['init']]
    if viol['clause'] == 'fresh_profile_within_control_range':
        lo, hi = control_range(sc, sc.config(list(end)))
        try:
            m = sc.observe(sc.fresh(list(end)))['mix']
            inr = bool(np.all(m <= hi * (1 + 1e-9)) and (np.all(m >= lo * (1 - 1e-9)) if lo is not None else np.all(m > 0.0)))
            det = 'profile min %r max %r, control range [%r, %r]' % (float(m.min()), float(m.max()), lo, hi)
        except Exception as e:
            inr, det = False, repr(e)
        ctx.verdict(viol['clause'], inr, cls=viol['cls'], detail='replay at %r: %s' % (end, det), vector=vec)
        return
    steps, first = [], {}
    for step in vec['trail']:
        if step.startswith('set') and '=' in step:
            d, val = step[3:].split('=', 1)
            steps.append((int(d), ast.literal_eval(val)))
            first.setdefault(int(d), steps[-1][1])
        elif step.startswith('eval'):
            steps.append(None)
    cands = [[v for v in sc.dims[d] if repr(v) != repr(first[d])] if d in first else [end[d]] for d in range(len(sc.dims))]
    ok, det = True, ''
    for start in itertools.product(*cands):
        vals = list(start)
        obj = sc.fresh(list(vals))
        for st in steps:
            if st is None:
                a, b = history._obs(sc, obj), history._obs(sc, sc.fresh(list(vals)))
                if a != b:
                    ok, det = False, 'start %r: long-lived %s... vs fresh %s...' % (start, a[:120], b[:120])
                    break
            else:
                vals[st[0]] = st[1]
                try:
                    sc.set(obj, st[0], st[1], list(vals))
                except Exception as e:
                    det = 'setter raised %r' % e
        if not ok:
            break
    ctx.verdict(viol['clause'], ok, cls=viol['cls'], detail='replay of %r: %s' % (vec['trail'], det), vector=vec)
