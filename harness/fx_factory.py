"""C15 support: live registry -> spec/FactoryReg.tla, and the worker that runs exported
configurations through ParameterParser under a given PYTHONHASHSEED.

    python -m harness.fx_factory worker <in.json> <out.json>      (subprocess of the C15 driver)
    python -m harness.fx_factory snapshot                         rewrites spec/FactoryReg.tla

The registry is read with inspect.signature (independent of the code's getfullargspec path).
"""
import importlib
import inspect
import json
import os
import re
import sys

KIND_ATTR = dict(temperature='temperatureKlasses', chemistry='chemistryKlasses', gas='gasKlasses',
                 pressure='pressureKlasses', planet='planetKlasses', star='starKlasses',
                 instrument='instrumentKlasses', model='modelKlasses', contribution='contributionKlasses',
                 optimizer='optimizerKlasses', observation='observationKlasses', prior='priorKlasses')
MIXIN_ATTR = dict(temperature='temperatureMixinKlasses', chemistry='chemistryMixinKlasses', gas='gasMixinKlasses',
                  pressure='pressureMixinKlasses', planet='planetMixinKlasses', star='starMixinKlasses',
                  instrument='instrumentMixinKlasses', model='modelMixinKlasses',
                  contribution='contributionMixinKlasses', optimizer='optimizerMixinKlasses',
                  observation='observationMixinKlasses')
# documented keys that the parser consumes itself (they are not constructor keywords by design)
PARSER_LEVEL_KEYS = {('instrument', 'num_observations')}
PATH_KEYS = ['filename', 'phoenix_path', 'python_file', 'mie_path']
SECTION_OF = dict(temperature='Temperature', pressure='Pressure', chemistry='Chemistry', planet='Planet', star='Star',
                  model='Model', optimizer='Optimizer', instrument='Instrument')
SELKEY_OF = dict(temperature='profile_type', pressure='profile_type', chemistry='chemistry_type', gas='gas_type',
                 planet='planet_type', star='star_type', model='model_type', optimizer='optimizer',
                 instrument='instrument')


def taurex_root():
    import taurex
    return os.path.dirname(os.path.abspath(taurex.__file__))


def _params(fn):
    sig = inspect.signature(fn)
    names, varkw = [], False
    for n, p in list(sig.parameters.items())[1:]:
        if p.kind in (p.POSITIONAL_OR_KEYWORD, p.KEYWORD_ONLY):
            names.append(n)
        elif p.kind == p.VAR_KEYWORD:
            varkw = True
    return names, varkw


def live_registry():
    from taurex.parameter.classfactory import ClassFactory
    cf = ClassFactory()
    reg, mix = [], []
    for kind, attr in KIND_ATTR.items():
        for k in getattr(cf, attr):
            try:
                kw = list(k.input_keywords())
            except Exception:
                kw = []
            if kind == 'prior':
                kw = sorted({k.__name__, k.__name__.lower(), k.__name__.upper()})
            names, varkw = _params(k.__init__)
            reg.append(dict(kind=kind, name=k.__name__, module=k.__module__, kw=sorted(kw), params=names, varkw=varkw))
    for kind, attr in MIXIN_ATTR.items():
        for k in getattr(cf, attr):
            try:
                kw = list(k.input_keywords())
            except Exception:
                kw = []
            try:
                names, _ = _params(k.__init_mixin__)
            except Exception:
                names = []
            mix.append(dict(kind=kind, name=k.__name__, module=k.__module__, kw=sorted(kw), params=names, varkw=False))
    key = lambda d: (d['kind'], d['name'])
    return sorted(reg, key=key), sorted(mix, key=key)


_SRC = None


def _quoted_in_tree(word):
    global _SRC
    if _SRC is None:
        parts = []
        for dp, dn, fn in os.walk(taurex_root()):
            for f in fn:
                if f.endswith('.py'):
                    with open(os.path.join(dp, f), errors='ignore') as fh:
                        parts.append(fh.read())
        _SRC = '\n'.join(parts)
    return re.search(r'[\'"]%s[\'"]' % re.escape(word), _SRC) is not None


def classify_entry(e, reg):
    """-> (status, docclass_name): builtin | plugin (no implementation in this tree) | unavailable
    (implementation needs a third-party package that is not installed)."""
    dc = e.get('doc_class')
    if dc:
        mod, _, cls = dc.rpartition('.')
        try:
            m = importlib.import_module(mod)
        except ModuleNotFoundError as ex:
            if (ex.name or '').startswith('taurex'):
                return 'plugin', ''
            return 'unavailable', ''
        except ImportError:
            return 'unavailable', ''
        if hasattr(m, cls):
            k = getattr(m, cls)
            known = {(c['module'], c['name']) for c in reg}
            if (k.__module__, k.__name__) not in known and e['kind'] in ('optimizer',):
                return 'unavailable', ''
            return 'builtin', k.__name__
        return 'builtin', ''            # documented class name does not exist in the module: name drift only
    if e['selectors'] == ['custom']:
        return 'custom', ''
    if any(_quoted_in_tree(s) for s in e['selectors']):
        return 'builtin', ''
    return 'plugin', ''


# ------------------------------------------------------------------------------------------
# FactoryVal: the value grammar on every constructor keyword an input file can set
# ------------------------------------------------------------------------------------------
# strings of the grammar that str.lower() changes (spec: LowerTab), see spec/FactoryVal.tla
GRAMMAR_WORDS = ['TRUE', 'true', 'yes', 'Yeah', 'yup', 'certainly', 'uh-huh', 'False', 'NO', 'nope', 'no-way', 'hell-no',
                 'He', 'N2', 'H2O', 'CH4', 'H2-He', 'He-He', '1E3', '1e-2', '1e-4', '-1.5', '.5', '5.', '+2', '0']
VAL_KINDS = ('temperature', 'pressure', 'chemistry', 'gas', 'planet', 'star', 'model', 'contribution', 'optimizer')
# constructor keywords that take objects the parser builds itself (not values of the file)
OBJECT_PARAMS = {'planet', 'star', 'pressure_profile', 'temperature_profile', 'chemistry', 'observation', 'observed',
                 'model', 'molecule_name', 'binner', 'name'}
# list-valued keywords whose signature does not show it (default None / no default, no docstring entry)
EXTRA_LIST = {('ArrayPressureProfile', 'array'), ('ChemistryFile', 'gases'), ('CIAContribution', 'cia_pairs')}
# values a class needs in every file (no usable default)
VAL_FIXED = {'ChemistryFile': [('filename', dict(k='scalar', toks=['@P1'])), ('gases', dict(k='list', toks=['H2', 'He', 'H2O']))],
             'TemperatureFile': [('filename', dict(k='scalar', toks=['@P1']))],
             'ArrayPressureProfile': [('array', dict(k='list', toks=['1e3', '1250', '0.5']))]}
# the custom class of the value grammar (harness-written python_file, see CUSTOM_VALUES)
CUSTOM_VALUE_CLASS = dict(kind='temperature', name='VerifValues', sel='custom', by='value', custom=True, scalars=True,
                          params=[('v_any', 'any', 'signature'), ('v_list', 'list', 'signature'), ('v_num', 'float', 'signature')], fixed=[])


def _sig_type(klass, name):
    """Type of a constructor keyword as far as the code shows it: its default, else its docstring."""
    import numpy as np
    p = inspect.signature(klass.__init__).parameters[name]
    d = p.default
    doc = (klass.__doc__ or '') + '\n' + (klass.__init__.__doc__ or '')
    if (klass.__name__, name) in EXTRA_LIST or isinstance(d, (list, tuple, np.ndarray)) or \
            re.search(r'^\s*%s\s*:[^\n]*\b(list|array|array_like)\b' % re.escape(name), doc, re.M):
        return 'list'
    if isinstance(d, bool):
        return 'bool'
    if isinstance(d, (int, float)):
        return 'float'
    if isinstance(d, str):
        return 'str'
    return 'opt'


def val_classes(reg, entries, rot=0):
    """One record per built-in class an input file can select, with the type of every value keyword
    (documented type first) -- the domain of spec/FactoryVal.tla."""
    from taurex.parameter.classfactory import ClassFactory
    cf = ClassFactory()
    live = {(kind, k.__name__): k for kind in VAL_KINDS for k in getattr(cf, KIND_ATTR[kind])}
    out, per_kind = [], {}
    for c in reg:
        if c['kind'] not in VAL_KINDS or not c['kw'] or c['varkw'] or (c['kind'], c['name']) not in live:
            continue
        klass = live[(c['kind'], c['name'])]
        doc_typ, doc_sel = {}, []
        for e in entries:
            if e['kind'] != c['kind'] or e['status'] != 'builtin':
                continue
            hit = [s for s in e['sels'] if (s.lower() if e['by'] == 'value' else s) in c['kw']]
            if hit:
                doc_sel += hit
                for k in e['keys']:
                    doc_typ[k['name']] = k['typ']
        sel = sorted(doc_sel)[0] if doc_sel else sorted(c['kw'])[0]
        params = []
        for p in c['params']:
            if p in OBJECT_PARAMS:
                continue
            if p in doc_typ:
                params.append((p, doc_typ[p], 'doc'))
            else:
                params.append((p, _sig_type(klass, p), 'signature'))
        if not params:
            continue
        rec = dict(kind=c['kind'], name=c['name'], sel=sel, by='subsection' if c['kind'] == 'contribution' else 'value',
                   custom=False, scalars=False, params=params, fixed=VAL_FIXED.get(c['name'], []))
        out.append(rec)
        per_kind.setdefault(c['kind'], []).append(rec)
    for kind, recs in per_kind.items():         # quick tier: the scalar grammar on one class per kind, rotated by the seed
        recs[rot % len(recs)]['scalars'] = True
    out.append(dict(CUSTOM_VALUE_CLASS))
    return out


def gen_val_constants(reg, entries, rot=0):
    rows = []
    for c in val_classes(reg, entries, rot):
        rows.append('[kind |-> %s, name |-> %s, sel |-> %s, by |-> %s, custom |-> %s, scalars |-> %s, params |-> %s, fixed |-> %s]' % (
            tla_str(c['kind']), tla_str(c['name']), tla_str(c['sel']), tla_str(c['by']), 'TRUE' if c['custom'] else 'FALSE',
            'TRUE' if c['scalars'] else 'FALSE',
            tla_set('[name |-> %s, typ |-> %s, src |-> %s]' % (tla_str(n), tla_str(t), tla_str(s)) for n, t, s in c['params']),
            tla_set('[name |-> %s, raw |-> [k |-> %s, toks |-> <<%s>>]]' % (tla_str(n), tla_str(r['k']), ', '.join(tla_str(t) for t in r['toks']))
                    for n, r in c['fixed'])))
    return ['\\* FactoryVal: every class an input file can select, its value keywords and their types (documented, else signature)',
            'ValClasses == {\n  ' + ',\n  '.join(rows) + '}']


def tla_str(s):
    return '"' + s.replace('\\', '\\\\').replace('"', '\\"') + '"'


def tla_set(items):
    return '{' + ', '.join(items) + '}'


def doc_entries(doc, reg):
    """Entries of the documented table that take part in the Factory spec (value / subsection selectors)."""
    out = []
    for i, e in enumerate(doc['entries'], 1):
        if e['selects_by'] == 'key':
            continue
        status, dcname = classify_entry(e, reg)
        keys = [dict(name=k['name'], typ=k['type'] or 'str') for k in e['keys']
                if (e['kind'], k['name']) not in PARSER_LEVEL_KEYS]
        groups = [(list(e['selectors']), keys)]
        for p in doc['prose']:
            if p.get('key') and p['kind'] == e['kind'] and set(p['selectors']) & set(e['selectors']) and e['keys'] == [] and not e['doc_class']:
                a = [s for s in e['selectors'] if s in p['selectors']]
                b = [s for s in e['selectors'] if s not in p['selectors']]
                groups = [(a, keys + [dict(name=p['key'], typ=p['type'])])] + ([(b, keys)] if b else [])
        for gi, (sels, ks) in enumerate(groups):
            out.append(dict(id=i + 100 * gi, kind=e['kind'], by=e['selects_by'], sels=sels, docclass=dcname, keys=ks,
                            status=status, title=e['title'], file=e['file']))
    nid = 1000
    for name, args in sorted(doc['prior_args'].items()):
        out.append(dict(id=nid, kind='prior', by='name', sels=[name], docclass=name, keys=[], status='builtin',
                        title='prior', file='fitting.rst', prior_args=args))
        nid += 1
    return out


def gen_reg_module(reg, mix, entries, doc, waived=(), waived_keys=(), extra=None, val_rot=0):
    L = ['---------------------------- MODULE FactoryReg ----------------------------',
         '\\* GENERATED by harness/fx_factory.py from the live taurex ClassFactory (inspect.signature) and',
         '\\* harness/data/documented_keywords.json (extracted from doc/source/user/taurex/*.rst).  Do not edit.',
         'EXTENDS TLC', '']

    def klass(c):
        return '[kind |-> %s, name |-> %s, kw |-> %s, params |-> %s, varkw |-> %s]' % (
            tla_str(c['kind']), tla_str(c['name']), tla_set(tla_str(k) for k in c['kw']),
            tla_set(tla_str(p) for p in c['params']), 'TRUE' if c['varkw'] else 'FALSE')
    L.append('RegClasses == {\n  ' + ',\n  '.join(klass(c) for c in reg) + '}')
    L.append('MixinClasses == {' + (',\n  '.join(klass(c) for c in mix)) + '}')
    ents = []
    strings = set()
    for e in entries:
        keys = tla_set('[name |-> %s, typ |-> %s]' % (tla_str(k['name']), tla_str(k['typ'])) for k in e['keys'])
        ents.append('[id |-> %d, kind |-> %s, by |-> %s, sels |-> %s, docclass |-> %s, keys |-> %s, builtin |-> %s]' % (
            e['id'], tla_str(e['kind']), tla_str(e['by']), tla_set(tla_str(s) for s in e['sels']),
            tla_str(e['docclass']), keys, 'TRUE' if e['status'] == 'builtin' else 'FALSE'))
        strings.update(e['sels'])
    L.append('DocEntries == {\n  ' + ',\n  '.join(ents) + '}')
    caps = {s: (s[:1].upper() + s[1:]) for s in strings}
    low = {}
    for s in strings:
        for v in (s, caps[s], s + '_zz', caps[s] + '_zz'):
            low[v] = v.lower()
    for w in ['True', 'no', 'K', 'abc', 'H2', '@P1', '@P2', '0.25', '0.5', '1250', '3', '12', '1', '2.5e-1', '1e3'] + GRAMMAR_WORDS:
        low[w] = w.lower()
    L.append('LowerTab == ' + ' @@ '.join('(%s :> %s)' % (tla_str(k), tla_str(v)) for k, v in sorted(low.items())))
    L.append('CapTab == ' + ' @@ '.join('(%s :> %s)' % (tla_str(k), tla_str(v)) for k, v in sorted(caps.items())))
    L.append('PathKeys == ' + tla_set(tla_str(p) for p in PATH_KEYS))
    mixof = []
    for p in doc['prose']:
        if p.get('mixin'):
            for e in entries:
                # documented composite: <mixin>+<base> for the file chemistry
                if e['kind'] == p['kind'] and e['status'] == 'builtin' and 'file' in e['sels'] and e['keys']:
                    mixof.append('(%d :> %s)' % (e['id'], tla_str(p['selectors'][0])))
    L.append('MixinOf == ' + (' @@ '.join(mixof) if mixof else '<<>>'))
    L.append('Waived == ' + tla_set(tla_str(w) for w in sorted(waived)))
    L.append('WaivedKeys == ' + tla_set(tla_str(w) for w in sorted(waived_keys)))
    L += gen_val_constants(reg, entries, rot=val_rot)
    if extra is None:       # constants of FactoryMix (composite selectors with several mixins)
        from . import fx_mixins
        extra = fx_mixins.gen_mix_constants(mix, fx_mixins.choose_bases(reg, entries))
    L += list(extra)
    L.append('=============================================================================')
    return '\n'.join(L) + '\n'


# ------------------------------------------------------------------------------------------
# worker: run configurations through the parser (and directly through the library)
# ------------------------------------------------------------------------------------------

_REC = []


def _wrap_init(cls):
    """Replace cls.__init__ by a recorder with the *same signature* (the factory introspects it)."""
    own = cls.__dict__.get('__init__')
    if own is not None and getattr(own, '_verif_wrapped', False):
        return
    orig = cls.__init__          # possibly inherited (Planet, BlackbodyStar subclasses)
    sig = inspect.signature(orig)
    ps = list(sig.parameters.values())
    if any(p.kind in (p.VAR_POSITIONAL, p.VAR_KEYWORD, p.POSITIONAL_ONLY) for p in ps):
        return
    ns = {'_orig': orig, '_rec': _REC, '_cls': cls}
    decl, call, names = ['self'], ['self'], []
    kwonly = False
    for i, p in enumerate(ps[1:]):
        if p.kind == p.KEYWORD_ONLY and not kwonly:
            decl.append('*')
            kwonly = True
        if p.default is inspect._empty:
            decl.append(p.name)
        else:
            ns['_d%d' % i] = p.default
            decl.append('%s=_d%d' % (p.name, i))
        call.append('%s=%s' % (p.name, p.name))
        names.append(p.name)
    src = ('def __init__(%s):\n'
           '    if type(self) is _cls or _cls.__name__ in [b.__name__ for b in type(self).__bases__]:\n'
           '        _rec.append((_cls.__name__, {%s}, type(self).__name__, id(self)))\n'
           '    return _orig(%s)\n') % (', '.join(decl), ', '.join('%r: %s' % (n, n) for n in names), ', '.join(call))
    exec(src, ns)
    fn = ns['__init__']
    fn._verif_wrapped = True
    fn.__doc__ = orig.__doc__
    cls.__init__ = fn


def jsonable(v):
    import numpy as np
    if isinstance(v, (bool, np.bool_)):
        return ['bool', bool(v)]
    if isinstance(v, (int, float, np.integer, np.floating)):
        return ['num', type(v).__name__, float(v)]
    if isinstance(v, str):
        return ['str', v]
    if v is None:
        return ['none']
    if isinstance(v, (list, tuple, np.ndarray)):
        return ['list', [jsonable(x) for x in list(v)]]
    return ['obj', type(v).__name__]


CUSTOM_TEMPERATURE = '''
from taurex.temperature import TemperatureProfile
import numpy as np
class RandomTemperature(TemperatureProfile):
    def __init__(self, base_temp=1500.0, random_scale=10.0):
        super().__init__(self.__class__.__name__)
        self._base_temp = base_temp
        self._random_scale = random_scale
    @property
    def profile(self):
        return self._base_temp + np.zeros(self.nlayers) * self._random_scale
'''
CUSTOM_PLANET = '''
from taurex.planet import Planet
class MyPlanet(Planet):
    def __init__(self, planet_mass=1.0, planet_radius=1.0, ring_size=2.0):
        super().__init__(planet_mass=planet_mass, planet_radius=planet_radius)
        self._ring_size = ring_size
'''


CUSTOM_VALUES = '''
from taurex.temperature import TemperatureProfile
import numpy as np
class VerifValues(TemperatureProfile):
    """Records exactly what the input file handed to its constructor (spec/FactoryVal.tla)."""
    def __init__(self, v_any=None, v_list=[], v_num=0.0):
        super().__init__(self.__class__.__name__)
        self._v_any = v_any
        self._v_list = v_list
        self._v_num = v_num
    @property
    def profile(self):
        return np.full(self.nlayers, 1000.0)
'''


def snapshot(o, depth=0, seen=None):
    """Structural image of an object (attribute tree; exact numbers with their Python type), used to
    compare the object built from an input file with the one built through the library."""
    import numpy as np
    if seen is None:
        seen = set()
    if o is None or isinstance(o, (bool, str)):
        return o
    if isinstance(o, (np.bool_,)):
        return bool(o)
    if isinstance(o, (int, float, np.integer, np.floating)):
        f = float(o)
        return ['num', type(o).__name__, 'nan' if f != f else f]
    if isinstance(o, np.ndarray):
        if o.dtype == object or o.size > 400:
            return ['nd', list(o.shape), str(o.dtype)]
        return ['nd', list(o.shape), str(o.dtype), [('nan' if (isinstance(x, float) and x != x) else x) for x in o.ravel().tolist()]]
    if isinstance(o, (list, tuple)):
        return [type(o).__name__, [snapshot(x, depth + 1, seen) for x in o]]
    if isinstance(o, dict):
        return {str(k): snapshot(v, depth + 1, seen) for k, v in o.items()}
    mod = type(o).__module__ or ''
    if hasattr(o, '__dict__') and mod.split('.')[0] in ('taurex', 'foo', 'verif_mixins') and depth < 4 and id(o) not in seen:
        seen.add(id(o))
        d = {k: snapshot(v, depth + 1, seen) for k, v in vars(o).items()}
        d['__class__'] = type(o).__name__
        return d
    return '<%s>' % type(o).__name__


def snap_diff(a, b, path='', out=None):
    """Paths at which two snapshots differ (at most three)."""
    if out is None:
        out = []
    if len(out) >= 3:
        return out
    if isinstance(a, dict) and isinstance(b, dict):
        for k in sorted(set(a) | set(b)):
            if k not in a or k not in b:
                out.append('%s.%s only on one side' % (path, k))
            else:
                snap_diff(a[k], b[k], '%s.%s' % (path, k), out)
    elif isinstance(a, list) and isinstance(b, list) and len(a) == len(b) and not (a[:1] == ['num'] or a[:1] == ['nd']):
        for i, (x, y) in enumerate(zip(a, b)):
            snap_diff(x, y, '%s[%d]' % (path, i), out)
    elif a != b:
        out.append('%s: %s != %s' % (path, str(a)[:80], str(b)[:80]))
    return out


def write_xsec(tmp):
    """Two small pickle cross-sections (H2O, CH4): with them the chemistry classes know which gases are active."""
    import pickle
    import numpy as np
    d = os.path.join(tmp, 'xsec')
    os.makedirs(d, exist_ok=True)
    wn = np.linspace(400.0, 2000.0, 33)
    t = np.array([200.0, 1000.0, 2500.0])
    p = np.array([1e-6, 1e-2, 1e1])
    rs = np.random.RandomState(7)
    for m in ('H2O', 'CH4'):
        x = 1e-22 * (1 + rs.rand(len(p), len(t), len(wn)))
        with open(os.path.join(d, m + '.pickle'), 'wb') as f:
            pickle.dump(dict(name=m, wno=wn, t=t, p=p, xsecarr=x), f)
    return d


def prepare_files(tmp):
    """Files that path-valued keys point to.  '@P1'/'@P2' are replaced per (kind, key)."""
    import numpy as np
    os.makedirs(tmp, exist_ok=True)
    paths = {}
    for n in (1, 2):
        f = os.path.join(tmp, 'tp%d.dat' % n)
        np.savetxt(f, np.column_stack([np.logspace(6, 0, 13 + n), np.linspace(1500 + n, 500, 13 + n),
                                       np.linspace(1400, 600 + n, 13 + n), np.linspace(1300, 700, 13 + n)]))
        paths[('temperature', 'filename', n)] = f
        f = os.path.join(tmp, 'chem%d.dat' % n)
        np.savetxt(f, np.column_stack([np.full(10 + n, 0.85), np.full(10 + n, 0.15 - 1e-4 * n), np.full(10 + n, 1e-4 * n)]))
        paths[('chemistry', 'filename', n)] = f
        d = os.path.join(tmp, 'phoenix%d' % n)
        os.makedirs(d, exist_ok=True)
        paths[('star', 'phoenix_path', n)] = d
        d = os.path.join(tmp, 'mie%d' % n)
        os.makedirs(d, exist_ok=True)
        paths[('contribution', 'mie_path', n)] = d
    with open(os.path.join(tmp, 'custom_temperature.py'), 'w') as f:
        f.write(CUSTOM_TEMPERATURE)
    with open(os.path.join(tmp, 'custom_planet.py'), 'w') as f:
        f.write(CUSTOM_PLANET)
    with open(os.path.join(tmp, 'custom_values.py'), 'w') as f:
        f.write(CUSTOM_VALUES)
    from . import fx_mixins
    paths['custom_files'] = fx_mixins.write_custom_files(tmp)
    paths['tmp'] = tmp
    return paths


def subst(tok, kind, key, paths):
    if tok.startswith('@C:'):       # a custom python_file written by the harness (fx_mixins.CUSTOM_BASES)
        return paths['custom_files'][tok[3:]]
    if tok in ('@P1', '@P2'):
        return paths.get((kind, key, int(tok[2])), os.path.join(paths['tmp'], 'missing' + tok[2]))
    return tok


BASE_SECTIONS = {
    'Chemistry': 'chemistry_type = taurex\nfill_gases = H2,He\nratio = 0.2\n',
    'Temperature': 'profile_type = isothermal\nT = 1000\n',
    'Pressure': 'profile_type = simple\nnlayers = 10\natm_min_pressure = 1e0\natm_max_pressure = 1e6\n',
    'Planet': 'planet_type = simple\n',
    'Star': 'star_type = blackbody\n',
}


def raw_text(raw, kind, key, paths):
    toks = [subst(t, kind, key, paths) for t in raw['toks']]
    if raw['k'] == 'list':
        return ', '.join(toks) + (',' if len(toks) <= 1 else '')      # configobj: `x = ,` is the empty list, `x = 1,` one element
    return toks[0]


def par_text(vec, paths):
    """The input file of one exported configuration (written exactly as the documentation shows)."""
    kind = vec['kind']
    lines = []
    body = []
    for k in sorted(vec['given']):
        body.append('%s = %s' % (k, raw_text(vec['given'][k], kind, k, paths)))
    if vec.get('unknownkey'):
        body.append('not_a_key = 1')
    if vec.get('custom_file'):
        body.append('python_file = %s' % vec['custom_file'])
    if kind == 'gas':
        lines.append('[Chemistry]\n' + BASE_SECTIONS['Chemistry'])
        lines.append('    [[H2O]]\n    gas_type = %s' % vec['written'])
        lines += ['    ' + b for b in body]
    elif kind == 'contribution':
        for s in ('Chemistry', 'Temperature', 'Pressure', 'Planet', 'Star'):
            lines.append('[%s]\n%s' % (s, BASE_SECTIONS[s]))
        lines.append('[Model]\nmodel_type = transmission\n    [[%s]]' % vec['written'])
        lines += ['    ' + b for b in body]
    else:
        if kind == 'model':
            for s in ('Chemistry', 'Temperature', 'Pressure', 'Planet', 'Star'):
                lines.append('[%s]\n%s' % (s, BASE_SECTIONS[s]))
        lines.append('[%s]\n%s = %s' % (SECTION_OF[kind], SELKEY_OF[kind], vec['written']))
        lines += body
    return '\n'.join(lines) + '\n'


def run_vector(vec, paths, tmp, n):
    from taurex.parameter import ParameterParser
    kind = vec['kind']
    res = dict(n=n)
    path = os.path.join(tmp, 'v%d.par' % n)
    with open(path, 'w') as f:
        f.write(par_text(vec, paths))
    del _REC[:]
    try:
        pp = ParameterParser()
        pp.read(path)
        if kind in ('gas', 'chemistry'):
            obj = pp.generate_chemistry_profile()
            if kind == 'gas':
                obj = obj._gases[0] if getattr(obj, '_gases', None) else None
        elif kind == 'temperature':
            obj = pp.generate_temperature_profile()
        elif kind == 'pressure':
            obj = pp.generate_pressure_profile()
        elif kind == 'planet':
            obj = pp.generate_planet()
        elif kind == 'star':
            obj = pp.generate_star()
        elif kind in ('model', 'contribution'):
            obj = pp.generate_model()
            if kind == 'contribution':
                obj = obj.contribution_list[0] if obj.contribution_list else None
        elif kind == 'optimizer':
            obj = pp.generate_optimizer()
        elif kind == 'instrument':
            obj = pp.generate_instrument()
            obj = obj[0] if obj else None
        else:
            raise RuntimeError('kind ' + kind)
        res['err'] = 'none'
        res['cls'] = type(obj).__name__ if obj is not None else ''
        res['bases'] = [b.__name__ for b in type(obj).__mro__] if obj is not None else []
        if vec.get('custom_file') and obj is not None:
            res['attrs'] = {k: jsonable(v) for k, v in vars(obj).items() if k in ('_base_temp', '_random_scale', '_ring_size') or k.startswith('_v_')}
        if vec.get('val') and obj is not None and kind != 'model' and vec.get('_direct_snap') is not None:
            res['snapdiff'] = snap_diff(snapshot(obj), vec['_direct_snap'])
    except BaseException as ex:      # quit() inside the library raises SystemExit
        res['err'] = type(ex).__name__
        res['msg'] = str(ex)[:200]
    want = vec.get('cls') or ''
    rec = [(r[0], r[1]) for r in _REC]
    res['rec'] = [[c, {k: jsonable(v) for k, v in kw.items()}] for c, kw in rec if c == want][:1]
    res['rec_classes'] = [c for c, _ in rec]
    os.unlink(path)
    return res


def typed_py(tv, kind, key, paths):
    t, v = tv['t'], tv['v']
    if t == 'float':
        return v[0] / v[1]
    if t == 'floatlist':
        return [x[0] / x[1] for x in v]
    if t == 'strlist':
        return [subst(x, kind, key, paths) for x in v]
    if t == 'str':
        return subst(v, kind, key, paths)
    return v


def run_direct(vec, paths, classes, snaps=None):
    """Library construction from the specification's expected class and typed values (independent of
    the factory): tells whether the configuration is well-formed for the component."""
    if vec.get('err') != 'none' or not vec.get('cls') or vec['cls'] not in classes:
        return None
    kw = {k: typed_py(tv, vec['kind'], k, paths) for k, tv in (vec.get('kwargs') or {}).items()}
    if vec['kind'] == 'gas':
        kw['molecule_name'] = 'H2O'
    del _REC[:]
    try:
        obj = classes[vec['cls']](**kw)
        if snaps is not None and vec.get('val') and vec['kind'] != 'model':
            snaps[id(vec)] = snapshot(obj)
        return 'ok'
    except BaseException as ex:
        return type(ex).__name__


def worker(inp, outp):
    import warnings
    warnings.simplefilter('ignore')
    from taurex.log import disableLogging
    disableLogging()
    import tempfile
    import shutil
    with open(inp) as f:
        job = json.load(f)
    from taurex.parameter.classfactory import ClassFactory
    cf = ClassFactory()
    classes = {}
    for kind, attr in KIND_ATTR.items():
        for k in getattr(cf, attr):
            classes[k.__name__] = k
    tmp = tempfile.mkdtemp(prefix='c15w_')
    try:
        paths = prepare_files(tmp)
        from taurex.cache import OpacityCache
        OpacityCache().clear_cache()
        OpacityCache().set_opacity_path(write_xsec(tmp))
        # resolution under this hash seed, straight from the factory functions
        from taurex.parameter import factory as F
        resolved = []
        base = {}
        from taurex.data.profiles.temperature import TemperatureProfile
        from taurex.data.profiles.pressure.pressureprofile import PressureProfile
        from taurex.data.profiles.chemistry.chemistry import Chemistry
        from taurex.data.profiles.chemistry.gas.gas import Gas
        generic = dict(temperature=TemperatureProfile, pressure=PressureProfile, chemistry=Chemistry, gas=Gas)
        direct = dict(star=F.star_factory, planet=F.planet_factory, model=F.model_factory, optimizer=F.optimizer_factory,
                      instrument=F.instrument_factory, observation=F.observation_factory)
        for kind, s in job['resolve']:
            try:
                if kind in generic:
                    k = F.generic_factory(s.lower(), generic[kind])
                else:
                    k = direct[kind](s.lower())
                resolved.append([kind, s, k.__name__])
            except NotImplementedError:
                resolved.append([kind, s, ''])
        order = {kind: [k.__name__ for k in getattr(cf, attr)] for kind, attr in KIND_ATTR.items()}
        snaps = {}
        direct_res = [run_direct(v, paths, classes, snaps) for v in job['vectors']]
        for k in classes.values():
            _wrap_init(k)
        results = []
        for n, v in enumerate(job['vectors']):
            if v.get('custom'):
                v = dict(v, custom_file=os.path.join(tmp, v.get('custom_file_name') or 'custom_%s.py' % v['kind']))
            if id(job['vectors'][n]) in snaps:
                v = dict(v, _direct_snap=snaps[id(job['vectors'][n])])
            r = run_vector(v, paths, tmp, n)
            r['direct'] = direct_res[n]
            results.append(r)
        # composite selectors with several mixins: plugin mixins registered through ClassFactory().load_plugin
        mixres = []
        if job.get('mix'):
            from . import fx_mixins
            mixins = fx_mixins.register(cf)
            for n, v in enumerate(job['mix']):
                mixres.append(fx_mixins.run_mix_vector(v, paths, tmp, n, classes, mixins))
        with open(outp, 'w') as f:
            json.dump(dict(hashseed=os.environ.get('PYTHONHASHSEED'), resolved=resolved, order=order, results=results,
                           mixresults=mixres, tmp=tmp), f)
    finally:
        shutil.rmtree(tmp, ignore_errors=True)


if __name__ == '__main__':
    sys.modules['harness.fx_factory'] = sys.modules['__main__']     # one copy of _REC for fx_mixins
    if sys.argv[1] == 'worker':
        worker(sys.argv[2], sys.argv[3])
    elif sys.argv[1] == 'snapshot':
        from . import fx_docs
        from .core import SPEC
        reg, mix = live_registry()
        doc = fx_docs.load()
        with open(os.path.join(SPEC, 'FactoryReg.tla'), 'w') as f:
            f.write(gen_reg_module(reg, mix, doc_entries(doc, reg), doc))
        print('wrote spec/FactoryReg.tla')
