"""C14 -- spec/CacheNames.tla bound to the real singletons (OpacityCache, KTableCache, CIACache).

The specification's three molecules A, B, C are bound to real NAMES of which one is a substring of another
(families below, every permutation of every family): the documented cache loads exactly the molecule asked
for from the path in force at that moment, so every behaviour TLC generates (Request / SetPath / Clear) must
be reproduced step by step whatever the names are: result of the request (hit / load / error), the table and
directory of the served object, identity of a served-again object, the complete contents of the cache after
every step (nothing else may enter), and the number of file loads.

Path p1 holds pickle files, path p2 the other container of the kind (HDF5 / HITRAN text); the path is
configured through the public setter or through the GlobalCache key (cross-sections, k-tables).
"""
import itertools
import os

import numpy as np

from .core import Machinery
from . import fx_files as fx

WN = np.array([100.0, 150.0, 200.0, 250.0, 300.0, 400.0])
TEMPS = np.array([300.0, 600.0, 1200.0])
PRESS = np.array([1e2, 1e4, 1e6])
WEIGHTS = np.array([0.25, 0.5, 0.25])

# name families (A, B, C as in MC_CacheNames: a chain under "is a substring of"), and one without any relation
FAMILIES = {'xsec': [('H2', 'H2O', 'H2O2'), ('C', 'CO', 'CO2'), ('O', 'O2', 'CO2'), ('O', 'O2', 'O3'), ('H2O', 'CH4', 'NH3')],
            'ktable': [('H2', 'H2O', 'H2O2'), ('C', 'CO', 'CO2'), ('O', 'O2', 'CO2'), ('O', 'O2', 'O3'), ('H2O', 'CH4', 'NH3')],
            'cia': [('He-H', 'He-H2', 'He-H2O'), ('H2-H', 'H2-H2', 'H2-H2O'), ('N2-N', 'N2-N2', 'N2-N2O'), ('H2-H2', 'H2-He', 'N2-N2')]}


def substring_relation(names):
    """{(x, m)}: the name of x is a proper substring of the name of m (x, m in 'A','B','C')."""
    keys = 'ABC'
    return {(keys[i], keys[j]) for i in range(3) for j in range(3) if i != j and names[i] in names[j]}


def table_for(tid, shape):
    n = int(np.prod(shape))
    base = (np.arange(n) * 37 % 101 + 1 + 128 * tid) / 64.0
    return (base * 1e-20).reshape(shape)


def table_id(value):
    return int(round(float(value) / 1e-20 * 64.0)) // 128


class NamedReal:
    """One singleton, one assignment of real names to the specification's molecules, the two directories."""

    def __init__(self, kind, sb, names, disk, tag):
        self.kind, self.sb = kind, sb
        self.names = dict(zip('ABC', names))
        self.rev = {v: k for k, v in self.names.items()}
        self.dirs = {p: sb.mkdir('names_%s_%s_%s' % (kind, tag, p)) for p in ('p1', 'p2')}
        self.nset = 0
        shape = (len(PRESS), len(TEMPS), len(WN))
        for (p, m), tid in disk.items():
            if tid == 0:
                continue
            d, name = self.dirs[p], self.names[m]
            if kind == 'xsec':
                if p == 'p1':
                    fx.write_pickle_opacity(d, name + '.R100.TauREx', WN, TEMPS, PRESS, table_for(tid, shape))
                else:
                    fx.write_hdf5_opacity(d, name + '_verif', name, WN, TEMPS, PRESS, table_for(tid, shape), unit='Pa', unit_factor=1.0)
            elif kind == 'ktable':
                s4 = shape + (len(WEIGHTS),)
                if p == 'p1':
                    fx.write_pickle_ktable(d, name + '.R100.ktable', name, WN, TEMPS, PRESS, table_for(tid, s4), WEIGHTS)
                else:
                    fx.write_hdf5_ktable(d, name + '_R100.ktable', WN, TEMPS, PRESS, table_for(tid, s4), WEIGHTS, unit='Pa', unit_factor=1.0)
            else:
                if p == 'p1':
                    fx.write_pickle_cia(d, name, WN, TEMPS, table_for(tid, (len(TEMPS), len(WN))))
                else:
                    fx.write_hitran_cia(d, name, [(float(T), WN, np.full(len(WN), (tid * 128 + 1 + i) / 64.0 * 1e-20)) for i, T in enumerate(TEMPS)], scale=1e10)

    def cache(self):
        from taurex.cache import OpacityCache, CIACache
        from taurex.cache.ktablecache import KTableCache
        return {'xsec': OpacityCache, 'ktable': KTableCache, 'cia': CIACache}[self.kind]()

    def contents(self):
        c = self.cache()
        return c.cia_dict if self.kind == 'cia' else c.opacity_dict

    def set_path(self, p):
        from taurex.cache import GlobalCache
        c, d = self.cache(), self.dirs[p]
        self.nset += 1
        via_key = self.nset % 2 == 0                 # the two documented ways of configuring a path alternate
        if self.kind == 'xsec':
            if via_key:
                GlobalCache()['xsec_path'] = d
            else:
                c.set_opacity_path(d)
        elif self.kind == 'ktable':
            if via_key:
                GlobalCache()['ktable_path'] = d
            else:
                c.set_ktable_path(d)
        else:
            c.set_cia_path(d)

    def clear(self):
        c = self.cache()
        if self.kind == 'cia':
            c.cia_dict = {}                          # CIACache has no clear_cache(): the documented attribute is emptied
        else:
            c.clear_cache()

    def project(self, obj):
        """(table id, abstract path) of a cached object."""
        fn = getattr(obj, '_filename', '')
        src = 'p1' if os.path.dirname(fn) == self.dirs['p1'] else 'p2' if os.path.dirname(fn) == self.dirs['p2'] else '?'
        try:
            grid = obj._xsec_grid if self.kind == 'cia' else obj.xsecGrid[...]
            return table_id(np.asarray(grid, dtype=float).ravel()[0]), src
        except Exception:
            return -1, src


def replay(ctx, real, hist, counter, vec0):
    real.sb.reset()
    counter.n.clear()
    served = {}                                      # molecule -> object served in the current epoch
    loads = 0
    fam = '%s:names:%s' % (real.kind, '/'.join(real.names[k] for k in 'ABC'))
    for i, e in enumerate(hist):
        act, arg, want = e['act'], e['arg'], e['res']
        vec = dict(vec0, h=hist[:i + 1])
        where = 'step %d %s(%s) with names %r' % (i + 1, act, real.names.get(arg, arg), real.names)
        if act == 'SetPath':
            real.set_path(arg)
        elif act == 'Clear':
            real.clear()
            served.clear()
        elif act == 'Request':
            name = real.names[arg]
            before = real.contents().get(name)
            try:
                obj = real.cache()[name]
                res = 'hit' if before is not None else 'load'
            except Exception:
                obj, res = None, 'error'
            ctx.verdict('loaded_from_configured_path' if want != 'hit' else 'same_object_served', res == want, cls='%s:Request:%s' % (fam, want),
                        detail='%s: real cache %s, specification %s' % (where, res, want), vector=vec)
            if res != want:
                return False
            if want == 'hit':
                ctx.verdict('same_object_served', obj is served.get(arg), cls=fam + ':Request:hit-identity',
                            detail='%s served another object than the first request did' % where, vector=vec)
            if want == 'load':
                loads += 1
                served[arg] = obj
            if obj is not None:
                d = e['dict'][arg]
                got = real.project(obj)
                ctx.verdict('loaded_from_configured_path', got == (d['table'], d['src']), cls=fam + ':Request:served-table',
                            detail='%s served table %r from %r; the path in force at its first request gives table %r from %r' % (where, got[0], got[1], d['table'], d['src']),
                            vector=vec)
        else:
            raise Machinery('unknown action %r' % act)
        # ---- what sits in the cache after the step: exactly the molecules asked for, each from its first-request path
        cont = real.contents()
        want_mols = sorted(m for m, d in e['dict'].items() if d['table'] != 0)
        got_mols = sorted(real.rev.get(k, k) for k in cont)
        ok = want_mols == got_mols
        ctx.verdict('cache_state', ok, cls=fam + ':contents',
                    detail='%s: the cache holds %r, the specification %r' % (where, sorted(cont), [real.names[m] for m in want_mols]), vector=vec)
        if not ok:
            return False
        for m in want_mols:
            d = e['dict'][m]
            o = cont[real.names[m]]
            got = real.project(o)
            ctx.verdict('loaded_from_configured_path', got == (d['table'], d['src']), cls=fam + ':cached-table',
                        detail='%s: cached %s holds table %r from %r, specification table %r from %r' % (where, real.names[m], got[0], got[1], d['table'], d['src']), vector=vec)
            ctx.verdict('same_object_served', o is served.get(m), cls=fam + ':cached-identity',
                        detail='%s: the cached object of %s is not the one served at its first request' % (where, real.names[m]), vector=vec)
        ctx.verdict('loaded_once_per_epoch', counter.total() == loads, cls=fam + ':file-loads',
                    detail='%s: %d file loads so far, specification %d (%r)' % (where, counter.total(), loads, counter.n), vector=vec)
    return True


def assignments(kind):
    """(family index, permutation) for every family of the kind; the identity permutation first."""
    out = []
    for fi, fam in enumerate(FAMILIES[kind]):
        for perm in itertools.permutations(range(3)):
            out.append((fi, perm))
    return out


def run(ctx, sb, kind, hists, subrel, disk, counter_cls, per_history, rng, tag):
    """Replay every history under per_history name assignments (rotating through all of them)."""
    fams = FAMILIES[kind]
    want = {tuple(x) for x in subrel}
    if not any(substring_relation(f) == want for f in fams):
        raise Machinery('no name family of %s realises the substring relation of the specification %r' % (kind, sorted(want)))
    if not any(not substring_relation(f) for f in fams):
        raise Machinery('no unrelated name family for %s' % kind)
    asg = assignments(kind)
    rng.shuffle(asg)
    reals = {}
    n = 0
    with counter_cls() as counter:
        for hi, h in enumerate(hists):
            for k in range(per_history):
                fi, perm = asg[(hi * per_history + k) % len(asg)]
                key = (fi, perm)
                if key not in reals:
                    names = tuple(fams[fi][perm[j]] for j in range(3))
                    reals[key] = NamedReal(kind, sb, names, disk, '%d_%s' % (fi, ''.join(map(str, perm))))
                replay(ctx, reals[key], h, counter, dict(kind='names-history', cache=kind, family=fi, perm=list(perm), tag=tag))
                n += 1
    sb.reset()
    return n
