"""Fixtures for C06 (strengthening after seeded changes, fourth round; no file of /repo is touched).

 * LAYERED atmospheres: "a parameter vector describing an invalid atmosphere (e.g. mixing ratios above unity ..)" is a
   statement about every LAYER.  With ConstantGas profiles all layers are equal; here one gas of the small real
   transmission model of fx_retrieval is a layer-dependent profile (TwoLayerGas / TwoPointGas: surface and top values are
   fitting parameters), so that a vector can push only part of the atmosphere above unity.
   LayerOracle computes the per-layer total of the gases a vector describes from SEPARATE gas-profile objects (never
   attached to a chemistry: the validity decision of TaurexChemistry is not consulted), on the pressure grid of the model.
 * observation FORMATS and overlapping layouts of the wide real world of fx_likegrid: a 3-column observation (no width
   column: ArraySpectrum derives the widths from the centres, neighbouring bins then overlap), bins contiguous in
   wavelength with a constant width (their wavenumber bins overlap by slivers), a second instrument observing part of
   the same range.
"""
import numpy as np

from . import fx_retrieval as fx

PROFILES = ('twolayer', 'twopoint')
TOT_UNIT = 1000000                # per-layer totals are logged in units of 1e-6
TOT_CAP = 1000 * TOT_UNIT


def _layered_gas(profile, molecule):
    from taurex.chemistry import TwoLayerGas
    from taurex.data.profiles.chemistry.gas.twopointgas import TwoPointGas
    if profile == 'twolayer':
        return TwoLayerGas(molecule, mix_ratio_surface=1e-4, mix_ratio_top=1e-6, mix_ratio_P=1e3, mix_ratio_smoothing=10)
    return TwoPointGas(molecule, mix_ratio_surface=1e-4, mix_ratio_top=1e-6)


def make_layered_transmission(temperature, profile, nlayers=8):
    """fx_retrieval.make_transmission with H2O as a layer-dependent profile (CH4 stays a ConstantGas)."""
    from taurex.model import TransmissionModel
    from taurex.chemistry import TaurexChemistry, ConstantGas
    from taurex.temperature import Isothermal, NPoint
    from taurex.planet import Planet
    from taurex.stellar import BlackbodyStar
    from taurex.contributions import AbsorptionContribution
    chem = TaurexChemistry(fill_gases=['H2', 'He'], ratio=0.17)
    chem.addGas(_layered_gas(profile, 'H2O'))
    chem.addGas(ConstantGas('CH4', 1e-5))
    if temperature == 'isothermal':
        tp = Isothermal(1000.0)
    else:
        tp = NPoint(T_surface=1400.0, T_top=800.0, P_surface=1e6, P_top=1e-1,
                    temperature_points=[1100.0], pressure_points=[1e3], smoothing_window=1)
    tm = TransmissionModel(planet=Planet(planet_mass=1.0, planet_radius=1.0), star=BlackbodyStar(5000.0, 1.0),
                           chemistry=chem, temperature_profile=tp, nlayers=nlayers,
                           atm_min_pressure=1e-1, atm_max_pressure=1e6)
    tm.add_contribution(AbsorptionContribution())
    tm.build()
    return tm


class LayerOracle(object):
    """Per-layer total mixing ratio of the non-fill gases for the values a parameter vector describes.

    gases: {molecule: 'constant' | 'twolayer' | 'twopoint'}; initial: {parameter name: value} (e.g. H2O_surface, CH4);
    pressure: the model's pressure profile (surface first)."""

    def __init__(self, gases, initial, pressure):
        from taurex.chemistry import ConstantGas
        self.pressure = np.array(pressure, dtype=float)
        self.gases = [ConstantGas(mol, 1e-5) if prof == 'constant' else _layered_gas(prof, mol)
                      for mol, prof in gases.items()]
        self.params = {}
        for g in self.gases:
            self.params.update(g.fitting_parameters())
        self.set(initial)

    def set(self, values):
        for name, v in values.items():
            if name in self.params:
                self.params[name][3](float(v))

    def totals(self):
        n = len(self.pressure)
        tot = np.zeros(n)
        for g in self.gases:
            g.initialize_profile(n, None, self.pressure, None)
            tot = tot + np.asarray(g.mixProfile, dtype=float)
        return tot

    def scaled_totals(self):
        """Integers in units of 1e-6 (capped; NaN -> cap: a profile that cannot be formed is not a valid atmosphere,
        but that is judged by the other rules)."""
        out = []
        for t in self.totals():
            t = float(t)
            out.append(TOT_CAP if (t != t or t * TOT_UNIT > TOT_CAP) else int(round(t * TOT_UNIT)))
        return out


def layers_class(tot):
    """'' (no layer above unity) | 'all-layers-above-unity' | 'some-layers-above-unity'."""
    over = [t > TOT_UNIT + 1 for t in tot]
    if not any(over):
        return ''
    return 'all-layers-above-unity' if all(over) else 'some-layers-above-unity'


# ----------------------------------------------------------------------------------------------
# observation formats / overlapping layouts of the wide world (wavelength, micron)
# ----------------------------------------------------------------------------------------------

FORMATS = ('4col', '3col', 'second-instrument', 'uniform-wl')


def uniform_wl_layout(rng):
    """Contiguous bins of CONSTANT wavelength width (a grating spectrograph), 4 columns: the library converts every
    width with 1e4 w / wl^2, so neighbouring wavenumber bins overlap by a sliver ~ (w / wl)^2 of a bin."""
    w = rng.choice([0.05, 0.08, 0.1])
    lo = rng.choice([0.8, 1.0, 1.1])
    n = rng.randint(18, 30)
    e = lo + w * np.arange(n + 1)
    return (e[:-1] + e[1:]) / 2.0, e[1:] - e[:-1]


def add_second_instrument(rng, wl, wlw):
    """A second instrument observing part of the range of the first (plus one broad band on top of five bins): bins that straddle pairs of neighbouring bins of
    the base layout (from the centre of bin k to the centre of bin k + 2), away from both ends of the layout so that
    the widest spacing of the centres -- the margin of the clip window -- is unchanged."""
    order = np.argsort(wl)
    wl, wlw = np.asarray(wl, dtype=float)[order], np.asarray(wlw, dtype=float)[order]
    n = len(wl)
    if n < 9:
        return wl, wlw, 0
    # a run of touching bins
    touching = np.isclose(wl[:-1] + wlw[:-1] / 2.0, wl[1:] - wlw[1:] / 2.0, rtol=1e-9)
    start = rng.randint(2, n - 7)
    extra_c, extra_w = [], []
    k = start
    while k + 2 <= n - 3 and len(extra_c) < 4:
        if touching[k] and touching[k + 1]:
            extra_c.append((wl[k] + wl[k + 2]) / 2.0)
            extra_w.append(wl[k + 2] - wl[k])
        k += 2
    # ... and one band on top of five touching bins (bins nested in it: it starts before bins whose centres come first)
    for k in range(start, n - 7):
        if all(touching[k:k + 5]):
            extra_c.append((wl[k] + wl[k + 5]) / 2.0)
            extra_w.append(wl[k + 5] - wl[k])
            break
    if not extra_c:
        return wl, wlw, 0
    return np.concatenate([wl, extra_c]), np.concatenate([wlw, extra_w]), len(extra_c)


def max_overlap_cells(native_wn, bin_lo, bin_hi):
    """The largest overlap between two bins of the layout, in local native spacings."""
    nat = np.sort(np.asarray(native_wn, dtype=float))
    order = np.argsort(bin_lo)
    lo, hi = np.asarray(bin_lo)[order], np.asarray(bin_hi)[order]
    best = 0.0
    run = hi[0]
    for a, b in zip(lo[1:], hi[1:]):
        ov = min(run, b) - a
        if ov > 0:
            k = int(np.searchsorted(nat, a).clip(1, len(nat) - 1))
            best = max(best, ov / (nat[k] - nat[k - 1]))
        run = max(run, b)
    return best
