"""Recorder for the forward-model pipeline protocol (spec/Pipeline.tla).

Wraps public methods of the real classes *from outside the repository* (no source hook) and
emits one event per specification action.  Linearisation point of a sequential library: the
return of the call (events are appended after the wrapped method returned normally; a call
that raises emits `<ev>_raised`, which the spec ignores).  Generators (prepare_each) emit
`yielded` right before each value is handed to the caller.
"""
import functools
import hashlib

import numpy as np

_installed = False
_log = None            # list of events (dicts) or None when recording is off
_scenario = 0
_model_of = {}         # id(component) -> id(model)
_role = {}             # id(chemistry object) -> 'init' | 'main'
_tids = {}             # (scenario, id(model)) -> small int
_grids = {}            # digest -> small int
_keep = []             # keep wrapped objects alive so ids are not recycled
_snap = {}             # id(model) -> digests of the exposed profile arrays as initialize_profiles left them
_starsnap = {}         # id(model) -> digest of the stellar spectrum as star.initialize left it


def _digest(a):
    try:
        x = np.ascontiguousarray(np.asarray(a, dtype=float))
        return hashlib.sha1(x.tobytes()).hexdigest() + str(x.shape)
    except Exception:
        return None


def _profiles(model):
    """The arrays a forward model exposes after initialize_profiles (what contributions and the path integral read)."""
    out = {}
    def put(name, f):
        try:
            out[name] = _digest(f())
        except Exception:
            pass
    put('pressure_levels', lambda: model.pressure.pressure_profile_levels)
    put('pressure', lambda: model.pressureProfile)
    put('temperature', lambda: model.temperatureProfile)
    put('altitude', lambda: model.altitudeProfile)
    put('altitude_boundaries', lambda: model.altitude_boundaries)
    put('deltaz', lambda: model.deltaz)
    put('density', lambda: model.densityProfile)
    put('gravity', lambda: model.gravity_profile)
    put('scaleheight', lambda: model.scaleheight_profile)
    put('mix', lambda: model.chemistry.mixProfile)
    put('mu', lambda: model.chemistry.muProfile)
    return out


def _gid(arr):
    a = np.ascontiguousarray(np.asarray(arr, dtype=float))
    d = hashlib.sha1(a.tobytes()).hexdigest()
    if d not in _grids:
        _grids[d] = len(_grids) + 1
    return _grids[d]


def _tid(mid):
    k = (_scenario, mid)
    if k not in _tids:
        _tids[k] = len(_tids) + 1
    return _tids[k]


def _emit(mid, ev, c='', g=0, lst=()):
    if _log is None or mid is None:
        return
    _log.append(dict(tid=_tid(mid), ev=ev, c=c, g=int(g), lst=list(lst), seq=len(_log)))


def start(scenario):
    global _log, _scenario
    _scenario = scenario
    if _log is None:
        _log = []


def stop():
    global _log
    out, _log = _log, None
    _snap.clear()
    _starsnap.clear()
    _model_of.clear()
    _role.clear()
    return out or []


def _wrap(cls, name, make):
    orig = cls.__dict__.get(name)
    if orig is None or getattr(orig, '_verif_wrapped', False):
        return
    w = make(orig)
    w._verif_wrapped = True
    setattr(cls, name, w)


def _subclasses(cls):
    seen, stack = [], [cls]
    while stack:
        c = stack.pop()
        if c in seen:
            continue
        seen.append(c)
        stack.extend(c.__subclasses__())
    return seen


def install():
    """Idempotent.  Import every built-in component first so that subclasses are known."""
    global _installed
    if _installed:
        return
    _installed = True
    import taurex.model, taurex.contributions, taurex.temperature, taurex.chemistry, taurex.pressure  # noqa
    import taurex.stellar, taurex.optimizer  # noqa
    from taurex.model.simplemodel import SimpleForwardModel
    from taurex.model.model import ForwardModel
    from taurex.data.profiles.pressure.pressureprofile import PressureProfile
    from taurex.data.profiles.temperature.tprofile import TemperatureProfile
    from taurex.data.profiles.chemistry.chemistry import Chemistry
    from taurex.data.stellar.star import Star
    from taurex.contributions.contribution import Contribution
    from taurex.optimizer.optimizer import Optimizer

    def reg(model):
        mid = id(model)
        _keep.append(model)
        for comp in (model._pressure_profile if hasattr(model, '_pressure_profile') else None,
                     getattr(model, 'pressure', None), model._temperature_profile, model._chemistry,
                     getattr(model, '_inital_mu', None), model._star):
            if comp is not None:
                _model_of[id(comp)] = mid
        _role[id(model._chemistry)] = 'main'
        if getattr(model, '_inital_mu', None) is not None:
            _role[id(model._inital_mu)] = 'init'
        for c in model.contribution_list:
            _model_of[id(c)] = mid
        return mid

    def bracket(evname):
        def make(orig):
            @functools.wraps(orig)
            def w(self, *a, **k):
                mid = reg(self) if _log is not None else None
                _emit(mid, evname + '_begin')
                try:
                    r = orig(self, *a, **k)
                except BaseException:
                    _emit(mid, evname + '_raised')
                    raise
                dirty = ''
                if mid is not None:
                    if evname == 'init':
                        _snap[mid] = _profiles(self)
                    elif mid in _snap:        # a public evaluation: the profiles must be as initialize_profiles left them
                        now = _profiles(self)
                        changed = sorted(n for n, d in _snap[mid].items() if now.get(n) != d)
                        if mid in _starsnap and _digest(getattr(self._star, 'sed', None)) != _starsnap[mid]:
                            changed.append('star_sed')
                        dirty = ','.join(changed)
                _emit(mid, evname + '_end', c=dirty)
                return r
            return w
        return make

    for cls in _subclasses(SimpleForwardModel):
        _wrap(cls, 'initialize_profiles', bracket('init'))
        for n in ('model', 'model_contrib', 'model_full_contrib'):
            _wrap(cls, n, bracket(n))

        def mk_alt(orig):
            @functools.wraps(orig)
            def w(self, mu_profile=None):
                r = orig(self, mu_profile)
                _emit(id(self) if _log is not None else None, 'alt_given' if mu_profile is not None else 'alt_chem')
                return r
            return w
        _wrap(cls, '_compute_altitude_gravity_scaleheight_profile', mk_alt)

        def mk_path(orig):
            @functools.wraps(orig)
            def w(self, wngrid, return_contrib):
                r = orig(self, wngrid, return_contrib)
                if _log is not None:
                    reg(self)
                    _emit(id(self), 'path', g=_gid(wngrid), lst=[c.name for c in self.contribution_list])
                return r
            return w
        _wrap(cls, 'path_integral', mk_path)

    def mk_set(orig):
        @functools.wraps(orig)
        def w(self, key, value):
            r = orig(self, key, value)
            _emit(id(self) if _log is not None else None, 'setparam', c=str(key))
            return r
        return w
    _wrap(ForwardModel, '__setitem__', mk_set)

    def mk_update(orig):
        @functools.wraps(orig)
        def w(self, fit_params):
            r = orig(self, fit_params)
            _emit(id(self._model) if _log is not None else None, 'setparam', c='update_model')
            return r
        return w
    _wrap(Optimizer, 'update_model', mk_update)

    active = {}     # (id(obj), event) -> nesting depth: a subclass calling super() is ONE step

    def nested(self, evname, orig, a, k):
        key = (id(self), evname.split('_')[0])
        active[key] = active.get(key, 0) + 1
        try:
            return orig(self, *a, **k)
        finally:
            active[key] -= 1

    def outermost(self, evname):
        return active.get((id(self), evname.split('_')[0]), 0) == 0

    def simple(evname):
        def make(orig):
            @functools.wraps(orig)
            def w(self, *a, **k):
                r = nested(self, evname, orig, a, k)
                if outermost(self, evname):
                    _emit(_model_of.get(id(self)), evname)
                return r
            return w
        return make
    for cls in _subclasses(PressureProfile):
        _wrap(cls, 'compute_pressure_profile', simple('pressure'))
    for cls in _subclasses(TemperatureProfile):
        _wrap(cls, 'initialize_profile', simple('temperature'))

    def mk_chem(orig):
        @functools.wraps(orig)
        def w(self, *a, **k):
            r = nested(self, 'chem', orig, a, k)
            if outermost(self, 'chem'):
                _emit(_model_of.get(id(self)), 'chem_init' if _role.get(id(self)) == 'init' else 'chem')
            return r
        return w
    for cls in _subclasses(Chemistry):
        _wrap(cls, 'initialize_chemistry', mk_chem)

    def mk_star(orig):
        @functools.wraps(orig)
        def w(self, wngrid):
            r = nested(self, 'star', orig, (wngrid,), {})
            if outermost(self, 'star'):
                if _log is not None and _model_of.get(id(self)) is not None:
                    _starsnap[_model_of[id(self)]] = _digest(getattr(self, 'sed', None))
                _emit(_model_of.get(id(self)), 'star', g=_gid(wngrid))
            return r
        return w
    for cls in _subclasses(Star):
        _wrap(cls, 'initialize', mk_star)

    def mk_prepare(orig):
        @functools.wraps(orig)
        def w(self, model, wngrid):
            r = nested(self, 'prepare', orig, (model, wngrid), {})
            if outermost(self, 'prepare'):
                _emit(id(model) if _log is not None else None, 'prepare', c=self.name, g=_gid(wngrid))
            return r
        return w

    def mk_each(orig):
        @functools.wraps(orig)
        def w(self, model, wngrid):
            for item in orig(self, model, wngrid):
                _emit(id(model) if _log is not None else None, 'yielded', c=self.name, g=_gid(wngrid))
                yield item
        return w
    for cls in _subclasses(Contribution):
        _wrap(cls, 'prepare', mk_prepare)
        if cls is not Contribution:
            _wrap(cls, 'prepare_each', mk_each)


def for_tlc(events):
    """Group by trace id (stable), drop bookkeeping fields."""
    evs = sorted(events, key=lambda e: (e['tid'], e['seq']))
    return [dict(tid=e['tid'], ev=e['ev'], c=e['c'], g=e['g'], lst=e['lst']) for e in evs]
