"""Long-lived profile objects for the history-independence walks (harness/history.py, spec/Functional.tla)
of C10 (abundance profiles, TaurexChemistry) and C12 (temperature profiles).

A ProfileScenario names up to three controls.  Each control is written either
  'fit'   through the fitting-parameter interface   obj.fitting_parameters()[name][3](value)
          (what a retrieval / model[name] = value does),
  'prop'  through the public property setter        setattr(obj, attribute, value),
  'grid'  by re-initialising the SAME object on another layer grid (another layer count, or the same
          layer count with another pressure range).
An evaluation re-initialises the object on its current grid (as every forward-model run does) and reads
the profile; the reference is a freshly constructed object whose constructor got the same values.  An
evaluation that raises is digested as the exception type, so validity-changing moves are compared too.
"""
import numpy as np

from . import history


class Held:
    """a profile object (or the exception its constructor raised) and the grid it lives on"""

    def __init__(self, build, grid):
        self.grid = grid
        try:
            self.obj, self.err = build(), None
        except Exception as e:          # e.g. Guillot2010 rejects non-physical values in its constructor
            self.obj, self.err = None, e


def fit_set(obj, name, value):
    params = obj.fitting_parameters()
    if name not in params:
        raise KeyError('no fitting parameter %r (have %r)' % (name, sorted(params)))
    params[name][3](value)


class ProfileScenario(history.Scenario):
    """controls: list of (route, key, ctor_key, values); ctor_key is the constructor keyword of the control
    (None for the grid).  make(kwargs) builds the object; initialise(obj, grid); read(obj) -> observable."""

    def __init__(self, name, make, controls, initialise, read, default_grid=None):
        self.name = name
        self.make = make
        self.controls = controls
        self.dims = [list(c[3]) for c in controls]
        self.initialise = initialise
        self.read = read
        self.default_grid = default_grid

    def _kwargs(self, values):
        return {c[2]: v for c, v in zip(self.controls, values) if c[0] != 'grid'}

    def _grid(self, values):
        for c, v in zip(self.controls, values):
            if c[0] == 'grid':
                return v
        return self.default_grid

    def fresh(self, values):
        kw = self._kwargs(values)
        h = Held(lambda: self.make(dict(kw)), self._grid(values))
        if h.obj is not None:
            try:
                self.initialise(h.obj, h.grid)
            except Exception:
                pass                    # the evaluation re-initialises and reports
        return h

    def set(self, h, d, value, values):
        if h.obj is None:               # construction had failed: the user has to construct again
            h2 = self.fresh(values)
            h.obj, h.err, h.grid = h2.obj, h2.err, h2.grid
            return
        route, key = self.controls[d][0], self.controls[d][1]
        if route == 'grid':
            h.grid = value
            try:
                self.initialise(h.obj, h.grid)
            except Exception:
                pass
        elif route == 'fit':
            fit_set(h.obj, key, value)
        elif route == 'prop':
            if not isinstance(getattr(type(h.obj), key, None), property):
                raise KeyError('%s has no property %s' % (type(h.obj).__name__, key))
            setattr(h.obj, key, value)
        else:
            raise KeyError(route)

    def observe(self, h):
        if h.err is not None:
            raise h.err
        self.initialise(h.obj, h.grid)
        return self.read(h.obj)


def pgrid(g):
    """(n, log10 P surface, log10 P top[, T surface, T top]) -> n, P, T"""
    n = g[0]
    P = np.logspace(g[1], g[2], n)
    T = np.linspace(g[3], g[4], n) if len(g) > 3 else np.full(n, 1000.0)
    return n, P, T


def check_setters_took_effect(scenarios):
    """Machinery self-test: every control of every scenario must change the observable of a fresh object for at
    least one pair of its values (otherwise the walk would not exercise that control)."""
    dead = []
    for sc in scenarios:
        base = [d[0] for d in sc.dims]
        ref = history._obs(sc, sc.fresh(list(base)))
        for d, vals in enumerate(sc.dims):
            seen = {ref}
            for v in vals[1:]:
                cur = list(base)
                cur[d] = v
                seen.add(history._obs(sc, sc.fresh(cur)))
            if len(seen) < 2:
                dead.append('%s/%s' % (sc.name, sc.controls[d][1]))
    return dead


def replay_trail(ctx, scenarios, vec, clause='history_independent'):
    """--replay of one recorded walk (vector written by history.run_history): same sets, same evaluations,
    compared with a fresh object directly."""
    import ast
    sc = {s.name: s for s in scenarios}.get(vec['history'])
    if sc is None:
        raise history.Machinery('unknown history scenario %r' % vec['history'])
    vals = list(vec['init'])
    vals = [tuple(v) if isinstance(v, list) else v for v in vals]
    obj = sc.fresh(list(vals))
    ok, where = True, ''
    for tok in vec['trail']:
        if tok.startswith('set'):
            d, val = tok[3:].split('=', 1)
            vals[int(d)] = ast.literal_eval(val)
            try:
                sc.set(obj, int(d), vals[int(d)], list(vals))
            except Exception:
                pass
        elif tok.startswith('eval'):
            a = history._obs(sc, obj)
            b = history._obs(sc, sc.fresh(list(vals)))
            if a != b and ok:
                ok, where = False, 'at %r: long-lived %s... vs fresh %s...' % (vals, a[:160], b[:160])
    ctx.verdict(clause, ok, cls='%s:replay' % sc.name, detail=where, vector=vec)
