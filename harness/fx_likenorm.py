"""Fixtures for C06 (strengthening after seeded changes, third round; no file of /repo is touched).

Observations of any SIZE and MAGNITUDE (spec/LikeNorm.tla, MC_LikeNorm.tla): n bins, spectrum in units of 2^u, error
bars 2^(u - s_b) -- hundreds of bins with ppm-level error bars, spectra in physical flux units (1e-26), large numbers.
Every quantity is an exact binary64 number (integers scaled by powers of two with math.ldexp).

 * NormToy: a real ForwardModel subclass, native point i (1..2n) at 1000 + 4 i cm-1, f_i(a) = (c0[i] + a c1[i]) 2^u,
   one fitted linear parameter a
 * norm_observation(): the observation of a vector as a real BaseSpectrum (-> real FluxBinner): bin b covers exactly
   the native bins of the points 2b-1 and 2b; data_b = dnum[b] 2^(u - s_b), sigma_b = 2^(u - s_b)
 * survey_layout(): a survey-size layout for the wide real world of fx_likegrid (constant resolving power 40-50 over
   0.5-12 micron: 120-160 bins), in wavelength.  Bins are at least 3.6 native spacings wide (native R ~ 180), so that
   every bin lies 1.5 native spacings inside the clip window of the code (the licence of spec/LikeGrid.tla,
   LGInsideWindow; sharper observations fall under the known finding L-C13b of C13 and are not judged here)
"""
import math

import numpy as np

from . import fx_retrieval as fx

WN0 = 1000.0
STEP = 4.0


def norm_toy(vec):
    from taurex.model import ForwardModel

    class NormToy(ForwardModel):
        def __init__(self, c0, c1, u):
            super().__init__('NormToy')
            self._c0 = np.asarray(c0, dtype=float)
            self._c1 = np.asarray(c1, dtype=float)
            self._u = int(u)
            self._nat = WN0 + STEP * np.arange(1, len(c0) + 1, dtype=float)
            self.a = 0.0

            def fget():
                return self.a

            def fset(value):
                self.a = value
            self._fitting_parameters['a'] = ('a', 'a', fget, fset, 'linear', True, (0.0, 4.0))

        def build(self):
            pass

        def initialize_profiles(self):
            pass

        def model(self, wngrid=None, cutoff_grid=True):
            return self._nat.copy(), np.ldexp(self._c0 + self.a * self._c1, self._u), None, None

    return NormToy(vec['c0'], vec['c1'], vec['u'])


def norm_observation(vec):
    n = vec['n']
    b = np.arange(1, n + 1, dtype=float)
    centre = WN0 + STEP * (2 * b - 1) + STEP / 2
    width = np.full(n, 2 * STEP)
    e = np.array([vec['u'] - s for s in vec['s']], dtype=int)
    data = np.ldexp(np.array(vec['dnum'], dtype=float), e)
    err = np.ldexp(np.ones(n), e)
    if not (np.all(np.isfinite(data)) and np.all(err > 0) and np.all(np.isfinite(err))):
        raise fx.Machinery('fixture: the observation of the vector is not representable')
    return fx.make_wn_obs(centre, width, data, err)


def norm_constant(vec):
    """-SUM log(sigma_b sqrt(2 pi)) from the specification's exact integer: -(ln 2 * sumexp + n ln sqrt(2 pi))."""
    return -(math.log(2.0) * vec['sumexp'] + vec['n'] * 0.5 * math.log(2.0 * math.pi))


def survey_layout(rng):
    """Bins in WAVELENGTH (micron) of a survey-size observation: constant resolving power, contiguous."""
    r = rng.choice([40.0, 45.0, 50.0])
    w0, w1 = rng.choice([0.5, 0.6]), rng.choice([10.0, 12.0])
    e = [w0]
    while e[-1] * (1.0 + 1.0 / r) <= w1:
        e.append(e[-1] * (1.0 + 1.0 / r))
    e = np.array(e)
    return (e[:-1] + e[1:]) / 2.0, e[1:] - e[:-1]


def inside_window(native_wn, bin_lo, bin_hi, centres):
    """LGInsideWindow of spec/LikeGrid.tla in floating point: every bin lies 1.5 (local) native spacings inside
    [cmin - W, cmax + W], W = the widest mid-point width of the centres."""
    c = np.sort(np.asarray(centres, dtype=float))
    gaps = np.diff(c)
    mid = np.concatenate([[gaps[0]], (gaps[1:] + gaps[:-1]) / 2.0, [gaps[-1]]])
    w = mid.max()
    nat = np.sort(np.asarray(native_wn, dtype=float))
    sp_lo = np.diff(nat)[np.searchsorted(nat, c[0] - w).clip(1, len(nat) - 1) - 1]
    sp_hi = np.diff(nat)[np.searchsorted(nat, c[-1] + w).clip(1, len(nat) - 1) - 1]
    return bool(np.min(bin_lo) >= c[0] - w + 1.5 * sp_lo and np.max(bin_hi) <= c[-1] + w - 1.5 * sp_hi)
