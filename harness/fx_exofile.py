"""Exo-Transmit text tables written block by block in a given order (C14, spec/ExoTransmitFile.tla).

The file is the two header lines followed by the wavelength blocks *in the order of the argument*: nothing is
sorted here, the order is an input chosen by the specification (TLC).  Unit factors are passed in by the driver,
which takes them from the TLA+ specification (OpacityFiles.tla), not from the reader.
"""
import os

import numpy as np


def write_exotransmit_blocks(directory, mol, temps, press_pa, blocks, bar_factor=1e5, xsec_factor=1e4):
    """opac<mol>.dat.  blocks = [(wavelength in metres, column[P, T] in cm^2)] in file order; every block is the
    wavelength line followed by one row per pressure: pressure (bar), cross-sections (m^2) per temperature."""
    pbar = [float(p) / bar_factor for p in press_pa]
    lines = [' '.join(repr(float(t)) for t in temps), ' '.join(repr(p) for p in pbar)]
    for wl, col in blocks:
        col = np.asarray(col, dtype=float)
        if col.shape != (len(pbar), len(temps)):
            raise ValueError('block of shape %r for %d pressures x %d temperatures' % (col.shape, len(pbar), len(temps)))
        lines.append(repr(float(wl)))
        for ip, p in enumerate(pbar):
            lines.append(' '.join([repr(p)] + [repr(float(x / xsec_factor)) for x in col[ip]]))
    fn = os.path.join(directory, 'opac%s.dat' % mol)
    with open(fn, 'w') as f:
        f.write('\n'.join(lines) + '\n')
    return fn
