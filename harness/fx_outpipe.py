"""Histories of the OUTPUT PIPELINE (spec/OutputPipeline.tla, spec/MC_OutputPipeline.tla) -- C16, "output files hold what was computed".

Nothing is written the moment it is computed: the program and Optimizer.generate_solution evaluate one long-lived forward
model, build the spectrum dictionary from the result (it keeps references to the native arrays), evaluate the same model
again (every contribution, every component, the next solution, a second model of the same class) and only then hand the
dictionaries to the writer.  TLC owns the operation sequences (the program's own ones + random ones) and says, per sequence,
which design mutants (the model returns its optical-depth / flux work array, per instance or per class; building the output
dictionary modifies the result in place) it exposes and where ("held": a result a caller holds changed, "file": the file
does not hold what was computed / does not describe itself).  This module replays a sequence on TWO real model objects of
one class, one long-lived binner and the real writer.  Everything the implementation hands out is copied privately the moment
it is handed out and compared after EVERY later operation:
   'held'      an array of a result (grid, spectrum, optical depths) is no longer what the evaluation returned, or the
               results of one call share memory
   'dict'      an array of an output dictionary (the binned ones it owns) changed after the dictionary was built
   'computed'  the file (read back with h5py) does not hold the values of THAT evaluation / the binner applied to them
   'selfdesc'  a stored binned array is not the binner (a freshly built one) applied to the native array stored next to it
   'sized'     optical depths are not present according to the size
Nothing here computes an expected value with the object under test: references are private copies and a fresh binner.
"""
import os
import re

import numpy as np

from .core import Machinery, run_tlc

MUTANT_INVARIANTS = ('RefuteWorkTau', 'RefuteWorkFlux', 'RefuteWorkTauClass', 'RefuteOutMut')
MUTANTS = ('work-tau', 'work-flux', 'work-tau-class', 'outmut')
TVALS = (1234.0, 1500.0)            # the two values of the fitted parameter (Cfgs)
CUT = np.linspace(900.0, 1400.0, 6)  # shape "cut": a wngrid is passed, the native grid is clipped to it
BINS = np.linspace(950.0, 1350.0, 5)


def opname(op):
    if op['k'] == 'eval':
        return '%s(m%d,T%d,%s)' % ({'model': 'model', 'contrib': 'model_contrib', 'full': 'model_full_contrib'}[op['kind']], op['m'], op['c'], op['shape'])
    if op['k'] == 'output':
        return 'output(call %d part %d,%s)' % (op['call'], op['part'], op['size'])
    return 'store(dict %d)' % op['dict']


def trail(ops):
    return ' > '.join(opname(o) for o in ops)


# ---------------------------------------------------------------------------- design level + sequences from TLC
def check_design(ctx, thorough=False):
    """One TLC run (-continue) over the reachable graph for small bounds: the clauses hold for the sound variant, exactly the
    four design mutants are refuted at the level of the file."""
    res = run_tlc('MC_OutputPipeline', 'MC_OutputPipeline_design%s.cfg' % ('_thorough' if thorough else ''), workers=2 if not thorough else 8,
                  allow_violation=True, extra=['-continue'])
    ctx.add_tlc('output-pipeline-design', res)
    got = set(re.findall(r'Invariant (\S+) is violated', res.out))
    if got != set(MUTANT_INVARIANTS):
        raise Machinery('OutputPipeline: expected TLC to refute exactly %r, got %r\n%s' % (sorted(MUTANT_INVARIANTS), sorted(got), res.out[-1500:]))
    if res.distinct < 1000 or res.depth < 4:
        raise Machinery('OutputPipeline: design run explored %d states to depth %d' % (res.distinct, res.depth))
    return res


def generate(ctx, n, thorough=False):
    sim = run_tlc('MC_OutputPipeline', 'SIM_OutputPipeline%s.cfg' % ('_thorough' if thorough else ''), workers=1, simulate='num=%d' % n, depth=14, seed=ctx.seed + 1608)
    ctx.add_tlc('output-pipeline-walks', sim, counts=False)
    prog = sim.tagged('PWALKS')
    walks = sim.tagged('WALK')
    if len(prog) != 1 or len(prog[0]) < 8:
        raise Machinery('OutputPipeline: the program\'s own sequences were not exported')
    if len(walks) < n // 2:
        raise Machinery('TLC produced only %d operation sequences' % len(walks))
    walks = sorted(prog[0], key=lambda w: trail(w['ops'])) + walks
    for m in MUTANTS:
        for lvl in ('held', 'file'):
            k = sum(1 for w in walks if w['kills'][m][lvl])
            if k < 8:
                raise Machinery('only %d exported sequences expose the design mutant %s at the level "%s"' % (k, m, lvl))
        if not any(w['src'] == 'program' and w['kills'][m]['file'] for w in walks) and m != 'work-tau-class':
            raise Machinery('no sequence of the program exposes the design mutant %s in the file' % m)
    if all(w['kills']['work-tau']['held'] for w in walks):
        raise Machinery('every exported sequence exposes the work-array mutant: the canary cannot tell')
    return walks


# ---------------------------------------------------------------------------- the rig: two models, one binner, the writer
class Rig:
    """models: {1: model, 2: model} built and long-lived (same class, different planets); make_binner() -> a new binner of the
    kind under test; the binner of the rig is built once."""

    def __init__(self, models, make_binner, name, bname):
        self.models = models
        self.cfg = {m: None for m in models}
        self.make_binner = make_binner
        self.binner = make_binner()
        self.name = name
        self.bname = bname

    def evaluate(self, op):
        model = self.models[op['m']]
        if self.cfg[op['m']] != op['c']:
            model['T'] = TVALS[op['c']]             # the way Optimizer.update_model changes a fitted value
            self.cfg[op['m']] = op['c']
        kw = {} if op['shape'] == 'native' else dict(wngrid=np.array(CUT))
        if op['kind'] == 'model':
            grid, flux, tau, _ = model.model(**kw)
            parts = [(flux, tau)]
        elif op['kind'] == 'contrib':
            grid, res = model.model_contrib(**kw)
            items = list(res.values())
            parts = [(items[0][0], items[0][1]), (items[-1][0], items[-1][1])]
        else:
            grid, res = model.model_full_contrib(**kw)
            items = [x for lst in res.values() for x in lst]
            parts = [(items[0][1], items[0][2]), (items[-1][1], items[-1][2])]
            if len(items) < 3:
                raise Machinery('the pipeline model has %d components' % len(items))
        return [dict(grid=grid, flux=f, tau=t) for f, t in parts]


def _same(a, b):
    a, b = np.asarray(a), np.asarray(b)
    return a.shape == b.shape and np.array_equal(a, b, equal_nan=True)


def _diff(a, b):
    a, b = np.asarray(a, dtype=float), np.asarray(b, dtype=float)
    if a.shape != b.shape:
        return 'shape %r instead of %r' % (a.shape, b.shape)
    with np.errstate(all='ignore'):
        d = np.abs(a - b)
        i = int(np.nanargmax(d)) if np.any(np.isfinite(d)) else 0
    return 'e.g. element %d is %r, was %r' % (i, a.ravel()[i].item(), b.ravel()[i].item())


def relation(ops, j, k):
    """how operation j relates to the evaluation call k whose result it touched"""
    a, b = ops[j], ops[k]
    if a['k'] != 'eval':
        return 'after-' + a['k']
    return 'after-%s:%s:%s:%s' % (a['kind'], 'same-model' if a['m'] == b['m'] else 'other-model',
                                 'same-grid' if a['shape'] == b['shape'] else 'other-grid', 'same-T' if a['c'] == b['c'] else 'other-T')


def replay(rig, walks, path):
    """Yields (walk, problems); problems = [(step, tag, cls-suffix, detail)]."""
    import h5py
    from taurex import OutputSize
    from taurex.output.hdf5 import HDF5Output
    sizes = dict(heavy=OutputSize.heavy, light=OutputSize.light, lighter=OutputSize.lighter)
    for w in walks:
        ops = w['ops']
        held, dicts, problems, reported = [], [], [], set()

        def check(j):
            for k, call in enumerate(held):
                for p, part in enumerate(call):
                    for a in ('grid', 'flux', 'tau'):
                        if (k, p, a) not in reported and not _same(part['live'][a], part['copy'][a]):
                            reported.add((k, p, a))
                            problems.append((j, 'held', '%s:%s' % (a, relation(ops, j, part['step'])),
                                             'the %s of the result of call %d (%s), part %d, is no longer what the evaluation returned: %s' % (
                                                 a, k + 1, opname(ops[part['step']]), p + 1, _diff(part['live'][a], part['copy'][a]))))
            for n, d in enumerate(dicts):
                for key, c in d['copy'].items():
                    if key.startswith('native_') and key in ('native_wngrid', 'native_spectrum', 'native_tau'):
                        continue            # references to the arrays of the result: reported as 'held'
                    if (n, key) not in reported and not _same(d['d'].get(key), c):
                        reported.add((n, key))
                        problems.append((j, 'dict', '%s:after-%s' % (key, ops[j]['k']), 'the %s of output dictionary %d changed after it was built: %s' % (key, n + 1, _diff(d['d'].get(key), c))))
        for j, op in enumerate(ops):
            try:
                if op['k'] == 'eval':
                    parts = rig.evaluate(op)
                    held.append([dict(live=p, copy={a: np.array(p[a], copy=True) for a in p}, step=j) for p in parts])
                    # the results of one call (one per contribution / component) are different quantities: arrays that share
                    # memory cannot hold both (PartsDistinct)
                    for a in ('flux', 'tau'):
                        if len(parts) > 1 and np.shares_memory(parts[0][a], parts[-1][a]):
                            reported.add((len(held) - 1, 0, a))
                            problems.append((j, 'held', '%s:within-call:%s' % (a, op['kind']),
                                             'the %s of the first and of the last result of %s share memory: the first was overwritten when the last was computed' % (a, opname(op))))
                elif op['k'] == 'output':
                    part = held[op['call'] - 1][op['part'] - 1]
                    d = rig.binner.generate_spectrum_output((part['live']['grid'], part['live']['flux'], part['live']['tau'], None), output_size=sizes[op['size']])
                    dicts.append(dict(d=d, copy={k: np.array(v, copy=True) for k, v in d.items() if isinstance(v, np.ndarray)}, part=part, size=op['size'], step=j))
                else:
                    d = dicts[op['dict'] - 1]
                    with HDF5Output(path) as o:
                        o.store_dictionary(d['d'], group_name='Spectra')
                    with h5py.File(path, 'r') as f:
                        g = {k: f['Spectra'][k][...] for k in f['Spectra']}
                    for tag, sfx, detail in judge_file(rig, g, d):
                        problems.append((j, tag, sfx, 'dictionary %d (%s) stored by step %d: %s' % (op['dict'], opname(ops[d['step']]), j + 1, detail)))
            except Machinery:
                raise
            except Exception as ex:
                problems.append((j, 'raised', op['k'], '%s raised %s: %s' % (opname(op), type(ex).__name__, str(ex)[:160])))
                break
            check(j)
        yield w, problems


def judge_file(rig, g, d):
    """g: the Spectra group read back; d: the dictionary record (private copies of the result it was built from)."""
    out = []
    want = d['part']['copy']
    size, binned = d['size'], rig.bname != 'native'
    taus = {k for k in g if 'tau' in k}
    exp_taus = ({'native_tau'} if size == 'heavy' else set()) | ({'binned_tau'} if binned and size != 'lighter' else set())
    if taus != exp_taus:
        out.append(('sized', '%s:%s' % (rig.bname, size), 'optical-depth datasets %s, the size requires %s' % (sorted(taus), sorted(exp_taus))))
    for key, a in (('native_wngrid', 'grid'), ('native_spectrum', 'flux'), ('native_tau', 'tau')):
        if key in g and not _same(g[key], want[a]):
            out.append(('computed', '%s:%s' % (key, size), 'the file\'s %s is not what the evaluation returned: %s' % (key, _diff(g[key], want[a]))))
        elif key not in g and key != 'native_tau':
            out.append(('computed', '%s:%s' % (key, size), 'the file has no %s' % key))
    if binned:
        fresh = rig.make_binner()
        for key, a, nat in (('binned_spectrum', 'flux', 'native_spectrum'), ('binned_tau', 'tau', 'native_tau')):
            if key not in g:
                if key == 'binned_spectrum':
                    out.append(('computed', '%s:%s' % (key, size), 'the file has no %s' % key))
                continue
            ref = fresh.bindown(np.array(want['grid']), np.array(want[a]))[1]
            if not _same(g[key], ref):
                out.append(('computed', '%s:%s' % (key, size), 'the file\'s %s is not the binner applied to what the evaluation returned: %s' % (key, _diff(g[key], ref))))
            if nat in g and 'native_wngrid' in g:
                ref2 = fresh.bindown(np.array(g['native_wngrid']), np.array(g[nat]))[1]
                if not _same(g[key], ref2):
                    out.append(('selfdesc', '%s:%s' % (key, size), '%s is not the binner applied to the %s stored next to it: %s' % (key, nat, _diff(g[key], ref2))))
    return out


# ---------------------------------------------------------------------------- canary: the harness's own wrong models
def mutant_doubles(model_class, binner_class):
    """name -> (model class, binner class): the design mutants of OutputPipeline realised on top of the REAL model / binner."""
    def work_double(which, class_scope):
        class Work(model_class):
            _vf_shared = {}

            def path_integral(self, wngrid, return_contrib):
                flux, tau = super().path_integral(wngrid, return_contrib)
                store = type(self)._vf_shared if class_scope else self.__dict__.setdefault('_vf_own', {})
                new = tau if which == 'tau' else flux
                w = store.get(which)
                if w is None or w.shape != np.shape(new):
                    w = store[which] = np.empty_like(new)          # re-allocated only when the shape changes
                w[...] = new
                return (flux, w) if which == 'tau' else (w, tau)
        Work.__name__ = model_class.__name__
        return Work

    class OutMut(binner_class):
        def generate_spectrum_output(self, model_output, output_size=None):
            from taurex import OutputSize
            out = super().generate_spectrum_output(model_output, output_size=OutputSize.heavy if output_size is None else output_size)
            model_output[1][...] *= 2.0          # "normalised" in place after the dictionary was built
            return out
    return {'work-tau': (work_double('tau', False), binner_class), 'work-flux': (work_double('flux', False), binner_class),
            'work-tau-class': (work_double('tau', True), binner_class), 'outmut': (model_class, OutMut)}


def canary(make_rig, walks, path, limit=40):
    """make_rig(model class or None, binner class or None) -> Rig.  The replay of the harness's own mutants shows a changed held
    result / a wrong file exactly on the sequences the specification says expose them."""
    from taurex.binning import FluxBinner
    from taurex.model import TransmissionModel
    sample = [w for w in walks if w['src'] == 'program'][:6] + [w for w in walks if w['src'] == 'walk']
    sample = sample[:limit]
    for name, (mk, bk) in mutant_doubles(TransmissionModel, FluxBinner).items():
        rig = make_rig(mk, bk)
        hits = 0
        for w, problems in replay(rig, sample, path):
            got = dict(held=any(p[1] == 'held' for p in problems), file=any(p[1] in ('computed', 'selfdesc') for p in problems))
            want = w['kills'][name]
            if any(p[1] in ('raised', 'sized', 'dict') for p in problems) or got != dict(held=bool(want['held']), file=bool(want['file'])):
                raise Machinery('canary: the %s mutant on %s shows %r, the specification says %r (%s)' % (name, trail(w['ops']), got, want, problems[:2]))
            hits += bool(want['file'])
        if hits < 3:
            raise Machinery('canary: only %d sampled sequences expose the %s mutant in the file' % (hits, name))
    return len(sample)
