"""Model-level fixtures shared by the transmission-family drivers (C01, C03)."""
import math

import numpy as np

from taurex.cia.cia import CIA
from taurex.contributions import Contribution

LN2 = math.log(2.0)


class TableContribution(Contribution):
    """A contribution whose weighted cross-section sigma[layer, wn] (m^2) is given.
    It inherits contribute() from the real Contribution base class, i.e. the numba kernel."""

    def __init__(self, name, sigma):
        super().__init__(name)
        self._sig = np.asarray(sigma, dtype=float)

    def prepare_each(self, model, wngrid):
        self.sigma_xsec = self._sig
        yield self._name, self._sig

    @classmethod
    def input_keywords(cls):
        return ['veriftable']


class FixtureCIA(CIA):
    """CIA pair with a given table xsec[T, wn]; compute_cia returns the row of the nearest T
    (temperatures used by the harness are grid temperatures, so no interpolation is involved)."""

    def __init__(self, pair, wn, temps, table):
        super().__init__('FixtureCIA', pair)
        self._wn = np.asarray(wn, dtype=float)
        self._t = np.asarray(temps, dtype=float)
        self._tab = np.asarray(table, dtype=float)

    @property
    def wavenumberGrid(self):
        return self._wn

    @property
    def temperatureGrid(self):
        return self._t

    def compute_cia(self, temperature):
        i = int(np.argmin(np.abs(self._t - temperature)))
        return self._tab[i]


def make_transmission(nlayers, *, chemistry=None, temperature=None, planet=None, star=None,
                      pmin=1e-2, pmax=1e5, new_method=False, pressure_profile=None):
    from taurex.model import TransmissionModel
    from taurex.data.profiles.chemistry import TaurexChemistry
    from taurex.data.profiles.temperature import Isothermal
    from taurex.data import Planet
    from taurex.data.stellar import BlackbodyStar
    if chemistry is None:
        chemistry = TaurexChemistry(fill_gases=['H2', 'He'], ratio=0.17)
    m = TransmissionModel(planet=planet or Planet(planet_mass=1.0, planet_radius=1.0),
                          star=star or BlackbodyStar(temperature=5000, radius=1.0),
                          chemistry=chemistry,
                          temperature_profile=temperature or Isothermal(T=1000.0),
                          pressure_profile=pressure_profile,
                          nlayers=nlayers, atm_min_pressure=pmin, atm_max_pressure=pmax,
                          new_path_method=new_method)
    return m


# ----------------------------------------------------------------------------
# The documented formula, evaluated by the harness.  This evaluator is itself
# validated against the TLA+ specification on every vector TLC exports (integer
# chord tables: spec operator TauLayer; transmittances 2^-t: spec operator Depth;
# squared chords: spec operator ChordSq), and only then used with sqrt()/exp()
# of real-valued inputs.  It shares no code with the implementation under test.
# ----------------------------------------------------------------------------

def chord_sq(r, method, j, k):
    """0-based layers; r boundary radii (len n+1).  Squared half-chord from the tangent point of
    layer j to the outer edge of shell k (k >= j)."""
    if method == 'old':
        half0 = (r[1] - r[0]) / 2
        b = r[j] + half0
        rho = r[k] + half0 + (r[k + 1] - r[k]) / 2
    else:
        b = r[j] + (r[j + 1] - r[j]) / 2
        rho = r[k + 1]
    return rho * rho - b * b


def chord_table(r, method, sqrt=math.sqrt):
    n = len(r) - 1
    L = []
    for j in range(n):
        row, prev = [], 0.0
        for k in range(j, n):
            c = sqrt(chord_sq(r, method, j, k))
            row.append(2 * (c - prev))
            prev = c
        L.append(row)
    return L


def tau_layers(A, kinds, L, cut, zero=0.0):
    """A[c][k][w] = sigma x density^(1|2) per contribution (list order = evaluation order);
    L[j][i] chord segments.  Returns (tau[j][w] with the early exit, tau_full[j][w], prefix[j][i][w]).
    `cut`: the early exit fires when min_w tau > cut (strictly)."""
    nc = len(A)
    n = len(L)
    nw = len(A[0][0]) if nc else 0
    tau, full, prefixes = [], [], []
    for j in range(n):
        t = [zero] * nw
        f = [zero] * nw
        pre = [list(f)]
        broke = False
        for c in range(nc):
            add = [zero] * nw
            for i in range(n - j):
                k = j + i
                for w in range(nw):
                    add[w] = add[w] + A[c][k][w] * L[j][i]
            if not broke and nw and min(t) > cut:
                broke = True
            if not broke:
                t = [t[w] + add[w] for w in range(nw)]
            f = [f[w] + add[w] for w in range(nw)]
            pre.append(list(f))
        tau.append(t)
        full.append(f)
        prefixes.append(pre)
    return tau, full, prefixes


def depth_of(r, rs, T):
    """T[j][w] transmittances; returns depth[w] = (Rp^2 + 2 sum_j (Rp+z_j)(1-T_j) dz_j)/Rs^2."""
    n = len(r) - 1
    nw = len(T[0])
    out = []
    for w in range(nw):
        s = 0
        for j in range(n):
            s = s + r[j] * (1 - T[j][w]) * (r[j + 1] - r[j])
        out.append((r[0] * r[0] + 2 * s) / (rs * rs))
    return out
