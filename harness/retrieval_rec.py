"""Recorder for the retrieval protocol (spec/Retrieval.tla).  Wraps Optimizer / Binner / model methods
from outside the repository; model evaluations are taken from the pipeline recorder's stream."""
import functools
import hashlib

import numpy as np

from . import pipeline

_installed = False
_log = None
_opt_of_model = {}     # id(model) -> id(optimizer)
_opt_of_binner = {}
_tids = {}
_vecs = {}
_keep = []


def _tid(oid):
    if oid not in _tids:
        _tids[oid] = len(_tids) + 1
    return _tids[oid]


def _emit(oid, ev, p=0, finite=0):
    if _log is None or oid is None:
        return
    _log.append(dict(tid=_tid(oid), ev=ev, p=int(p), finite=int(finite)))


def _vid(vec):
    a = np.ascontiguousarray(np.asarray(vec, dtype=float))
    d = hashlib.sha1(a.tobytes()).hexdigest()
    if d not in _vecs:
        _vecs[d] = len(_vecs) + 1
    return _vecs[d]


def start():
    global _log
    _log = []
    _tids.clear()


def stop():
    global _log
    out, _log = _log, None
    _opt_of_model.clear()
    _opt_of_binner.clear()
    return out or []


def install():
    global _installed
    if _installed:
        return
    _installed = True
    pipeline.install()
    import taurex.optimizer  # noqa
    import taurex.binning  # noqa
    from taurex.optimizer.optimizer import Optimizer
    from taurex.binning.binner import Binner
    from taurex.model.simplemodel import SimpleForwardModel
    from taurex.model.model import ForwardModel

    def reg(opt):
        _keep.append(opt)
        if getattr(opt, '_model', None) is not None:
            _opt_of_model[id(opt._model)] = id(opt)
        if getattr(opt, '_binner', None) is not None:
            _opt_of_binner[id(opt._binner)] = id(opt)
        return id(opt)

    def wrap(cls, name, make):
        orig = cls.__dict__.get(name)
        if orig is None or getattr(orig, '_verif_rwrapped', False):
            return
        w = make(orig)
        w._verif_rwrapped = True
        setattr(cls, name, w)

    def mk_compile(orig):
        @functools.wraps(orig)
        def w(self, *a, **k):
            r = orig(self, *a, **k)
            if _log is not None:
                _emit(reg(self), 'compile')
            return r
        return w

    def mk_update(orig):
        @functools.wraps(orig)
        def w(self, fit_params):
            r = orig(self, fit_params)
            if _log is not None:
                _emit(reg(self), 'update', p=_vid(fit_params))
            return r
        return w

    def mk_like(orig):
        @functools.wraps(orig)
        def w(self, fit_params, data, datastd):
            if _log is not None:
                _emit(reg(self), 'like_begin')
            r = orig(self, fit_params, data, datastd)
            if _log is not None:
                fin = bool(np.isfinite(r))
                _emit(id(self), 'like_end', finite=1 if fin else 0)
            return r
        return w

    def mk_fit(orig):
        @functools.wraps(orig)
        def w(self, *a, **k):
            if _log is not None:
                _emit(reg(self), 'fit_begin')
            r = orig(self, *a, **k)
            _emit(id(self) if _log is not None else None, 'fit_end')
            return r
        return w

    for cls in pipeline._subclasses(Optimizer):
        wrap(cls, 'compile_params', mk_compile)
        wrap(cls, 'update_model', mk_update)
        wrap(cls, 'chisq_trans', mk_like)
        wrap(cls, 'fit', mk_fit)

    def mk_bin(evname):
        def make(orig):
            @functools.wraps(orig)
            def w(self, *a, **k):
                r = orig(self, *a, **k)
                _emit(_opt_of_binner.get(id(self)), evname)
                return r
            return w
        return make
    for cls in pipeline._subclasses(Binner):
        wrap(cls, 'bin_model', mk_bin('bin'))
        wrap(cls, 'generate_spectrum_output', mk_bin('spectra_store'))

    def mk_profiles(orig):
        @functools.wraps(orig)
        def w(self, *a, **k):
            r = orig(self, *a, **k)
            _emit(_opt_of_model.get(id(self)), 'profiles')
            return r
        return w

    def mk_model(orig):
        @functools.wraps(orig)
        def w(self, *a, **k):
            r = orig(self, *a, **k)
            _emit(_opt_of_model.get(id(self)), 'model')
            return r
        return w
    for cls in pipeline._subclasses(ForwardModel):
        wrap(cls, 'generate_profiles', mk_profiles)
        wrap(cls, 'model', mk_model)


def for_tlc(events):
    idx = {id(e): i for i, e in enumerate(events)}
    evs = sorted(events, key=lambda e: (e['tid'], idx[id(e)]))
    return [dict(tid=e['tid'], ev=e['ev'], p=e['p'], finite=e['finite']) for e in evs]
