"""Binding of spec/EmissionSettings.tla (C02): TLC-generated walks over the SETTINGS of ONE long-lived emission /
direct-image model -- planet radius (fitting-parameter route model['planet_radius'] and planet.radius), star
temperature, star distance, the angle quadrature through set_num_gauss(n) and set_quadratures(mu, w) in any order,
the global opacity mode GlobalCache()['opacity_method'] xsec <-> ktables -- with evaluations in between.

At every Eval of a walk the specification says which settings are in force (cfg, the current ones).  Oracles:
  * the long-lived object equals a freshly built model of cfg (relation stated by the property: the spectrum is a
    function of the atmosphere, star, planet, quadrature and mode) -- same arithmetic on the same inputs, compared
    at 1e-12 relative (REL_SUM of the driver: the arithmetic of the layered sum);
  * isothermal worlds: the eclipse spectrum is B(T)/B(T*)(Rp/Rs)^2 of cfg, computed with the harness's own Planck
    evaluation (no exp(-10) slack: the fixture's columns never reach optical depth 10 at every wavenumber -- checked);
  * the documented integral itself for cfg (World.documented: plain numpy on the layers the model exposes, the harness's
    Planck function, the rule and the opacity mode of cfg) at 1e-12 -- all terms are non-negative, exponents <= 40 where
    they matter; the direct image per unit of its one unpinned constant (all evaluations give the same ratio).
Round 6 (route x history): the evaluation routes model_contrib() / model_full_contrib() are entries of Eval next to model() /
partial_model(), and the temperature-profile point ("tp": model['T_surface'] / model['T']) and the absorber's mixing ratio
("mix": model['H2O']) are settings next to the planet radius: all three move the layer profiles (altitude, density,
chemistry) that every route has to initialise for the CURRENT settings.  One contribution with one absorber: each
per-contribution spectrum is the documented integral itself, equals a fresh model's through the same route and equals the
fresh model's model() (same arithmetic, 1e-12).
Nothing here computes an expected value with the function under test other than through a FRESH object."""
import math

import numpy as np

from . import fx_emission as fx
from .core import Machinery

MOL = 'H2O'
WN = np.array([600.0, 1500.0, 3200.0, 6000.0])
RP = [1.0, 1.37, 0.8]                  # Jupiter radii
TS = [5200.0, 4300.0, 6400.0]          # K
DIST = [12.0, 7.5, 31.0]               # pc
STAR_R = 0.9
T_ISO = [1400.0, 1150.0, 1720.0]       # "tp" of the isothermal worlds
T_SURF, T_TOP = [2100.0, 1650.0, 2400.0], 750.0      # "tp" of the others: the surface point of the profile
MIX = [1e-3, 2.6e-3, 4.1e-4]           # "mix": the absorber's mixing ratio (column <= 2.6 x TARGET_TAU: not_saturated)
CONTRIB_ENTRIES = ('contrib', 'full_contrib')
NLAYERS = 7
TARGET_TAU = np.array([0.03, 0.4, 1.5, 4.0])      # column depth of the cross-section world at Rp = 1
K_SPREAD = np.array([0.05, 1.0, 12.0])            # correlated-k: coefficients really differ across the points
K_WEIGHTS = [0.25, 0.45, 0.3]
REL = 1e-12
PHYS = ('rp', 'ts', 'dist', 'tp', 'mix')


class BadReturn(Exception):
    pass


class World:
    """One (model class, temperature profile) with its opacity data in BOTH modes registered once: a cross-section
    object in OpacityCache and a pickle k-table in ktable_path, so that the mode is switched by the global option
    alone (what a user does)."""

    def __init__(self, kind, iso, kdir, seed):
        self.kind, self.iso, self.kdir = kind, iso, kdir
        self.name = '%s:%s' % (kind, 'iso' if iso else 'noniso')
        # counts behind the ids of the specification (1..NC) and sizes of the user rules (1..NR): all different
        perm = [[4, 2, 6], [3, 5, 2], [2, 4, 7], [5, 3, 8]][seed % 4]
        self.counts = dict((i + 1, n) for i, n in enumerate(perm))
        # user rule 1: the midpoint rule with as many points as the count the object remembers from its construction (the same
        # size as a rule already stored, other nodes; sum w = 1, sum w mu = 1/2, so the isothermal identity holds for it);
        # user rule 2: a Gauss-Legendre rule of another size
        self.rule_sizes = {1: self.counts[1], 2: 9}
        self.sigma = None
        self.fresh_cache = {}
        self.direct_ratios = []

    # -- opacity data
    def install(self):
        from taurex.cache import OpacityCache, GlobalCache
        from .fixtures import LayerOpacity
        fx.reset_all()
        self.sigma = np.ones(len(WN))
        OpacityCache().add_opacity(LayerOpacity(MOL, WN, lambda T, P: self.sigma))
        fx.write_pickle_ktable(self.kdir, MOL, WN, [50.0, 20000.0], [1.0, 1e7],
                               np.zeros((2, 2, len(WN), len(K_WEIGHTS))), K_WEIGHTS)
        GlobalCache()['ktable_path'] = self.kdir
        GlobalCache()['opacity_method'] = 'xsec'
        probe = self.build(dict(rp=0, ts=0, dist=0, tp=0, mix=0, quad=['gauss', 1], mode='xsec'))
        m = probe
        col = float(np.sum(np.asarray(m.deltaz, dtype=float) * np.asarray(m.densityProfile, dtype=float)
                           * np.asarray(m.chemistry.get_gas_mix_profile(MOL), dtype=float)))
        if not (col > 0 and math.isfinite(col)):
            raise Machinery('settings world %s: column of the probe model is %r' % (self.name, col))
        self.sigma = TARGET_TAU / col
        self.col = col
        k = (self.sigma[:, None] * K_SPREAD[None, :]) * 1e4                 # cm^2
        fx.write_pickle_ktable(self.kdir, MOL, WN, [50.0, 20000.0], [1.0, 1e7],
                               np.broadcast_to(k, (2, 2) + k.shape).copy(), K_WEIGHTS)
        from taurex.cache.ktablecache import KTableCache
        KTableCache().clear_cache()

    def user_rule(self, r):
        n = self.rule_sizes[r]
        if r == 1:
            return np.array([-1.0 + (2 * i + 1) / n for i in range(n)]), np.full(n, 2.0 / n)
        mu, w = np.polynomial.legendre.leggauss(n)
        return np.array(mu), np.array(w)

    def build(self, c):
        """a NEW model of configuration c (the global mode is c['mode'] while it is built)"""
        from taurex.cache import GlobalCache
        from taurex.model import EmissionModel, DirectImageModel
        from taurex.chemistry import TaurexChemistry, ConstantGas
        from taurex.temperature import NPoint, Isothermal
        from taurex.contributions import AbsorptionContribution
        from taurex.planet import Planet
        from taurex.stellar import BlackbodyStar
        GlobalCache()['opacity_method'] = c['mode']
        chem = TaurexChemistry(fill_gases=['H2', 'He'], ratio=0.17)
        chem.addGas(ConstantGas(MOL, MIX[c.get('mix', 0)]))
        tp = Isothermal(T=T_ISO[c.get('tp', 0)]) if self.iso else NPoint(T_surface=T_SURF[c.get('tp', 0)], T_top=T_TOP)
        n = self.counts[c['quad'][1]] if c['quad'][0] == 'gauss' else self.counts[1]
        kw = dict(planet=Planet(planet_mass=1.0, planet_radius=RP[c['rp']]),
                  star=BlackbodyStar(temperature=TS[c['ts']], radius=STAR_R, distance=DIST[c['dist']]), chemistry=chem,
                  temperature_profile=tp, nlayers=NLAYERS, atm_min_pressure=1e1, atm_max_pressure=1e6, ngauss=n)
        m = EmissionModel(**kw) if self.kind == 'emission' else DirectImageModel(**kw)
        m.add_contribution(AbsorptionContribution())
        m.build()
        if c['quad'][0] == 'user':
            m.set_quadratures(*self.user_rule(c['quad'][1]))
        return m

    # -- one setting changed through the public API
    def apply(self, m, name, route, v):
        from taurex.cache import GlobalCache
        if name == 'rp':
            if route == 'param':
                m['planet_radius'] = RP[v]
            else:
                m.planet.radius = RP[v]
        elif name == 'ts':
            m.star.temperature = TS[v]
        elif name == 'dist':
            m.star.distance = DIST[v]
        elif name == 'tp':
            m['T' if self.iso else 'T_surface'] = (T_ISO if self.iso else T_SURF)[v]
        elif name == 'mix':
            m[MOL] = MIX[v]
        elif name == 'num_gauss':
            m.set_num_gauss(self.counts[v])
        elif name == 'quadratures':
            m.set_quadratures(*self.user_rule(v))
        elif name == 'mode':
            GlobalCache()['opacity_method'] = route
        else:
            raise Machinery('unknown setting %r' % (name,))

    def move_to(self, m, cur, c):
        """bring a long-lived object to configuration c through the setters (a behaviour of the specification)"""
        for name in PHYS:
            if cur.get(name, 0) != c.get(name, 0):
                self.apply(m, name, 'param', c[name])
        if cur['quad'] != c['quad']:
            self.apply(m, 'num_gauss' if c['quad'][0] == 'gauss' else 'quadratures', '', c['quad'][1])
        if cur['mode'] != c['mode']:
            self.apply(m, 'mode', c['mode'], 0)

    # -- evaluation
    def evaluate(self, m, entry, c):
        nq = self.counts[c['quad'][1]] if c['quad'][0] == 'gauss' else self.rule_sizes[c['quad'][1]]
        if entry == 'partial':
            I, imu, w, _ = m.partial_model()
            I, imu, w = np.asarray(I, dtype=float), np.ravel(np.asarray(imu, dtype=float)), np.ravel(np.asarray(w, dtype=float))
            if I.shape != (nq, len(WN)) or imu.shape != (nq,) or w.shape != (nq,):
                raise BadReturn('partial_model() with %d angles in force returned shapes %r, %r, %r' % (nq, I.shape, imu.shape, w.shape))
            return np.concatenate([I.ravel(), imu, w])
        if entry in CONTRIB_ENTRIES:
            # one contribution with one absorber: {'Absorption': (flux, tau, extra)} / {'Absorption': [('H2O', flux, tau, extra)]}
            g, d = m.model_contrib() if entry == 'contrib' else m.model_full_contrib()
            g = np.asarray(g, dtype=float)
            if not isinstance(d, dict) or sorted(d) != ['Absorption']:
                raise BadReturn('%s() returned contributions %r' % ('model_' + entry, sorted(d) if isinstance(d, dict) else type(d)))
            item = d['Absorption']
            if entry == 'full_contrib':
                if not isinstance(item, (list, tuple)) or len(item) != 1 or item[0][0] != MOL:
                    raise BadReturn('model_full_contrib() returned components %r' % ([x[0] for x in item],))
                out = np.asarray(item[0][1], dtype=float)
            else:
                out = np.asarray(item[0], dtype=float)
            if g.shape != WN.shape or not np.array_equal(g, WN) or out.shape != WN.shape:
                raise BadReturn('model_%s() returned grid %r, spectrum of shape %r' % (entry, g, out.shape))
            return out
        g, out, _, _ = m.model()
        g, out = np.asarray(g, dtype=float), np.asarray(out, dtype=float)
        if g.shape != WN.shape or not np.array_equal(g, WN) or out.shape != WN.shape:
            raise BadReturn('model() returned grid %r, spectrum of shape %r' % (g, out.shape))
        return out

    def fresh(self, entry, c):
        key = (entry, c['rp'], c['ts'], c['dist'], c.get('tp', 0), c.get('mix', 0), tuple(c['quad']), c['mode'])
        if key not in self.fresh_cache:
            self.fresh_cache[key] = self.evaluate(self.build(c), entry, c)
        return self.fresh_cache[key]

    def rule(self, c):
        """nodes and weights on [0, 1] of the quadrature in force under configuration c"""
        if c['quad'][0] == 'gauss':
            x, w = np.polynomial.legendre.leggauss(self.counts[c['quad'][1]])
        else:
            x, w = self.user_rule(c['quad'][1])
        return (np.asarray(x, dtype=float) + 1.0) / 2.0, np.asarray(w, dtype=float) / 2.0

    def documented(self, m, entry, c):
        """The documented integral itself for configuration c, evaluated by the harness on the layers of the atmosphere
        the model exposes (temperatureProfile, densityProfile, deltaz, mixing ratio: layer geometry is C11): surface
        blackbody attenuated by the full column + per layer B(T_l) (transmittance above - transmittance below), slant
        transmittance = sum_g w_g exp(-depth_g / mu) (one point in cross-section mode), Planck function of the harness.
        No clamp: the fixture's smallest column stays below 10 (not_saturated).  Returns what evaluate() returns, for the
        direct image per unit of its (unpinned) constant."""
        from taurex.constants import RJUP, RSOL
        T = np.asarray(m.temperatureProfile, dtype=float)
        cu = np.asarray(m.densityProfile, dtype=float) * np.asarray(m.deltaz, dtype=float) * \
            np.asarray(m.chemistry.get_gas_mix_profile(MOL), dtype=float)
        if c['mode'] == 'ktables':
            kg, wg = K_SPREAD, np.asarray(K_WEIGHTS, dtype=float)
        else:
            kg, wg = np.array([1.0]), np.array([1.0])
        tau = cu[:, None, None] * self.sigma[None, :, None] * kg[None, None, :]            # [layer, wn, g]
        above = np.concatenate([np.cumsum(tau[::-1], axis=0)[::-1][1:], np.zeros((1,) + tau.shape[1:])], axis=0)
        mu, wq = self.rule(c)
        B = np.array([[fx.planck_b(w, t) for w in WN] for t in T])                         # [layer, wn]

        def tr(x, a):
            return np.sum(wg[None, :] * np.exp(-x / mu[a]), axis=-1)
        I = np.zeros((len(mu), len(WN)))
        for a in range(len(mu)):
            I[a] = B[0] * tr(above[0] + tau[0], a)
            for l in range(len(T)):
                I[a] += B[l] * (tr(above[l], a) - tr(above[l] + tau[l], a))
        if entry == 'partial':
            return np.concatenate([I.ravel(), 1.0 / mu, wq])
        twoF = 2.0 * np.sum(I * (mu * wq)[:, None], axis=0)
        if self.kind == 'emission':
            geo = (RP[c['rp']] * RJUP / (STAR_R * RSOL)) ** 2
            return twoF * geo / np.array([fx.planck_b(w, TS[c['ts']]) for w in WN])
        return twoF * (RP[c['rp']] * RJUP / (DIST[c['dist']] * fx.PARSEC_M)) ** 2

    def blackbody_ratio(self, c):
        from taurex.constants import RJUP, RSOL
        geo = (RP[c['rp']] * RJUP / (STAR_R * RSOL)) ** 2
        return np.array([fx.planck_b(w, T_ISO[c.get('tp', 0)]) / fx.planck_b(w, TS[c['ts']]) * geo for w in WN])

    def not_saturated(self):
        # largest column of the cross-section world: N ~ 1/g ~ Rp^2; the clamp needs depth >= 10 at EVERY wavenumber
        return float(np.min(TARGET_TAU)) * (max(RP) / RP[0]) ** 2 * 1.5 * (max(MIX) / MIX[0]) * (max(T_SURF + T_ISO) / min(T_ISO)) < 10.0


def step_label(s):
    if s[0] == 'eval':
        return s[1] + '()'
    return {'tp': 'temperature_point', 'mix': 'mixing_ratio', 'rp': 'planet_radius/' + str(s[2]), 'ts': 'star.temperature', 'dist': 'star.distance',
            'num_gauss': 'set_num_gauss', 'quadratures': 'set_quadratures', 'mode': 'opacity_method=' + str(s[2])}[s[1]]


def run_world(ctx, world, walks, code_raised, cfg, rebuild_every=16):
    """All exported walks on one world: per start configuration ONE long-lived model (rebuilt now and then, so that
    first evaluations after construction are exercised too), brought back to the start through the setters."""
    world.install()
    if not world.not_saturated():
        raise Machinery('settings world %s can saturate: the isothermal identity would need the exp(-10) slack' % world.name)
    groups = {}
    for wk in walks:
        i = wk['init']
        groups.setdefault((i['rp'], i['ts'], i['dist'], i.get('tp', 0), i.get('mix', 0), tuple(i['quad']), i['mode']), []).append(wk)
    nev = 0
    for key in sorted(groups):
        m, cur = None, None
        for k, wk in enumerate(groups[key]):
            init = dict(wk['init'], quad=list(wk['init']['quad']))
            trail = []
            vec = dict(settings_walk=True, cfg=cfg, world=world.name, kind=world.kind, iso=world.iso, init=init, walk=wk['walk'], seed=ctx.seed)
            try:
                if m is None or k % rebuild_every == 0:
                    m, cur = world.build(init), dict(init)
                else:
                    world.move_to(m, cur, init)
                    cur = dict(init)
                from taurex.cache import GlobalCache
                GlobalCache()['opacity_method'] = cur['mode']
                for s in wk['walk']:
                    trail.append(step_label(s))
                    if s[0] == 'set':
                        world.apply(m, s[1], s[2], s[3])
                        if s[1] in PHYS:
                            cur[s[1]] = s[3]
                        elif s[1] == 'num_gauss':
                            cur['quad'] = ['gauss', s[3]]
                        elif s[1] == 'quadratures':
                            cur['quad'] = ['user', s[3]]
                        else:
                            cur['mode'] = s[2]
                        continue
                    nev += 1
                    cls = 'settings:%s:%s' % (world.name, '>'.join(trail[-4:]))
                    got = world.evaluate(m, s[1], cur)
                    exp = world.fresh(s[1], cur)
                    ok = got.shape == exp.shape and bool(np.all(np.isfinite(got))) and \
                        bool(np.all(np.abs(got - exp) <= REL * np.abs(exp)))
                    ctx.verdict('evaluation_uses_current_settings', ok, cls=cls,
                                detail='%s after %s (start %r): long-lived model %r, freshly built model of the current settings %r %r'
                                       % (world.name, ' '.join(trail), init, got[:4].tolist(), cur, exp[:4].tolist()), vector=vec)
                    doc = world.documented(m, s[1], cur)
                    if s[1] in CONTRIB_ENTRIES:
                        # one contribution: its spectrum is the whole model's (relation to a FRESH model's model())
                        ref = world.fresh('model', cur)
                        ctx.verdict('evaluation_uses_current_settings', got.shape == ref.shape and bool(np.all(np.isfinite(got))) and
                                    bool(np.all(np.abs(got - ref) <= REL * np.abs(ref))), cls=cls + ':vs-model()',
                                    detail='%s after %s: model_%s() of the only contribution %r, model() of a freshly built model of %r: %r'
                                           % (world.name, ' '.join(trail), s[1], got[:4].tolist(), cur, ref[:4].tolist()), vector=vec)
                    if world.kind == 'emission' or s[1] == 'partial':
                        okd = got.shape == doc.shape and bool(np.all(np.isfinite(got))) and \
                            bool(np.all(np.abs(got - doc) <= REL * np.abs(doc)))
                        ctx.verdict('eclipse_flux_formula' if s[1] != 'partial' else 'intensity_formula', okd, cls=cls,
                                    detail='%s after %s: got %r, documented integral for the current settings %r: %r'
                                           % (world.name, ' '.join(trail), got[:4].tolist(), cur, doc[:4].tolist()), vector=vec)
                    elif got.shape == doc.shape:
                        for x in (got / doc).tolist():
                            world.direct_ratios.append((x, cls, vec))
                    if world.iso and s[1] != 'partial':
                        if world.kind == 'emission':
                            r = got / world.blackbody_ratio(cur)
                            oki = bool(np.all(np.isfinite(r))) and float(r.min()) >= 1 - REL and float(r.max()) <= 1 + REL
                            ctx.verdict('isothermal_identity', oki, cls=cls,
                                        detail='%s after %s: flux / (B(T)/B(T*)(Rp/Rs)^2 of the current planet and star %r) in [%r, %r]'
                                               % (world.name, ' '.join(trail), cur, float(r.min()), float(r.max())), vector=vec)
            except BadReturn as ex:
                ctx.verdict('evaluates_without_error', False, cls='settings:%s:%s' % (world.name, '>'.join(trail[-4:])), detail=str(ex), vector=vec)
                m = None
            except Exception as ex:
                code_raised(ctx, ex, 'settings:%s:%s' % (world.name, '>'.join(trail[-4:])), vec)
                m = None
    if world.direct_ratios:
        ref = sorted(x[0] for x in world.direct_ratios)[len(world.direct_ratios) // 2]
        for r, cls, vec in world.direct_ratios:
            ctx.verdict('direct_image_proportional', math.isfinite(ref) and ref > 0 and abs(r - ref) <= REL * abs(ref), cls=cls,
                        detail='direct image / (documented flux x Rp^2/d^2 of the current settings) = %r, median %r' % (r, ref), vector=vec)
    ctx.traces += len(walks)
    fx.reset_all()
    return nev
