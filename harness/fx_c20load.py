"""C20 -- spec/KTableLoad.tla bound to the real k-table readers and the real transmission kernel.

Every exported table (format x weights x coefficients per wavenumber) is written as a file of that format
(PickleKTable, HDF5KTable, NemesisKTables .kta), discovered and loaded by KTableCache from ktable_path, and
its (opacity, weights) are handed to the real kernel taurex.contributions.absorption.contribute_ktau on a
path of n units.  The transmittance must be the file's weight-averaged exponential
    sum_g w[g] 2^(-k[wn][g] n) / sum_g w[g]            (exact rational from TLC),
lie in [0, 1] and be at least exp(-sum_g w_g tau_g).

Numbers: coefficient unit 2^-3 x 1e-20 cm^2 (the NEMESIS container stores float32 in units of 1e-20: k/8 is exact in
float32, the weights are dyadic), unit path ln 2 / (2^-3 x 1e-24 m^2).  Tolerance: tau <= 12 ln 2 = 8.4; the loaded coefficient,
its product with the path and the exponential each round at 2^-53 relative, so every term of the sum is off by at
most ~4 tau e^-tau 2^-53 < 2e-16 and the result by < 1e-15 absolute; 1e-12 is used (pickle, HDF5).
The NEMESIS reader scales the float32 words by 1e-20 in float32 arithmetic: 1e-20 itself and the product are each
rounded to 24 bits, a relative error of at most 2 x 2^-24 = 1.2e-7 on every coefficient, hence on tau, and
|dT| <= max(tau e^-tau) x 1.2e-7 = 0.368 x 1.2e-7 = 4.4e-8 on the weighted sum: 5e-8 is used for that container.
"""
import math
import os
import pickle
import shutil
import tempfile
from fractions import Fraction

import numpy as np

UNIT_CM2 = 0.125e-20
PATH_UNIT = math.log(2.0) / (UNIT_CM2 / 1e4)
TOL = 1e-12
TOL_FORMAT = {'pickle': 1e-12, 'hdf5': 1e-12, 'nemesis': 5e-8}
WN = np.array([400.0, 500.0])
TEMPS = np.array([300.0, 900.0])
PRESS_BAR = np.array([1e-3, 1.0])
MOL = 'H2O'


def write_pickle(d, k, w):
    rec = dict(bin_centers=WN, ngauss=len(w), t=TEMPS, p=PRESS_BAR, kcoeff=k, weights=np.asarray(w, dtype=float), name=MOL)
    with open(os.path.join(d, MOL + '.R100.ktable.pickle'), 'wb') as f:
        pickle.dump(rec, f)


def write_hdf5(d, k, w):
    import h5py
    with h5py.File(os.path.join(d, MOL + '_R100.h5'), 'w') as f:
        f['bin_centers'] = WN
        f['ngauss'] = len(w)
        f['t'] = TEMPS
        f.create_dataset('p', data=PRESS_BAR).attrs['units'] = 'bar'
        f['kcoeff'] = k
        f['weights'] = np.asarray(w, dtype=float)


def write_nemesis(d, k, w):
    """NEMESIS .kta (as read by NemesisKTables): 10 header words, quadrature samples and weights (float32), two
    words, pressures (bar), temperatures, wavelengths in micron (ascending wavelength), coefficients
    [wavelength, P, T, g] in units of 1e-20."""
    ng = len(w)
    head_i = np.zeros(10, dtype=np.int32)
    head_f = head_i.view(np.float32)
    wl = (10000.0 / WN)[::-1]
    head_i[0] = 0
    head_i[1] = len(WN)
    head_f[2] = wl[0]
    head_f[3] = 0.0
    head_i[4] = 0
    head_i[5], head_i[6], head_i[7] = len(PRESS_BAR), len(TEMPS), ng
    samples = (np.arange(ng) + 0.5) / ng
    body = [np.asarray(samples, dtype=np.float32), np.asarray(w, dtype=np.float32), np.zeros(2, dtype=np.float32),
            PRESS_BAR.astype(np.float32), TEMPS.astype(np.float32), wl.astype(np.float32)]
    kk = np.transpose(k, (2, 0, 1, 3))[::-1] / 1e-20          # [wavelength ascending, P, T, g]
    k32 = kk.astype(np.float32)
    if not np.array_equal(k32.astype(float) * 1e-20, kk * 1e-20):
        raise ValueError('coefficients not representable in the NEMESIS container')
    body.append(k32.ravel())
    with open(os.path.join(d, MOL + '_verif.kta'), 'wb') as f:
        f.write(head_i.tobytes())
        for b in body:
            f.write(np.ascontiguousarray(b).tobytes())


WRITERS = {'pickle': write_pickle, 'hdf5': write_hdf5, 'nemesis': write_nemesis}


def run(ctx, vecs):
    from taurex.cache import GlobalCache
    from taurex.cache.ktablecache import KTableCache
    from taurex.contributions.absorption import contribute_ktau
    gc = GlobalCache()
    saved = {k: gc.variable_dict.get(k) for k in ('ktable_path', 'opacity_method', 'xsec_interpolation')}
    root = tempfile.mkdtemp(prefix='verif_c20load_')
    n = 0
    try:
        for vi, v in enumerate(vecs):
            fmt = v['fmt']
            TOL = TOL_FORMAT[fmt]
            w = np.array([float(x) for x in v['w']]) / float(sum(v['w']))
            ks = np.array(v['k'], dtype=float)                      # [wn, g]
            k = np.zeros((len(PRESS_BAR), len(TEMPS), len(WN), len(w)))
            k[:, :] = ks * UNIT_CM2
            d = os.path.join(root, 'v%d' % vi)
            os.makedirs(d)
            WRITERS[fmt](d, k, w)
            cls = 'load:%s:%s' % (fmt, 'symmetric' if v['sym'] else 'asymmetric')
            vec = dict(load=True, fmt=fmt, w=v['w'], k=v['k'])
            gc['ktable_path'] = d
            gc['xsec_interpolation'] = 'linear'
            KTableCache().clear_cache()
            try:
                obj = KTableCache()[MOL]
                wl = np.asarray(obj.weights, dtype=float)
                sig = np.asarray(obj.opacity(600.0, 1e3), dtype=float)
            except Exception as e:
                ctx.verdict('weighted_transmittance', False, cls=cls + ':load', detail='table %r not loadable through KTableCache: %r' % (v, e), vector=vec)
                continue
            if wl.shape != w.shape or sig.shape != (len(WN), len(w)) or not np.all(np.isfinite(sig)) or not np.all(np.isfinite(wl)):
                ctx.verdict('weighted_transmittance', False, cls=cls + ':shape', detail='weights %r opacity shape %r for file weights %r' % (wl.tolist(), sig.shape, w.tolist()), vector=vec)
                continue
            n += 1
            for npath, exp in zip(v['paths'], v['expect']):
                tau = np.zeros((1, len(WN)))
                try:
                    contribute_ktau(0, 1, 0, sig[None, :, :].copy(), np.ones(1), np.array([npath * PATH_UNIT]), wl.copy(), tau, len(WN), 0, len(w))
                    T = np.exp(-tau[0])
                except Exception as e:
                    ctx.verdict('weighted_transmittance', False, cls=cls + ':kernel', detail='kernel failed: %r' % (e,), vector=vec)
                    break
                for wi in range(len(WN)):
                    want = float(Fraction(int(exp[wi]), int(exp[2])))
                    got = float(T[wi])
                    ctx.verdict('weighted_transmittance', math.isfinite(got) and abs(got - want) <= TOL, cls=cls + ':weighted-exponential',
                                detail='%s file, weights %r/%d, k[wn %d] = %r ln2, path %d: transmittance %.15g, the file\'s weight-averaged exponential %.15g'
                                       % (fmt, v['w'], sum(v['w']), wi, v['k'][wi], npath, got, want), vector=dict(vec, n=npath, wn=wi))
                    mean = float(np.dot(w, ks[wi])) * npath * math.log(2.0)
                    ctx.verdict('transmittance_bounds', math.isfinite(got) and -TOL <= got <= 1 + TOL and got >= math.exp(-mean) - TOL, cls=cls + ':bounds',
                                detail='%s file, weights %r, k %r, path %d: transmittance %.15g, exp(-weight-averaged tau) %.15g' % (fmt, v['w'], v['k'][wi], npath, got, math.exp(-mean)),
                                vector=dict(vec, n=npath, wn=wi))
    finally:
        for k_, val in saved.items():
            if val is None:
                gc.variable_dict.pop(k_, None)
            else:
                gc.variable_dict[k_] = val
        KTableCache().clear_cache()
        shutil.rmtree(root, ignore_errors=True)
    return n
