"""History independence of long-lived objects (spec/Functional.tla, Trace_Functional.tla).

A Scenario names up to 3 settings with up to 3 values each, knows how to build a FRESH object for a
configuration, how to change one setting of a long-lived object through the public API, and how to
observe the result.  TLC generates the walks (set / eval sequences); the driver replays them on one
long-lived object and, at each eval, also on a freshly built object; Trace_Functional.tla validates
that every evaluation equals the fresh one (and that the reference itself is a function of cfg).
"""
import numpy as np

from . import core
from .core import Machinery, validate_trace


class Scenario:
    name = 'scenario'
    dims = []          # list of lists: the values of each setting

    def fresh(self, values):
        raise NotImplementedError

    def set(self, obj, d, value, values):
        """change setting d (0-based) of obj to value; `values` is the full new configuration"""
        raise NotImplementedError

    def observe(self, obj):
        raise NotImplementedError


def digest(x):
    """round to 11 significant digits so that only real differences count"""
    if isinstance(x, dict):
        return '{' + ','.join('%s:%s' % (k, digest(v)) for k, v in sorted(x.items())) + '}'
    if isinstance(x, (list, tuple)):
        return '[' + ','.join(digest(v) for v in x) + ']'
    if x is None or isinstance(x, (str, bool, int)):
        return repr(x)
    a = np.asarray(x)
    if a.dtype.kind in 'fc':
        return 'a%s(%s)' % (a.shape, ','.join('%.10e' % v for v in a.ravel().tolist()))
    return 'a%s(%s)' % (a.shape, ','.join(str(v) for v in a.ravel().tolist()))


def _obs(sc, obj):
    try:
        return digest(sc.observe(obj))
    except Machinery:
        raise
    except Exception as e:
        return 'EXC:' + type(e).__name__


def walks_from_tlc(n, seed, depth=9):
    res = core.run_tlc('MC_Functional', 'SIM_Functional.cfg', workers=1, simulate='num=%d' % n, depth=depth + 3, seed=seed)
    w = res.tagged('WALK')
    if len(w) < max(1, n // 2):
        raise Machinery('TLC produced only %d walks' % len(w))
    return w, res


def run_history(ctx, scenarios, nwalks, clause='history_independent'):
    walks, res = walks_from_tlc(nwalks, ctx.seed + 11)
    ctx.add_tlc('simulate-walks', res, counts=False)
    events, meta = [], {}
    ids = {}
    tid = 0
    dense = []
    for w in walks:          # the same walk with an evaluation after every change (also a behaviour of the spec)
        dw = []
        for step in w['walk']:
            dw.append(step)
            if step[0] == 'set':
                dw.append(['eval', 0, 0])
        dense.append(dict(init=w['init'], walk=dw))
    for sc in scenarios:
        nd = len(sc.dims)
        for w in walks + dense:
            tid += 1
            cfg = [w['init'][d] % len(sc.dims[d]) for d in range(nd)]
            vals = [sc.dims[d][cfg[d]] for d in range(nd)]
            trail = []
            try:
                obj = sc.fresh(vals)
            except Exception as e:
                raise Machinery('scenario %s cannot build its start object: %r' % (sc.name, e))
            events.append(dict(tid=tid, ev='init', cfg=list(cfg), d=0, v=0, dig=0, fresh=0))
            meta[tid] = dict(scenario=sc.name, init=list(vals), trail=trail)
            for op, d, v in w['walk']:
                if op == 'set':
                    d0 = d - 1
                    if d0 >= nd:
                        continue
                    v0 = v % len(sc.dims[d0])
                    if v0 == cfg[d0]:
                        continue
                    cfg[d0] = v0
                    vals[d0] = sc.dims[d0][v0]
                    trail.append('set%d=%r' % (d0, vals[d0]))
                    try:
                        sc.set(obj, d0, vals[d0], list(vals))
                    except Exception as e:      # a setter that raises for a value fresh() accepts
                        trail.append('SETTER-RAISED:%s' % type(e).__name__)
                    events.append(dict(tid=tid, ev='set', cfg=[], d=d, v=v0, dig=0, fresh=0))
                else:
                    a = _obs(sc, obj)
                    try:
                        b = _obs(sc, sc.fresh(list(vals)))
                    except Exception as e:
                        b = 'EXC-FRESH:' + type(e).__name__
                    ia = ids.setdefault(a, len(ids) + 1)
                    ib = ids.setdefault(b, len(ids) + 1)
                    trail.append('eval' + ('' if ia == ib else '!'))
                    if ia != ib:
                        meta[tid]['first_diff'] = 'long-lived %s... vs fresh %s...' % (a[:160], b[:160])
                    events.append(dict(tid=tid, ev='eval', cfg=[], d=0, v=0, dig=ia, fresh=ib))
    ok, bad, res2 = validate_trace('Trace_Functional', 'Trace_Functional.cfg', events, timeout=1200)
    ctx.add_tlc('trace-history', res2, counts=False)
    if res2.postcondition_false and not bad:
        raise Machinery('history trace not fully consumed:\n' + res2.out[-1200:])
    badt = {b['tid']: b for b in bad}
    for t, m in meta.items():
        b = badt.get(t)
        ctx.verdict(clause, b is None, cls='%s:%s' % (m['scenario'], ('>'.join(m['trail'][-4:])) if b else ''),
                    detail='%s after %s (start %r): %s' % (m['scenario'], ' '.join(m['trail']), m['init'], m.get('first_diff', '')),
                    vector=dict(history=m['scenario'], init=m['init'], trail=m['trail']))
    ctx.traces += len(meta)
    # canary: an evaluation whose digest differs must be rejected
    good = [e for e in events if e['ev'] == 'eval' and e['tid'] not in badt]
    if good:
        t = good[0]['tid']
        tr = [dict(e) for e in events if e['tid'] == t]
        for e in tr:
            if e['ev'] == 'eval':
                e['dig'] = e['dig'] + 100000
                break
        ok3, bad3, _ = validate_trace('Trace_Functional', 'Trace_Functional.cfg', tr)
        if ok3 or not bad3:
            raise Machinery('canary accepted: history validation is vacuous')
    elif not ctx.has_violations():
        raise Machinery('no accepted evaluation for the history canary')
    return len(meta)
