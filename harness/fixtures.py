"""Fixtures that put known numbers into the real TauREx classes (no file of /repo is touched)."""
import numpy as np

from taurex.opacity.interpolateopacity import InterpolatingOpacity
from taurex.opacity.opacity import Opacity
from taurex.opacity.ktables.ktable import KTable


class GridOpacity(InterpolatingOpacity):
    """InterpolatingOpacity over an explicit table xsec[P, T, wn] (cm^2)."""

    def __init__(self, name, wn, temps, press, xsec, mode='linear'):
        super().__init__('GridOpacity:' + name, interpolation_mode=mode)
        self._name = name
        self._wn = np.asarray(wn, dtype=float)
        self._t = np.asarray(temps, dtype=float)
        self._p = np.asarray(press, dtype=float)
        self._x = np.asarray(xsec, dtype=float)

    @property
    def moleculeName(self):
        return self._name

    @property
    def xsecGrid(self):
        return self._x

    @property
    def wavenumberGrid(self):
        return self._wn

    @property
    def temperatureGrid(self):
        return self._t

    @property
    def pressureGrid(self):
        return self._p

    @property
    def resolution(self):
        return 100


class GridKTable(KTable, InterpolatingOpacity):
    """k-table layout kcoeff[P, T, wn, g] served through the same interpolation code."""

    def __init__(self, name, wn, temps, press, kcoeff, weights, mode='linear'):
        InterpolatingOpacity.__init__(self, 'GridKTable:' + name, interpolation_mode=mode)
        self._name = name
        self._wn = np.asarray(wn, dtype=float)
        self._t = np.asarray(temps, dtype=float)
        self._p = np.asarray(press, dtype=float)
        self._x = np.asarray(kcoeff, dtype=float)
        self._w = np.asarray(weights, dtype=float)

    moleculeName = property(lambda s: s._name)
    xsecGrid = property(lambda s: s._x)
    wavenumberGrid = property(lambda s: s._wn)
    temperatureGrid = property(lambda s: s._t)
    pressureGrid = property(lambda s: s._p)
    weights = property(lambda s: s._w)
    resolution = property(lambda s: 100)


class LayerOpacity(Opacity):
    """Plain Opacity returning an exact per-layer cross-section (cm^2 -> caller divides):
    values are keyed by the layer pressure the model passes in."""

    def __init__(self, name, wn, by_pressure):
        super().__init__('LayerOpacity:' + name)
        self._name = name
        self._wn = np.asarray(wn, dtype=float)
        self._by = by_pressure     # callable(T, P) -> array(nw) in m^2

    moleculeName = property(lambda s: s._name)
    wavenumberGrid = property(lambda s: s._wn)
    temperatureGrid = property(lambda s: np.array([1.0, 1e5]))
    pressureGrid = property(lambda s: np.array([1e-20, 1e20]))
    resolution = property(lambda s: 100)

    def compute_opacity(self, temperature, pressure, wngrid=None):
        v = np.asarray(self._by(temperature, pressure), dtype=float)
        if wngrid is None:
            return v
        return v[wngrid]


def reset_caches():
    from taurex.cache import OpacityCache, CIACache, GlobalCache
    OpacityCache().clear_cache()
    CIACache().cia_dict = {}
    try:
        from taurex.cache.ktablecache import KTableCache
        KTableCache().clear_cache()
    except Exception:
        pass
