"""Fixtures for the saturation part of C13: forward models with several contributions whose spectra have
saturated bands and transparent windows in the same layer.

Nothing here computes an expected spectrum.  The helpers build real Transmission / Emission models from
tables (cross-sections constant in T and P, every contribution on its OWN wavenumber grid) and measure,
with the real `contribute()` of every prepared contribution, the optical depth that contribution adds to
every layer at every native point -- the inputs `inc[c][w]` of spec/Saturation.tla.  Which of them a
computation may leave out is decided by the specification (Trace_Saturation.tla), not here."""
import math

import numpy as np

from taurex.cia.cia import CIA
from taurex.contributions import Contribution

from .fixtures import GridOpacity

MOLS = ['H2O', 'CH4', 'CO2']


class GridTableContribution(Contribution):
    """A user-defined contribution (public extension point): cross-section per unit number density (m^2),
    the same in every layer, given on its own wavenumber grid and interpolated linearly onto the computed
    grid.  contribute() is inherited from the real base class (the numba kernel)."""

    def __init__(self, name, wn, sigma):
        super().__init__(name)
        self.wn = np.asarray(wn, dtype=float)
        self.sig = np.asarray(sigma, dtype=float)

    def prepare_each(self, model, wngrid):
        self._nlayers = model.nLayers
        self._ngrid = wngrid.shape[0]
        row = np.interp(np.asarray(wngrid, dtype=float), self.wn, self.sig)
        yield self._name, np.repeat(row[None, :], model.nLayers, axis=0)

    @classmethod
    def input_keywords(cls):
        return ['verifgridtable']


class ConstCIA(CIA):
    """CIA pair whose table does not depend on temperature (own wavenumber grid)."""

    def __init__(self, pair, wn, row):
        super().__init__('ConstCIA', pair)
        self._wn = np.asarray(wn, dtype=float)
        self._row = np.asarray(row, dtype=float)

    @property
    def wavenumberGrid(self):
        return self._wn

    @property
    def temperatureGrid(self):
        return np.array([100.0, 5000.0])

    def compute_cia(self, temperature):
        return self._row


def const_opacity(name, wn, vals_m2):
    wn = np.asarray(wn, dtype=float)
    v = np.asarray(vals_m2, dtype=float) * 1e4          # cm^2
    x = np.broadcast_to(v, (2, 2, len(wn))).copy()
    return GridOpacity(name, wn, [50.0, 5000.0], [1e-6, 1e8], x, 'linear')


def clear_caches():
    from taurex.cache import OpacityCache, CIACache
    OpacityCache().clear_cache()
    CIACache().cia_dict = {}


def register(comps):
    """(Re-)register the tables of all components in the global caches (models look them up at prepare time)."""
    from taurex.cache import OpacityCache, CIACache
    clear_caches()
    for c in comps:
        if c['type'] == 'abs':
            for nm, g, v in c['mols']:
                OpacityCache().add_opacity(const_opacity(nm, g, np.asarray(v) * c.get('scale', 1.0)))
        elif c['type'] == 'cia':
            CIACache().add_cia(ConstCIA('H2-He', c['grid'], np.asarray(c['vals']) * c.get('scale', 1.0)))
        elif c['type'] == 'table':
            c['obj'].sig = np.asarray(c['vals'], dtype=float) * c.get('scale', 1.0)


def build(kind, comps, *, nlayers=6, pmin=1e-1, pmax=1e5, temps=None, ngauss=2, mix=1e-4, cloudP=None):
    """comps (evaluation order = list order; all default contributions share order 5 and the sort is stable):
       {'type':'abs',   'mols':[(name, grid, vals_m2), ...]}
       {'type':'table', 'grid':.., 'vals':..}      user-defined contribution
       {'type':'cia',   'grid':.., 'vals':..}      H2-He pair
       {'type':'rayleigh'}                          the real Rayleigh contribution of the gases present"""
    from taurex.model import TransmissionModel, EmissionModel
    from taurex.chemistry import TaurexChemistry, ConstantGas
    from taurex.temperature import Isothermal
    from taurex.data.profiles.temperature.temparray import TemperatureArray
    from taurex.planet import Planet
    from taurex.stellar import BlackbodyStar
    from taurex.contributions import AbsorptionContribution, CIAContribution, RayleighContribution
    for c in comps:
        if c['type'] == 'table' and 'obj' not in c:
            c['obj'] = GridTableContribution(c.get('name', 'GridTable'), c['grid'], c['vals'])
    register(comps)
    chem = TaurexChemistry(fill_gases=['H2', 'He'], ratio=0.17)
    for c in comps:
        if c['type'] == 'abs':
            for nm, _, _ in c['mols']:
                chem.addGas(ConstantGas(nm, mix))
    tp = Isothermal(T=1000.0) if temps is None else TemperatureArray(tp_array=list(temps))
    kw = dict(planet=Planet(planet_mass=1.0, planet_radius=1.0), star=BlackbodyStar(temperature=5000.0, radius=1.0),
              chemistry=chem, temperature_profile=tp, nlayers=nlayers, atm_min_pressure=pmin, atm_max_pressure=pmax)
    m = EmissionModel(ngauss=ngauss, **kw) if kind == 'emission' else TransmissionModel(**kw)
    for c in comps:
        if c['type'] == 'abs':
            obj = AbsorptionContribution()
        elif c['type'] == 'cia':
            obj = CIAContribution(cia_pairs=['H2-He'])
        elif c['type'] == 'rayleigh':
            obj = RayleighContribution()
        else:
            obj = c['obj']
        c['contrib'] = obj
        m.add_contribution(obj)
    m.build()
    return m


def measure(m, kind):
    """Optical depths added by each contribution of the model (as prepared by the LAST run, which must have been
    on the full native grid), layer by layer, with the contribution's own contribute().
    transmission: x[c][layer][w] = what path_integral would add to tau[layer]
    emission:     (xl[c][layer][w], xd[c][layer][w]) = above the layer / including the layer"""
    n = m.nLayers
    dens = m.densityProfile
    out = []
    for contrib in m.contribution_list:
        nw = contrib.sigma_xsec.shape[-1]
        if kind == 'transmission':
            buf = np.zeros((n, nw))
            for layer in range(n):
                contrib.contribute(m, 0, n - layer, layer, layer, dens, buf, path_length=m.path_length[layer])
            out.append(buf)
        else:
            dz = m.deltaz
            xl = np.zeros((n, nw))
            xd = np.zeros((n, nw))
            for layer in range(n):
                a = np.zeros((1, nw))
                b = np.zeros((1, nw))
                contrib.contribute(m, layer + 1, n, 0, 0, dens, a, path_length=dz)
                contrib.contribute(m, layer, layer + 1, 0, 0, dens, b, path_length=dz)
                xl[layer] = a[0]
                xd[layer] = a[0] + b[0]
            out.append((xl, xd))
    return out


def depth_of_tau(T):
    """-ln(transmittance); inf where the transmittance underflowed"""
    T = np.asarray(T, dtype=float)
    with np.errstate(divide='ignore'):
        return -np.log(T)


EXP10 = math.exp(-10.0)
