"""Simulated MPI runs for C18: one real process per rank, a hub in the parent.

``RankGroup(size, worker_main)`` forks ``size`` workers.  Each worker puts harness/doubles first on
``sys.path`` (so that ``from mpi4py import MPI`` inside taurex finds the double), attaches the
double's COMM_WORLD to its pipe, clears the ``lru_cache`` of ``taurex.mpi.get_rank/nprocs`` and then
serves ``run(payload)`` requests by calling ``worker_main(rank, size, payload)``.  While a request
runs, the parent acts as the hub: a collective completes when every rank has posted its
contribution; all values travel through pipes, i.e. are pickled.

Collectives that cannot complete are an outcome of the code under test, not a failure of the harness: when
every rank either waits in a collective or has returned and the waiting ones cannot be matched (some ranks
returned or raised without taking part; ranks wait in different collectives; ranks wait in collectives of
different cases of the batch) the hub *aborts* the waiting ranks -- the collective raises ``Exchange`` inside
the code under test, the worker reports the case as raised -- and records the event in ``last_aborts``; the
group stays in step and ``run`` returns normally.  A real MPI run would hang there.

Robustness: every pipe read has a timeout; workers are daemonic, exit when the parent end closes or
stays silent, and are terminated/killed/joined by ``close()`` (also registered with atexit).
"""
import atexit
import multiprocessing as mp
import os
import sys
import time
import traceback
from multiprocessing.connection import wait

DOUBLES = os.path.join(os.path.dirname(os.path.abspath(__file__)), 'doubles')
TIMEOUT = float(os.environ.get('VERIF_MPI_TIMEOUT', '180'))
IDLE = 900.0

_LIVE = []


class GroupFailure(Exception):
    """The simulated run could not complete (timeout, dead worker, unmatched collective)."""


def _worker(rank, size, conn, inherited, worker_main, timeout):
    try:
        for c in inherited:
            try:
                c.close()
            except Exception:
                pass
        sys.path.insert(0, DOUBLES)
        import mpi4py
        mpi4py.MPI.COMM_WORLD._attach(rank, size, conn, timeout)
        from taurex import mpi
        for f in (mpi.get_rank, mpi.nprocs, mpi.shared_comm, mpi.shared_rank):
            f.cache_clear()
        if mpi.get_rank() != rank or mpi.nprocs() != size:
            conn.send(('error', 'taurex.mpi does not see the communicator double'))
            os._exit(3)
        devnull = os.open(os.devnull, os.O_WRONLY)
        os.dup2(devnull, 1)
        os.dup2(devnull, 2)
        conn.send(('ready', os.getpid()))
        while True:
            if not conn.poll(IDLE):
                break
            try:
                msg = conn.recv()
            except EOFError:
                break
            if msg[0] == 'stop':
                break
            try:
                out = worker_main(rank, size, msg[1])
                conn.send(('done', out))
            except BaseException:
                conn.send(('error', traceback.format_exc()))
    except BaseException:
        pass
    finally:
        os._exit(0)


class RankGroup(object):
    def __init__(self, size, worker_main, timeout=TIMEOUT):
        self.size = size
        self.timeout = timeout
        self.conns = []
        self.procs = []
        self.dead = False
        self.collectives = 0
        self.last_aborts = []
        ctx = mp.get_context('fork')
        _LIVE.append(self)
        for r in range(size):
            a, b = ctx.Pipe()
            p = ctx.Process(target=_worker, args=(r, size, b, list(self.conns) + [a], worker_main, timeout))
            p.daemon = True
            p.start()
            b.close()
            self.conns.append(a)
            self.procs.append(p)
        for r, c in enumerate(self.conns):
            if not c.poll(timeout):
                self.close()
                raise GroupFailure('rank %d of %d did not start within %ss' % (r, size, timeout))
            msg = c.recv()
            if msg[0] != 'ready':
                self.close()
                raise GroupFailure('rank %d of %d failed to start: %r' % (r, size, msg))

    def run(self, payload):
        """Run one request on every rank.  Returns a list (by rank) of worker results.
        Raises GroupFailure (the group is closed) if a rank raises, dies or the collectives do not match."""
        if self.dead:
            raise GroupFailure('group is closed')
        for c in self.conns:
            c.send(('run', payload))
        results = [None] * self.size
        done = [False] * self.size
        pending = {}
        self.last_aborts = []

        def abort(ranks, why):
            if len(self.last_aborts) >= 50:
                raise GroupFailure('more than 50 aborted collectives in one request (%s)' % why)
            self.last_aborts.append(dict(ranks=sorted(ranks), why=why,
                                         epoch=sorted(set(pending[r][4] for r in ranks))))
            for r in sorted(ranks):
                self.conns[r].send(('abort', why))
                del pending[r]
        deadline = time.time() + self.timeout
        try:
            while not all(done):
                active = [c for r, c in enumerate(self.conns) if not done[r] and r not in pending]
                if not active:
                    abort(list(pending), 'unmatched collective: ranks %s wait in %s, ranks %s returned without taking part' %
                          (sorted(pending), sorted(set(m[1] for m in pending.values())),
                           [r for r in range(self.size) if done[r]]))
                    continue
                ready = wait(active, timeout=max(0.0, deadline - time.time()))
                if not ready:
                    raise GroupFailure('timeout after %ss (waiting for ranks %s)' %
                                       (self.timeout, [self.conns.index(c) for c in active]))
                for c in ready:
                    r = self.conns.index(c)
                    try:
                        msg = c.recv()
                    except EOFError:
                        raise GroupFailure('rank %d died' % r)
                    if msg[0] == 'done':
                        done[r] = True
                        results[r] = msg[1]
                    elif msg[0] == 'error':
                        raise GroupFailure('rank %d raised:\n%s' % (r, msg[1]))
                    elif msg[0] == 'coll':
                        pending[r] = msg
                    else:
                        raise GroupFailure('rank %d sent %r' % (r, msg[0]))
                if pending and len(pending) + sum(done) == self.size:
                    epochs = sorted(set(m[4] for m in pending.values()))
                    if len(epochs) > 1:
                        # ranks are in different cases of the batch: the ones that lag behind wait for ranks
                        # that left that case without taking part
                        lag = [r for r, m in pending.items() if m[4] == epochs[0]]
                        abort(lag, 'unmatched collective: ranks %s wait in %s, the others left the case without taking part' %
                              (sorted(lag), sorted(set(pending[r][1] for r in lag))))
                        continue
                if len(pending) == self.size:
                    kinds = set(m[1] for m in pending.values())
                    if len(kinds) != 1:
                        abort(list(pending), 'ranks entered different collectives: %s' %
                              sorted((r, m[1]) for r, m in pending.items()))
                        continue
                    kind = kinds.pop()
                    if kind == 'allgather':
                        vals = [pending[r][2] for r in range(self.size)]
                        for c in self.conns:
                            c.send(('reply', vals))
                    elif kind == 'bcast':
                        root = pending[0][3]
                        for c in self.conns:
                            c.send(('reply', pending[root][2]))
                    else:
                        raise GroupFailure('unknown collective %r' % kind)
                    pending = {}
                    self.collectives += 1
                    deadline = time.time() + self.timeout
                elif pending and len(pending) + sum(done) == self.size:
                    abort(list(pending), 'unmatched collective: ranks %s wait in %s, ranks %s returned without taking part' %
                          (sorted(pending), sorted(set(m[1] for m in pending.values())),
                           [r for r in range(self.size) if done[r]]))
        except GroupFailure:
            self.close()
            raise
        return results

    def close(self):
        if self.dead:
            return
        self.dead = True
        for c in self.conns:
            try:
                c.send(('stop',))
            except Exception:
                pass
        t_end = time.time() + 3.0
        for p in self.procs:
            p.join(max(0.0, t_end - time.time()))
        for p in self.procs:
            if p.is_alive():
                p.terminate()
        for p in self.procs:
            p.join(2.0)
            if p.is_alive():
                p.kill()
                p.join(2.0)
        for c in self.conns:
            try:
                c.close()
            except Exception:
                pass
        if self in _LIVE:
            _LIVE.remove(self)


def close_all():
    for g in list(_LIVE):
        g.close()


atexit.register(close_all)
