"""Fixtures for the third round of C11: forward models assembled from components of EVERY built-in type.

Nothing here computes an expected value.  The helpers only
  * build each built-in temperature component that can be TOLD the temperature of every layer
    (`told_temperature`: the kinds of Atmosphere.tla!TempComponentKinds) -- binding A,
  * draw the settings of every built-in temperature component (Isothermal, TemperatureArray with and
    without pressure points / interpolated, TemperatureFile, Guillot2010, NPoint, Rodgers2000) and of
    every gas type of TaurexChemistry (ConstantGas, ArrayGas, TwoLayerGas, TwoPointGas, PowerGas) as
    RECIPES, so that a second, identical, never-used component can be built at any time -- binding B,
  * read every array a model exposes (`read_exposed`), compare two arrays for identity of shape and
    content (`same_array`) and take the fixed sample of entries that is logged (`sample`).
"""
import math
import os

import numpy as np

TABLE_COVERS = ['table_inside_both', 'table_inside_below', 'table_inside_above', 'table_beyond']
TABLE_ROUTES = ['array', 'array_rev', 'file']        # TemperatureArray(p_points), the same top first + reverse=True, TemperatureFile(press_col)
TOLD_KINDS = ['array', 'file', 'rodgers_identity', 'array_ppoints', 'file_pcol', 'npoint_nodes', 'isothermal'] + \
             ['%s/%s' % (c, r) for r in TABLE_ROUTES for c in TABLE_COVERS]
TEMP_KINDS = ['isothermal', 'array', 'array-interp', 'array-ppoints', 'file', 'file-pcol', 'guillot', 'npoint',
              'rodgers', 'rodgers-cov']
GAS_TYPES = ['constant', 'array', 'twolayer', 'twopoint', 'power']
POWER_TYPES = ['H2O', 'H2', 'Na', 'K']         # molecules PowerGas knows coefficients for


def _classes():
    from taurex.data.profiles.temperature import Isothermal, Guillot2010, NPoint, Rodgers2000, TemperatureFile
    from taurex.data.profiles.temperature.temparray import TemperatureArray
    from taurex.data.profiles.chemistry import TaurexChemistry, ConstantGas, TwoLayerGas, PowerGas
    from taurex.data.profiles.chemistry.gas.twopointgas import TwoPointGas
    from taurex.data.profiles.chemistry.gas.arraygas import ArrayGas
    return locals()


_COUNTER = [0]


def _tmp(dirname, tag):
    _COUNTER[0] += 1
    return os.path.join(dirname, '%s-%d.dat' % (tag, _COUNTER[0]))


def _write_rows(path, rows, header=0, delimiter=' '):
    with open(path, 'w') as f:
        for _ in range(header):
            f.write('# temperature profile\n')
        for r in rows:
            f.write(delimiter.join(repr(float(x)) for x in r) + '\n')
    return path


# --------------------------------------------------------------------------- binding A
def told_temperature(kind, T, lay_pa, lev_pa, dirname, nodes=None):
    """The built-in temperature component of the given kind, told the temperature T[k] (K) of every
    layer; lay_pa / lev_pa are the layer / level pressures the grid of the vector declares (Pa).
    kind 'table_<cover>/<route>': `nodes` = the (P in Pa, T in K) nodes of the spec's table for that cover, surface first."""
    K = _classes()
    if kind.startswith('table_'):
        route = kind.split('/')[1]
        P, Tn = [float(p) for p, _ in nodes], [float(t) for _, t in nodes]
        if route == 'array':
            return K['TemperatureArray'](tp_array=Tn, p_points=P)
        if route == 'array_rev':
            return K['TemperatureArray'](tp_array=Tn[::-1], p_points=P[::-1], reverse=True)
        if route == 'file':
            path = _write_rows(_tmp(dirname, 'told-table'), [[t, p / 100.0] for p, t in zip(P, Tn)], header=1)
            return K['TemperatureFile'](filename=path, skiprows=1, temp_col=0, press_col=1, press_units='mbar')
        raise ValueError(kind)
    T = [float(t) for t in T]
    n = len(T)
    if kind == 'array':
        return K['TemperatureArray'](tp_array=list(T))
    if kind == 'file':
        return K['TemperatureFile'](filename=_write_rows(_tmp(dirname, 'told-T'), [[t] for t in T]))
    if kind == 'rodgers_identity':
        return K['Rodgers2000'](temperature_layers=list(T), covariance_matrix=np.eye(n))
    if kind == 'array_ppoints':
        return K['TemperatureArray'](tp_array=list(T), p_points=[float(p) for p in lay_pa])
    if kind == 'file_pcol':
        # pressure column in bar, two header lines
        path = _write_rows(_tmp(dirname, 'told-PT'), [[p / 1.0e5, t] for p, t in zip(lay_pa, T)], header=2)
        return K['TemperatureFile'](filename=path, skiprows=2, temp_col=1, press_col=0, press_units='bar')
    if kind == 'npoint_nodes':
        if n == 1:      # one layer: both nodes carry the layer's temperature, placed on its two levels
            return K['NPoint'](T_surface=T[0], T_top=T[0], P_surface=float(lev_pa[0]), P_top=float(lev_pa[-1]),
                               temperature_points=[], pressure_points=[], smoothing_window=0)
        return K['NPoint'](T_surface=T[0], T_top=T[-1], temperature_points=list(T[1:-1]),
                           pressure_points=[float(p) for p in lay_pa[1:-1]], smoothing_window=0)
    if kind == 'isothermal':
        return K['Isothermal'](T=T[0])
    raise ValueError(kind)


# --------------------------------------------------------------------------- binding B: temperature
def temperature_recipe(kind, rng, n, lmax, lmin, dirname, cover=None):
    """-> recipe dict(kind, tmax (an upper bound of the temperatures the component can expose, K; None
    for guillot until `finish_guillot`), args...).  lmax / lmin: log10 of the pressure range in Pa."""
    def temps(m):
        style = rng.random()
        if style < 0.3:
            return [rng.uniform(200.0, 3000.0)] * m
        if style < 0.6:
            a, b = rng.uniform(200.0, 3000.0), rng.uniform(200.0, 3000.0)
            return [float(x) for x in np.linspace(a, b, m)]
        return [rng.uniform(200.0, 3000.0) for _ in range(m)]

    def nodes(m, lo, hi):
        """m pressures (Pa), strictly decreasing, strictly inside 10^(lo, hi)"""
        xs = sorted((rng.uniform(lo, hi) for _ in range(m)), reverse=True)
        for j in range(1, m):           # keep neighbouring nodes apart
            if xs[j - 1] - xs[j] < 1e-3:
                xs[j] = xs[j - 1] - 1e-3
        return [10.0 ** x for x in xs]

    r = dict(kind=kind)
    if kind == 'isothermal':
        r.update(T=rng.uniform(200.0, 3000.0))
        r['tmax'] = r['T']
    elif kind == 'array':
        r.update(T=temps(n))
        r['tmax'] = max(r['T'])
    elif kind == 'array-interp':
        r.update(T=temps(rng.randint(2, 7)))            # any number of entries: interpolated over the layers
        r['tmax'] = max(r['T'])
    elif kind in ('array-ppoints', 'file-pcol'):
        m = rng.randint(2, 6)
        r.update(T=temps(m), P=nodes(m, lmin - 1.0, lmax + 1.0), reverse=(kind == 'array-ppoints' and rng.random() < 0.4),
                 unit=rng.choice(['Pa', 'bar', 'mbar']), header=rng.choice([0, 1, 3]))
        # where the table lies relative to the grid (own random stream: the draws above stay what they were): as drawn,
        # strictly inside the grid (the grid reaches beyond it on both sides), or around it (the table reaches beyond the grid)
        sub = __import__('random').Random(int(abs(math.log10(r['P'][0])) * 1e9) + 7 * m)      # (does not consume from rng)
        cover = cover or sub.choice(['any', 'any', 'inside', 'inside', 'around'])
        span = lmax - lmin
        if cover == 'inside':
            xs = sorted((sub.uniform(lmin + 0.3 * span, lmax - 0.3 * span) for _ in range(m)), reverse=True)
        elif cover == 'around':
            xs = [lmax + sub.uniform(0.2, 1.0)] + sorted((sub.uniform(lmin, lmax) for _ in range(m - 2)), reverse=True) + [lmin - sub.uniform(0.2, 1.0)]
        if cover != 'any':
            for j in range(1, m):
                if xs[j - 1] - xs[j] < 1e-3:
                    xs[j] = xs[j - 1] - 1e-3
            r['P'] = [10.0 ** x for x in xs]
            if r['T'][0] == r['T'][-1]:          # the two ends must differ, or the far end could not be told from the near one
                r['T'][-1] = r['T'][0] + (150.0 if r['T'][0] < 2800.0 else -150.0)
        r['cover'] = cover
        r['tmax'] = max(r['T'])
    elif kind == 'file':
        r.update(T=temps(n), header=rng.choice([0, 2]))
        r['tmax'] = max(r['T'])
    elif kind == 'guillot':
        g1, g2 = 10.0 ** rng.uniform(-0.5, 0.5), 10.0 ** rng.uniform(-0.5, 0.5)
        r.update(T_irr=rng.uniform(300.0, 1800.0), g1=g1, g2=g2, alpha=rng.uniform(0.0, 1.0), T_int=rng.uniform(0.0, 150.0),
                 u=rng.random(), tmax=3000.0)
    elif kind == 'npoint':
        k = rng.randint(0, 3)
        step = (lmax - lmin) / (2.0 * n)                # the surface / top LAYER sit half a layer inside the range
        explicit = (n == 1) or rng.random() < 0.4       # one layer: surface and top layer coincide, P_surface / P_top must be told
        lo, hi = (lmin, lmax) if explicit else (lmin + step, lmax - step)
        eps = 0.02 * (hi - lo)
        r.update(T_surface=rng.uniform(200.0, 3000.0), T_top=rng.uniform(200.0, 3000.0), tpoints=[rng.uniform(200.0, 3000.0) for _ in range(k)],
                 ppoints=nodes(k, lo + eps, hi - eps), P_surface=(10.0 ** lmax if explicit else None),
                 P_top=(10.0 ** lmin if explicit else None), smooth=rng.choice([0, 10, 10, 30]))
        r['tmax'] = max([r['T_surface'], r['T_top']] + r['tpoints'])
    elif kind in ('rodgers', 'rodgers-cov'):
        r.update(T=temps(n), h=rng.uniform(1.0, 10.0))
        r['tmax'] = max(r['T'])
    else:
        raise ValueError(kind)
    r['dir'] = dirname
    return r


def finish_guillot(r, gravity, pmax):
    """Guillot2010: the mean infra-red opacity is drawn once the surface gravity is known, so that the optical depth
    at the surface stays below 1e4 (temperatures then stay below about 3000 K)."""
    if r['kind'] != 'guillot' or 'kappa_ir' in r:
        return r
    hi = min(0.0, math.log10(1.0e4 * gravity / pmax))
    lo = min(-4.0, hi - 1.0)
    r['kappa_ir'] = 10.0 ** (lo + r['u'] * (hi - lo))
    return r


def make_temperature(r):
    """A NEW component from the recipe (files are rewritten: a component never shares state with another)."""
    K = _classes()
    kind = r['kind']
    if kind == 'isothermal':
        return K['Isothermal'](T=r['T'])
    if kind in ('array', 'array-interp'):
        return K['TemperatureArray'](tp_array=list(r['T']))
    if kind == 'array-ppoints':
        T, P = list(r['T']), list(r['P'])
        if r['reverse']:
            return K['TemperatureArray'](tp_array=T[::-1], p_points=P[::-1], reverse=True)
        return K['TemperatureArray'](tp_array=T, p_points=P)
    if kind == 'file-pcol':
        from astropy import units as u
        per = float(u.Unit(r['unit']).to('Pa'))
        path = _write_rows(_tmp(r['dir'], 'rnd-PT'), [[t, p / per] for t, p in zip(r['T'], r['P'])], header=r['header'], delimiter=',')
        return K['TemperatureFile'](filename=path, skiprows=r['header'], temp_col=0, press_col=1, press_units=r['unit'], delimiter=',')
    if kind == 'file':
        # an index column, then the temperature column (Kelvin), one line per layer
        path = _write_rows(_tmp(r['dir'], 'rnd-T'), [[j, t] for j, t in enumerate(r['T'])], header=r['header'])
        return K['TemperatureFile'](filename=path, skiprows=r['header'], temp_col=1)
    if kind == 'guillot':
        return K['Guillot2010'](T_irr=r['T_irr'], kappa_irr=r['kappa_ir'], kappa_v1=r['g1'] * r['kappa_ir'],
                                kappa_v2=r['g2'] * r['kappa_ir'], alpha=r['alpha'], T_int=r['T_int'])
    if kind == 'npoint':
        return K['NPoint'](T_surface=r['T_surface'], T_top=r['T_top'], P_surface=r['P_surface'], P_top=r['P_top'],
                           temperature_points=list(r['tpoints']), pressure_points=list(r['ppoints']), smoothing_window=r['smooth'])
    if kind == 'rodgers':
        return K['Rodgers2000'](temperature_layers=list(r['T']), correlation_length=r['h'])
    if kind == 'rodgers-cov':
        n = len(r['T'])
        idx = np.arange(n)
        cov = np.exp(-np.abs(idx[:, None] - idx[None, :]) / r['h'])        # symmetric, positive
        return K['Rodgers2000'](temperature_layers=list(r['T']), covariance_matrix=cov)
    raise ValueError(kind)


# --------------------------------------------------------------------------- binding B: gases
def gas_recipe(gtype, name, rng, n, lmax, lmin, cap):
    """One gas of a TaurexChemistry; cap: upper bound of its mixing ratio (the sum over all gases stays below 1)."""
    lc = math.log10(cap)
    if gtype == 'constant':
        return dict(type=gtype, name=name, mix=10.0 ** rng.uniform(-6.0, lc))
    if gtype == 'array':
        return dict(type=gtype, name=name, arr=[10.0 ** rng.uniform(-6.0, lc) for _ in range(n)])
    if gtype == 'twolayer':
        return dict(type=gtype, name=name, surf=10.0 ** rng.uniform(-7.0, lc), top=10.0 ** rng.uniform(-7.0, lc),
                    P=10.0 ** rng.uniform(lmin, lmax), smooth=rng.choice([0, 10, 10, 30]))
    if gtype == 'twopoint':
        return dict(type=gtype, name=name, surf=10.0 ** rng.uniform(-7.0, lc), top=10.0 ** rng.uniform(-7.0, lc))
    if gtype == 'power':
        r = dict(type=gtype, name=name, ptype=rng.choice(POWER_TYPES), surf=10.0 ** rng.uniform(-6.0, min(lc, -1.5)), coeff=None)
        if rng.random() < 0.3:
            r['coeff'] = (rng.uniform(0.5, 2.0), rng.uniform(-0.2, 5.0) * 1.0e4, rng.uniform(6.0, 24.0))
        return r
    raise ValueError(gtype)


def make_gas(r):
    K = _classes()
    t = r['type']
    if t == 'constant':
        return K['ConstantGas'](r['name'], mix_ratio=r['mix'])
    if t == 'array':
        return K['ArrayGas'](r['name'], list(r['arr']))
    if t == 'twolayer':
        return K['TwoLayerGas'](r['name'], mix_ratio_surface=r['surf'], mix_ratio_top=r['top'], mix_ratio_P=r['P'],
                                mix_ratio_smoothing=r['smooth'])
    if t == 'twopoint':
        return K['TwoPointGas'](r['name'], mix_ratio_surface=r['surf'], mix_ratio_top=r['top'])
    if t == 'power':
        kw = dict(molecule_name=r['name'], profile_type=r['ptype'], mix_ratio_surface=r['surf'])
        if r['coeff']:
            kw.update(alpha=r['coeff'][0], beta=r['coeff'][1], gamma=r['coeff'][2])
        return K['PowerGas'](**kw)
    raise ValueError(t)


def make_taurex_chemistry(ratio, gases):
    K = _classes()
    chem = K['TaurexChemistry'](fill_gases=['H2', 'He'], ratio=ratio)
    for g in gases:
        chem.addGas(make_gas(g))
    return chem


# --------------------------------------------------------------------------- reading what a model exposes
def read_exposed(model):
    """One pass over every array the model exposes, each COPIED as it is read: name -> array | None
    (None: the attribute is absent / None, or reading it raised)."""
    out = {}

    def grab(name, f):
        try:
            v = f()
            out[name] = None if v is None else np.array(v, dtype=float, copy=True)
        except Exception:
            out[name] = None
    ch = model.chemistry
    grab('pressure_profile', lambda: model.pressureProfile)
    grab('pressure_levels', lambda: model.pressure.pressure_profile_levels)
    grab('temp_profile', lambda: model.temperatureProfile)
    grab('density_profile', lambda: model.densityProfile)
    grab('altitude_profile', lambda: model.altitudeProfile)
    grab('altitude_boundaries', lambda: model.altitude_boundaries)
    grab('deltaz', lambda: model.deltaz)
    grab('gravity_profile', lambda: model.gravity_profile)
    grab('scaleheight_profile', lambda: model.scaleheight_profile)
    grab('mu_profile', lambda: ch.muProfile)
    grab('active_mix_profile', lambda: ch.activeGasMixProfile)
    grab('inactive_mix_profile', lambda: ch.inactiveGasMixProfile)
    try:
        gen = model.generate_profiles()
    except Exception:
        gen = {}
    for k in sorted(gen):
        grab('generate_profiles:' + k, lambda k=k: gen[k])
    return out


def same_array(a, b):
    """both absent, or one shape and equal entry by entry (NaN equal to NaN)"""
    if a is None or b is None:
        return a is None and b is None
    return a.shape == b.shape and bool(np.array_equal(a, b, equal_nan=True))


def sample(a, keep=6):
    """the fixed sample of entries that is logged: first three, middle, last two of the flattened array"""
    if a is None:
        return []
    flat = np.asarray(a, dtype=float).ravel()
    s = flat.shape[0]
    idx = list(range(s)) if s <= keep else [0, 1, 2, s // 2, s - 2, s - 1]
    return [float(flat[i]) for i in idx]
