"""C13, the LENGTH of the computed grid (spec/MC_GridLength.tla).

The statement forbids a dependence of the value at a wavenumber on "which other wavenumbers are computed" -- hence also on
HOW MANY are computed and on where the point sits inside the computed grid.  TLC exports observation-like requests on
a uniform native grid that is longer than every threshold of interest (150 points in the quick tier, 300 in the
thorough one) whose clips have EVERY length 1 .. N-1, at the low end, inside and at the high end of the native grid, and
proves that these clips separate every slip of the class "the implementation of a per-point kernel is chosen from the
shape of the computed grid" (below / from / only a number of points, remainder of a K-wide kernel, end points) from the
documented design.  Here the requests are evaluated on real emission, direct-image and transmission models (the
optically thin fixtures of fx_c13hist: two molecules on different grids + Rayleigh, tables depending on T and P; the
exp(-10) licence never fires -- checked), through model() and, for a part of them, model_contrib() /
model_full_contrib(); every returned spectrum and layer array must equal the FULL native computation of a freshly built
model at the computed points.

Tolerance: every operation between the cross-section tables and the returned values acts on one wavenumber at a time
(interpolation in T and P, sums over layers and molecules, exp, the Planck function, the division by the stellar SED), so
the restricted computation performs the same floating-point operations on the same operands as the full one; the only
legitimate difference is the last-bit behaviour of vectorised kernels (exp / pow in a SIMD body vs. its scalar
remainder loop, fastmath re-association): a few ulp = 1e-15 relative per operation, < 1e-13 after the ~100 operations
that enter a value.  fx_c13hist.TOL = 1e-12 relative (spectra) / absolute (layer arrays, which are <= 1) is that bound
with a decade of margin; the unchanged code is bit-for-bit identical on all lengths."""
import numpy as np

from . import fx_c13hist as fh
from .core import Machinery

OFFSET, SCALE = 400, 3                       # wavenumber = OFFSET + SCALE * coordinate (integers: exact in floats)


class LenAlphabet:
    """the ALPHA record of MC_GridLength (native grid, second molecule's grid) + its REQ records as requests"""
    name = 'L'

    def __init__(self, rec, reqs):
        self.nat_i = [OFFSET + SCALE * x for x in rec['nat']]
        self.mol_i = [OFFSET + SCALE * x for x in rec['mol']]
        self.nat = np.array(self.nat_i, dtype=float)
        self.mol = np.array(self.mol_i, dtype=float)
        self.kmax = int(rec['kmax'])
        self.lengths = set(int(x) for x in rec['lengths'])
        self.wins = [fh.Win(0, None, True)]
        self.reqs = []
        for i, r in enumerate(sorted(reqs, key=lambda r: (r['len'], r['fam'], r['lo']))):
            w = fh.Win(i + 1, [OFFSET + SCALE * x for x in r['oc']], True)
            if len(w.oc) > 6:
                w.label = 'w%d[%d,%d,..,%d: %d native points]' % (w.w, w.oc[0], w.oc[1], w.oc[-1], len(w.oc))
            self.wins.append(w)
            self.reqs.append(dict(r, w=w.w))
        # the contribution structure of the fx_c13hist models (absorption of two molecules, Rayleigh)
        self.comps = {'abs': frozenset({1, 2}), 'ray': frozenset({3})}

    compset = fh.Alphabet.compset


def bucket(n):
    """input class of a length: [2^k, 2^(k+1))"""
    k = max(int(n), 1).bit_length() - 1
    return 'L=%d' % n if n < 2 else 'L=%d..%d' % (2 ** k, 2 ** (k + 1) - 1)


def position(r, n):
    return 'low-end' if r['lo'] == 1 else 'high-end' if r['hi'] == n else 'inside'


def run(ctx, alpha, rng, quick, clause='pointwise_independent'):
    """every length on every model kind -> (evaluations judged, grids other than the documented clip, Fixture)"""
    fx = fh.Fixture(ctx, [alpha])
    n = len(alpha.nat_i)
    by_len = {}
    for r in alpha.reqs:
        by_len.setdefault(r['len'], []).append(r)
    missing = sorted(set(range(1, n)) - set(by_len))
    if missing or not set(range(1, n)) <= alpha.lengths:
        raise Machinery('MC_GridLength exported no request whose clip has %r native points' % (missing[:8],))
    neval, inexact, seen, refused = 0, 0, {}, 0
    try:
        for ki, kind in enumerate(fh.KINDS):
            T = rng.choice(fh.T_VALUES[kind])
            mix = rng.choice(fh.MIX_VALUES[kind])
            h = fh.Holder(alpha, kind, T, mix)              # ONE long-lived model per kind, as in a retrieval
            shift = rng.randrange(1000)
            nfresh = 0
            for L in sorted(by_len):
                cand = by_len[L]
                picks = [cand[(shift + L) % len(cand)]] if quick else cand
                for j, r in enumerate(picks):
                    win = alpha.wins[r['w']]
                    # a part of the requests through the per-component entry points
                    entry = fh.ENTRIES[1 + (L + ki) % 2] if (L + shift + j) % 8 == 0 else 'model'
                    cls = 'len:%s:%s:%s:%s%s' % (kind, r['fam'], position(r, n), bucket(L), '' if entry == 'model' else ':' + entry)
                    vec = dict(kind='len', model=kind, T=T, mix=mix, entry=entry, req=dict(r), tier_n=n)
                    what = '%s model (T=%g, mix=%g), %s on %s (documented clip: native[%d..%d], %d of %d points)' % (
                        kind, T, mix, fh.ENTRY_NAME[entry], win.label, r['lo'], r['hi'], L, n)
                    try:
                        res = h.evaluate(win, entry)
                    except Exception as ex:
                        if isinstance(ex, Machinery) or fh.harness_fault(ex):
                            raise Machinery('length replay failed inside the harness: %r' % (ex,))
                        if r['ilo'] == 0:
                            # no native point inside the observation's own range: what the clip keeps beyond it is the
                            # documented margin, which the statement does not prescribe -- a request REFUSED for want of a
                            # native point is not judged (GridHistory!HRefuse); the object must serve the next one as before
                            refused += 1
                            continue
                        ctx.verdict(clause, False, cls=cls, detail='%s: evaluation raised %s: %s (the full native computation succeeds)'
                                    % (what, type(ex).__name__, ex), vector=vec)
                        h = fh.Holder(alpha, kind, T, mix)
                        neval += 1
                        continue
                    if r['ilo'] == 0 and len(res.grid) == 0:
                        refused += 1                       # (refused with an empty answer instead of an exception)
                        continue
                    lo, hi, gdev, dev, tdev, text = fx.compare(alpha, kind, T, mix, win, res)
                    covers = lo >= 1 and (r['ilo'] == 0 or (lo <= r['ilo'] and r['ihi'] <= hi))
                    if (lo, hi) != (r['lo'], r['hi']):
                        inexact += 1                       # not the documented clip (the statement does not prescribe the margin)
                    ok = covers and dev <= fh.TOL and tdev <= fh.TOL
                    if not ok and covers and nfresh < 3:
                        # attribute the difference: the same request on a model that has computed nothing else
                        nfresh += 1
                        try:
                            f = fx.compare(alpha, kind, T, mix, win, fh.Holder(alpha, kind, T, mix).evaluate(win, entry))
                            text += '; a freshly built model asked the same: %s' % ('differs as well (%s)' % f[5] if max(f[3], f[4]) > fh.TOL else 'agrees with the full computation')
                        except Exception as ex:
                            if isinstance(ex, Machinery) or fh.harness_fault(ex):
                                raise
                    ctx.verdict(clause, ok, cls=cls, detail='%s: %s' % (what, text if covers else
                                'returned native[%d..%d], which does not cover the native points %d..%d inside the observation; %s' % (lo, hi, r['ilo'], r['ihi'], text)),
                                vector=vec)
                    neval += 1
                    seen.setdefault(kind, set()).add(hi - lo + 1 if lo >= 1 else L)
    finally:
        fh.install([])
    if not ctx.has_violations():
        for kind in fh.KINDS:
            gap = sorted(set(range(1, n)) - seen.get(kind, set()))
            if gap and not inexact and not refused:
                raise Machinery('vacuous: no %s evaluation computed %r points' % (kind, gap[:8]))
        if fx.not_thin:
            raise Machinery('length fixtures are not optically thin (the exp(-10) cut-off could fire): %r' % (fx.not_thin[:3],))
    return neval, inexact, fx, refused


def replay_vector(ctx, alpha, vec, clause='pointwise_independent'):
    """--replay of one recorded case on a fresh long-lived model"""
    fx = fh.Fixture(ctx, [alpha])
    r = vec['req']
    match = [x for x in alpha.reqs if x['oc'] == r['oc']]
    if not match:
        raise Machinery('replay: request %r is not exported by MC_GridLength' % (r['oc'][:4],))
    win = alpha.wins[match[0]['w']]
    try:
        h = fh.Holder(alpha, vec['model'], vec['T'], vec['mix'])
        try:
            res = h.evaluate(win, vec['entry'])
        except Exception as ex:
            if isinstance(ex, Machinery) or fh.harness_fault(ex):
                raise
            ctx.verdict(clause, False, cls='len:%s:replay' % vec['model'], detail='evaluation raised %r' % (ex,), vector=vec)
            return
        lo, hi, gdev, dev, tdev, text = fx.compare(alpha, vec['model'], vec['T'], vec['mix'], win, res)
        ctx.verdict(clause, lo >= 1 and dev <= fh.TOL and tdev <= fh.TOL, cls='len:%s:replay' % vec['model'], detail=text, vector=vec)
    finally:
        fh.install([])
