"""Fixtures for C06 (strengthening after seeded changes, second round; no file of /repo is touched).

Observations that carry fitting parameters (compile_params appends the observation's fitted parameters after the
forward model's), so that the DATA side of chi^2 changes with the parameter vector:

 * toy world "obs" of spec/MC_Likelihood.tla: the world "two" plus an additive offset `o` (linear mode) and a
   multiplicative scale `s` (log mode) that live on the observation:  spectrum = Data * s + o
 * ToyParamObs: the WnSpectrum of fx_retrieval (real BaseSpectrum -> real FluxBinner) with those parameters
 * OffsetScaleSpectrum: a real ArraySpectrum subclass with `obs_offset` (ppm, @fitparam) and `obs_scale`
   (@fitparam): spectrum = base * obs_scale + obs_offset * 1e-6 (a new array on every read, as real
   instrument-systematics observation classes do)
"""
import numpy as np

from . import fx_retrieval as fx

# same world as MC_Likelihood.tla, Layout = "obs"; obs: (name, role, mode, lo, hi, val0, fitted) -- lo/hi are the
# bounds in the space of the mode (exponents for log mode), as in the specification
OBS = dict(names=['a', 'b', 'c'], fit=[True, True, False], mode=['linear', 'log', 'linear'],
           lo=[0, 0, 0], hi=[8, 2, 0], val0=[1, 1, 6],
           coef=[[1, 2, 3, 4], [1, 0, 0, 1], [1, 1, 0, 0]], data=[14, 12], sig=[2, 3],
           obs=[('o', 'offset', 'linear', -4, 4, 0, True), ('s', 'scale', 'log', 0, 1, 1, True)])
fx.TOY.setdefault('obs', OBS)


def obs_params(layout):
    return fx.TOY[layout].get('obs', [])


def make_toy_obs(layout):
    """The observation of a toy world; with fitting parameters when the world declares some."""
    w = fx.TOY[layout]
    params = obs_params(layout)
    if not params:
        return fx.make_toy_obs(layout)
    base = fx._wn_spectrum_class()

    class ToyParamObs(base):
        def __init__(self):
            super().__init__(fx.TOY_BIN_WN, fx.TOY_BIN_WIDTH, w['data'], w['sig'])
            self.ovalues = {}
            self.roles = {}
            self.reads = 0
            for name, role, mode, lo, hi, v0, _fit in params:
                self.ovalues[name] = float(v0)
                self.roles[name] = role

                def fget(name=name):
                    return self.ovalues[name]

                def fset(value, name=name):
                    self.ovalues[name] = value
                b = (10.0 ** lo, 10.0 ** hi) if mode == 'log' else (float(lo), float(hi))
                self._param_dict[name] = (name, name, fget, fset, mode, False, b)

        @property
        def spectrum(self):
            self.reads += 1
            scale = 1.0
            offset = 0.0
            for n, r in self.roles.items():
                if r == 'scale':
                    scale *= self.ovalues[n]
                else:
                    offset += self.ovalues[n]
            return self._d * scale + offset                 # a new array on every read

    return ToyParamObs()


def offset_scale_spectrum_class():
    from taurex.data.spectrum.array import ArraySpectrum
    from taurex.core import fitparam

    class OffsetScaleSpectrum(ArraySpectrum):
        """ArraySpectrum whose reported spectrum is base * obs_scale + obs_offset[ppm] * 1e-6."""

        def __init__(self, arr):
            super().__init__(arr)
            self._off = 0.0
            self._sc = 1.0

        @fitparam(param_name='obs_offset', param_latex='$\\Delta_{obs}$', default_mode='linear', default_fit=False,
                  default_bounds=[-200.0, 200.0])
        def obsOffset(self):
            return self._off

        @obsOffset.setter
        def obsOffset(self, value):
            self._off = value

        @fitparam(param_name='obs_scale', param_latex='$s_{obs}$', default_mode='linear', default_fit=False,
                  default_bounds=[0.75, 1.25])
        def obsScale(self):
            return self._sc

        @obsScale.setter
        def obsScale(self, value):
            self._sc = value

        @property
        def spectrum(self):
            return self._obs_spectrum[:, 1] * self._sc + self._off * 1e-6

    return OffsetScaleSpectrum


def make_param_array_obs(centres, widths_wn, data, err):
    """OffsetScaleSpectrum with the same columns as fx.make_array_obs."""
    centres = np.asarray(centres, dtype=float)
    widths_wn = np.asarray(widths_wn, dtype=float)
    lo = centres - widths_wn / 2
    hi = centres + widths_wn / 2
    wl = 10000.0 / centres
    wlw = 10000.0 / lo - 10000.0 / hi
    arr = np.stack([wl, np.asarray(data, dtype=float), np.asarray(err, dtype=float), wlw], axis=1)
    return offset_scale_spectrum_class()(arr)
