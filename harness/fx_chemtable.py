"""Fixtures for the second round of C11: chemistry tables, length units, evaluation of models.

Nothing here computes an expected value.  The helpers write a chosen table tab[layer][gas] to a
file for the real ChemistryFile, state the molecular masses a vector of the specification uses,
list the metres per length unit (IAU nominal values) and run the public evaluation entry points
of a forward model.
"""
import os

import numpy as np

# metres per unit (IAU 2015 nominal radii, IAU 2012 astronomical unit); cross-checked against
# astropy once per run by units_consistent()
UNIT_M = {'m': 1.0, 'km': 1.0e3, 'cm': 1.0e-2, 'mm': 1.0e-3, 'um': 1.0e-6,
          'Rjup': 7.1492e7, 'Rearth': 6.3781e6, 'AU': 1.495978707e11}
UNITS = ['m', 'km', 'cm', 'Rjup', 'mm', 'um', 'Rearth', 'AU']


def unit_factor(unit):
    """u such that a length of x metres is x*u in `unit`."""
    return 1.0 / UNIT_M[unit]


def units_consistent():
    from astropy import units as u
    return all(abs(float(u.m.to(u.Unit(k))) * v - 1.0) < 1e-12 for k, v in UNIT_M.items())


def write_table(path, table):
    """rows = layers (surface first), columns = gases: the documented layout of ChemistryFile."""
    with open(path, 'w') as f:
        for row in table:
            f.write(' '.join(repr(float(x)) for x in row) + '\n')
    return path


def stated_weights_chemistry_file(gases, filename, weights_kg):
    """The real ChemistryFile; only the table of molecular masses is replaced by the stated one
    (binding A needs masses in the exact small ratios of the specification's vectors)."""
    from taurex.data.profiles.chemistry.filechemistry import ChemistryFile

    class StatedWeightsChemistryFile(ChemistryFile):
        def get_molecular_mass(self, molecule):
            return float(weights_kg[molecule])

    return StatedWeightsChemistryFile(gases=list(gases), filename=filename)


EVAL_OPS = ['model', 'model_contrib', 'model_full_contrib', 'model_wngrid', 'model_twice']


def evaluate(model, op):
    """Run one of the public evaluation entry points; the results are discarded: C11 is about the
    vertical structure the model exposes afterwards."""
    if op == 'model':
        model.model()
    elif op == 'model_contrib':
        model.model_contrib()
    elif op == 'model_full_contrib':
        model.model_full_contrib()
    elif op == 'model_wngrid':
        model.model(wngrid=np.array([1500.0, 2500.0]))
    elif op == 'model_twice':
        model.model()
        model.model()
    else:
        raise ValueError(op)


def add_contributions(model, which, cloud_pressure):
    from taurex.contributions import (AbsorptionContribution, RayleighContribution, SimpleCloudsContribution,
                                      FlatMieContribution, LeeMieContribution)
    for w in which:
        if w == 'absorption':
            model.add_contribution(AbsorptionContribution())
        elif w == 'rayleigh':
            model.add_contribution(RayleighContribution())
        elif w == 'clouds':
            model.add_contribution(SimpleCloudsContribution(clouds_pressure=float(cloud_pressure)))
        elif w == 'flatmie':        # grey Mie opacity between two pressures (it reads the layer pressures)
            model.add_contribution(FlatMieContribution(flat_mix_ratio=1e-9, flat_bottomP=float(cloud_pressure) * 10.0,
                                                       flat_topP=float(cloud_pressure) * 0.01))
        elif w == 'leemie':
            model.add_contribution(LeeMieContribution(lee_mie_radius=0.05, lee_mie_q=30.0, lee_mie_mix_ratio=1e-9,
                                                      lee_mie_bottomP=-1, lee_mie_topP=-1))
        else:
            raise ValueError(w)


def tmpfile(dirname, tag, counter=[0]):
    counter[0] += 1
    return os.path.join(dirname, '%s-%d.dat' % (tag, counter[0]))
