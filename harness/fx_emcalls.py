"""Fixtures for the call walks of C02 (spec/EmissionCalls.tla): ONE long-lived emission / direct-image model
with several opacity sources (molecules of one AbsorptionContribution + grey contributions) whose public
entry points -- model(), partial_model(), model_contrib(), model_full_contrib(), path_integral() -- are
replayed in TLC-generated order, and the read-back of every array the path integrals share (the star's
stored spectrum, profiles, the opacity arrays handed to the implementation, the quadrature).
Nothing here computes an expected value with the function under test."""
import math
from fractions import Fraction

import numpy as np

from . import fx_emission as fx

from taurex.contributions import Contribution

MOLS = ['H2O', 'CH4']
GREY = 'LayerGrey'


class SourceGrey(Contribution):
    """A non-molecular contribution with a given sigma[layer, wn] (m^2 per unit density), one component 'grey'.
    Defined at import time so that the passive protocol monitor (harness/pipeline.py) knows the class."""

    def __init__(self, name=GREY):
        super().__init__(name)
        self.table = None

    def build(self, model):
        pass

    def prepare_each(self, model, wngrid):
        self._nlayers = model.nLayers
        self._ngrid = wngrid.shape[0]
        sig = np.array(self.table, dtype=float)
        self.sigma_xsec = sig
        yield 'grey', sig


class SourceAtmos:
    """Emission / direct-image model over a fixed T-profile with sources 1..NS:
    sources 1..len(mols) are molecules of ONE AbsorptionContribution (components of model_full_contrib),
    the remaining one is a plain Contribution subclass with a given sigma[layer, wn]."""

    def __init__(self, kind, temps, wn, *, mols=MOLS, mix=(1e-3, 2e-4), star_T=5000.0, rp_over_rs=None, rp_over_d=None,
                 planet_radius=1.0, planet_mass=1.0, pmin=1e2, pmax=1e5, ngauss=4):
        from taurex.cache import OpacityCache
        from taurex.model import EmissionModel, DirectImageModel
        from taurex.chemistry import TaurexChemistry, ConstantGas
        from taurex.data.profiles.temperature.temparray import TemperatureArray
        from taurex.contributions import AbsorptionContribution
        from taurex.planet import Planet
        from taurex.stellar import BlackbodyStar
        from taurex.constants import RJUP, RSOL
        from .fixtures import LayerOpacity
        self.kind = kind
        self.wn = np.asarray(wn, dtype=float)
        self.temps = [float(t) for t in temps]
        self.n = len(temps)
        self.mols = list(mols)
        self.tables = dict((m, {}) for m in self.mols)
        for m in self.mols:
            OpacityCache().add_opacity(LayerOpacity(m, self.wn, self._lookup(m)))
        chem = TaurexChemistry(fill_gases=['H2', 'He'], ratio=0.17)
        for m, x in zip(self.mols, mix):
            chem.addGas(ConstantGas(m, x))
        self.rp_m = planet_radius * RJUP
        star_radius, distance = 1.0, 1.0
        if rp_over_rs is not None:
            star_radius = self.rp_m / float(rp_over_rs) / RSOL
        if rp_over_d is not None:
            distance = self.rp_m / float(rp_over_d) / fx.PARSEC_M
        self.rs_m = star_radius * RSOL
        self.d_m = distance * fx.PARSEC_M
        self.star_T = float(star_T)
        kw = dict(planet=Planet(planet_mass=planet_mass, planet_radius=planet_radius),
                  star=BlackbodyStar(temperature=star_T, radius=star_radius, distance=distance), chemistry=chem,
                  temperature_profile=TemperatureArray(tp_array=self.temps), nlayers=self.n,
                  atm_min_pressure=pmin, atm_max_pressure=pmax, ngauss=ngauss)
        m = EmissionModel(**kw) if kind == 'emission' else DirectImageModel(**kw)
        self.absorption = AbsorptionContribution()
        m.add_contribution(self.absorption)
        self.grey = SourceGrey(GREY)
        self.grey.table = np.zeros((self.n, len(self.wn)))
        m.add_contribution(self.grey)
        m.build()
        self.model = m
        self.mixprof = dict((g, np.array(chem.get_gas_mix_profile(g), dtype=float)) for g in self.mols)
        self.given = {}

    def _lookup(self, mol):
        def f(T, P):
            t = self.tables[mol]
            return t[min(t, key=lambda p: abs(math.log(p / P)))]
        return f

    def set_sources(self, src_ln2):
        """src_ln2[s][l][w]: vertical optical depth of layer l due to source s, in units of ln 2.
        Private copies of everything handed to the implementation are kept in self.given."""
        m = self.model
        cu = np.asarray(m.deltaz, dtype=float) * np.asarray(m.densityProfile, dtype=float)
        pp = np.asarray(m.pressureProfile, dtype=float)
        self.given = {}
        for i, g in enumerate(self.mols):
            self.tables[g] = {}
            for l in range(self.n):
                v = np.asarray(src_ln2[i][l], dtype=float) * fx.LN2 / (cu[l] * self.mixprof[g][l])
                self.tables[g][float(pp[l])] = v
                self.given['opacity[%s][layer %d]' % (g, l)] = (self.tables[g][float(pp[l])], v.copy())
        t = np.array([np.asarray(src_ln2[len(self.mols)][l], dtype=float) * fx.LN2 / cu[l] for l in range(self.n)])
        self.grey.table = t
        self.given['sigma[%s]' % GREY] = (t, t.copy())

    def names_of(self, sub):
        """sources (1-based) -> the name under which model_contrib / model_full_contrib report them"""
        return [self.mols[s - 1] if s <= len(self.mols) else 'grey' for s in sorted(sub)]


def exposed(model):
    """Copies of the arrays the path integrals of one model share (re-read through the public properties)."""
    out = {}

    def put(name, f):
        try:
            v = f()
            out[name] = None if v is None else np.array(v, dtype=float, copy=True)
        except Exception as ex:          # the property itself raises: recorded, compared like a value
            out[name] = 'EXC:' + type(ex).__name__
    put('temperatureProfile', lambda: model.temperatureProfile)
    put('pressureProfile', lambda: model.pressureProfile)
    put('densityProfile', lambda: model.densityProfile)
    put('deltaz', lambda: model.deltaz)
    put('altitudeProfile', lambda: model.altitudeProfile)
    put('mu_quads', lambda: model._mu_quads)
    put('wi_quads', lambda: model._wi_quads)
    put('star.radius', lambda: model.star.radius)
    put('star.temperature', lambda: model.star.temperature)
    put('planet.fullRadius', lambda: model.planet.fullRadius)
    return out


def same(a, b):
    if isinstance(a, str) or isinstance(b, str) or a is None or b is None:
        return (a is None and b is None) or (isinstance(a, str) and isinstance(b, str) and a == b)
    return a.shape == b.shape and bool(np.array_equal(a, b))


def star_is_blackbody(model, grid, star_T, rel=1e-9):
    """The spectrum the star exposes is the stellar blackbody pi B(T*) on the grid of the evaluation (the oracle is
    the harness's own Planck evaluation)."""
    sed = model.star.spectralEmissionDensity
    if sed is None:
        return False, 'star.spectralEmissionDensity is None'
    sed = np.asarray(sed, dtype=float)
    if sed.shape != (len(grid),):
        return False, 'star.spectralEmissionDensity has shape %r on a grid of %d points' % (sed.shape, len(grid))
    exp = np.array([fx.planck_flux(w, star_T) for w in grid])
    r = sed / exp
    ok = bool(np.all(np.isfinite(r)) and np.all(np.abs(r - 1.0) <= rel))
    return ok, 'star.spectralEmissionDensity / (pi B(T*)) = %r' % r.tolist()


def changed_inputs(before, model, given=None):
    """Names of shared arrays that differ from what they were before the call / from the private copies."""
    now = exposed(model)
    bad = sorted(n for n in before if not same(before[n], now.get(n)))
    for name, (live, copy) in sorted((given or {}).items()):
        if not same(np.asarray(live, dtype=float), copy):
            bad.append(name)
    return bad


class BadReturn(Exception):
    """The entry point returned something that is not of the documented form (a verdict, not a harness error)."""


class Outcome:
    """What one public call returned, entry by entry of the specification's log."""

    def __init__(self):
        self.grid = None
        self.items = []         # (label, array)  in the order the spec logs its path integrals
        self.missing = []


def run_entry(model, entry, last_grid, groups, comps):
    """Run one public entry point.  groups / comps: per logged path integral the key(s) to look the spectrum up:
    groups = [contribution name, ...] for model_contrib, comps = [(contribution name, component name), ...] for
    model_full_contrib.  Returns an Outcome with one spectrum (or intensity array) per path integral."""
    try:
        return _run_entry(model, entry, last_grid, groups, comps)
    except (TypeError, ValueError, KeyError, IndexError, AttributeError) as ex:
        import traceback
        tb = traceback.extract_tb(ex.__traceback__)
        if '/harness/' not in tb[-1].filename:
            raise                      # raised inside the implementation: reported by the caller as such
        raise BadReturn('%s: return value not of the documented form (%s: %s)' % (entry, type(ex).__name__, ex))


def _run_entry(model, entry, last_grid, groups, comps):
    o = Outcome()
    if entry == 'model':
        g, f, _, _ = model.model()
        o.grid = g
        o.items.append(('model()', np.asarray(f, dtype=float)))
    elif entry == 'partial':
        I, imu, w, _ = model.partial_model()
        o.grid = last_grid if last_grid is not None else model.nativeWavenumberGrid
        o.items.append(('partial_model()', np.asarray(I, dtype=float)))
    elif entry == 'path':
        f, _ = model.path_integral(last_grid, False)
        o.grid = last_grid
        o.items.append(('path_integral()', np.asarray(f, dtype=float)))
    elif entry == 'contrib':
        g, d = model.model_contrib()
        o.grid = g
        for name in groups:
            if name not in d:
                o.missing.append(name)
                o.items.append(('model_contrib()[%s]' % name, None))
            else:
                o.items.append(('model_contrib()[%s]' % name, np.asarray(d[name][0], dtype=float)))
    elif entry == 'fullc':
        g, d = model.model_full_contrib()
        o.grid = g
        for cname, comp in comps:
            hit = [x for x in d.get(cname, []) if x[0] == comp]
            if len(hit) != 1:
                o.missing.append('%s/%s' % (cname, comp))
                o.items.append(('model_full_contrib()[%s][%s]' % (cname, comp), None))
            else:
                o.items.append(('model_full_contrib()[%s][%s]' % (cname, comp), np.asarray(hit[0][1], dtype=float)))
    else:
        raise ValueError(entry)
    return o
