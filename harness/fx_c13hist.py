"""C13 over histories (spec/GridHistory.tla, MC_GridHistory.tla, EX_GridHistory.tla, Trace_GridHistory.tla,
spec/Functional.tla through harness/history.py).

ONE long-lived forward model (transmission, emission, direct image; cross-section mode; two molecules on different
native grids) is evaluated again and again with model(wngrid=.., cutoff_grid=..): windows holding the same number of
native points at different positions, the same start with another length, the same end points at another density,
centres between native points, a grid passed with cutoff_grid=False, no grid at all -- the window alphabet of
MC_GridHistory.tla, exported by TLC and realised here as wavenumber = offset + scale * coordinate.  Every evaluation
must return the values of the FULL native computation of a freshly built model at the points it computes (the
statement's own oracle), on the clip of the CURRENT request, and (history.run_history) what a freshly built model
returns for the same request and settings.

Round 3: the ENTRY POINT is a coordinate of the request.  Every request is evaluated through model(), model_contrib()
(one spectrum per contribution) or model_full_contrib() (one per component of every contribution); the models carry two
contributions (AbsorptionContribution with two molecules on different grids, RayleighContribution); every returned
spectrum must equal the same spectrum of the full native computation (same entry point, freshly built model) at the
points computed, the returned spectra must be the ones GridHistory!HPartsOf names for the entry point, and the object
must serve the next request as if nothing had happened -- also after a request that is REFUSED (no native point in
reach of the observation) half-way through a per-component evaluation.

Every model object OWNS its cross-section objects: they are put into the OpacityCache singleton through its public
API (clear_cache / add_opacity) for that object's evaluations only, so that neither the fresh reference nor the
full-grid reference shares any state with the long-lived object.
Nothing here computes an expected value with the function under test: expectations are the grids exported by TLC, the
clip re-evaluated by TLC on the logged request, and the relation "equals the full-grid run at the same points"."""
import math
import os
import traceback

import numpy as np

from . import history
from .core import Machinery
from .fixtures import GridOpacity

CAP = 2 ** 30
DEV_UNIT = 1e-13          # deviations are logged in units of 1e-13
TOL = 10                  # ... and accepted up to 1e-12
EXP_M10 = math.exp(-10.0)
AFFINE = {'U': (560, 20), 'G': (200, 25)}          # wavenumber = offset + scale * coordinate (integers)
KINDS = ('emission', 'direct', 'transmission')
ENTRIES = ('model', 'contrib', 'full')
# binding of GridHistory!HContribs / HComps to the fixture: contribution "abs" = AbsorptionContribution whose components 1, 2
# are the molecules H2O (native grid) and CH4 (coarser grid); "ray" = RayleighContribution, whose per-gas components all
# realise the spec's scatterer column 3 (a cross-section that is a function of the wavenumber alone)
CONTRIB_OF = {'Absorption': 'abs', 'Rayleigh': 'ray'}
MOLECULE_COMP = {'H2O': 1, 'CH4': 2}
T_VALUES = {'transmission': [1000.0, 700.0, 1400.0], 'emission': [1500.0, 1250.0, 1800.0], 'direct': [1500.0, 1250.0, 1800.0]}
# (the slant paths of a transit are ~50 times longer than the vertical ones)
MIX_VALUES = {'transmission': [6e-6, 2e-6, 1.2e-5], 'emission': [1e-4, 3e-5, 2.5e-4], 'direct': [1e-4, 3e-5, 2.5e-4]}


class Win:
    """A request: observation centres (None: no grid passed) and the cutoff_grid flag; w is its id in the alphabet."""

    def __init__(self, w, oc, cut):
        self.w, self.cut = w, bool(cut)
        self.oc = None if oc is None else [int(x) for x in oc]
        self.label = 'full' if oc is None else 'w%d[%s]%s' % (w, ','.join(str(x) for x in self.oc), '' if cut else ':cutoff_grid=False')

    def __repr__(self):
        return self.label


class Alphabet:
    """The ALPHA record exported by TLC (native grid, second molecule's grid, requests, clip ranges, colliding pairs)."""

    def __init__(self, rec):
        self.name = rec['alphabet']
        off, sc = AFFINE[self.name]
        self.off, self.sc = off, sc
        self.nat_i = [off + sc * x for x in rec['nat']]
        self.mol_i = [off + sc * x for x in rec['mol']]
        self.nat = np.array(self.nat_i, dtype=float)
        self.mol = np.array(self.mol_i, dtype=float)
        self.wins = [Win(0, None, True)] + [Win(i + 1, [off + sc * x for x in w['oc']], w['cut']) for i, w in enumerate(rec['wins'])]
        self.clips = {0: (1, len(self.nat_i))}
        self.clips.update({i + 1: tuple(c) for i, c in enumerate(rec['clips'])})
        self.inner = {0: (1, len(self.nat_i))}
        self.inner.update({i + 1: tuple(c) for i, c in enumerate(rec['inner'])})
        self.refused = set(rec.get('refused', []))
        self.comps = {c['name']: frozenset(c['comps']) for c in rec['contribs']}
        self.parts = {e: frozenset(frozenset(x) for x in ps) for e, ps in rec['parts'].items()}
        if set(self.parts) != set(ENTRIES) or set(self.comps) != set(CONTRIB_OF.values()) or not self.refused:
            raise Machinery('alphabet %s of MC_GridHistory: entry points %r, contributions %r, refused requests %r' % (
                self.name, sorted(self.parts), sorted(self.comps), sorted(self.refused)))
        self.collide = {}
        for key in ('samesize', 'samefirst', 'sameends'):
            for a, b in rec[key]:
                self.collide.setdefault((a, b), key[4:])
        if not rec['samesize'] or not rec['samefirst'] or not rec['sameends']:
            raise Machinery('alphabet %s of MC_GridHistory has no pair of requests colliding on size / first point / end points' % self.name)

    def compset(self, contrib=None, comp=None):
        """the spec's component set of a returned spectrum (None: the spectrum of model()); frozenset({0}): unknown"""
        if contrib is None:
            return frozenset().union(*self.comps.values())
        c = CONTRIB_OF.get(contrib)
        if c is None:
            return frozenset({0})
        if comp is None:
            return self.comps[c]
        if c == 'abs':
            return frozenset({MOLECULE_COMP.get(comp, 0)})
        return self.comps[c]

    def relation(self, prev, w):
        if prev is None:
            return 'first'
        if prev in self.refused:
            return 'after-refused'
        if prev == w:
            return 'same-request'
        c = self.collide.get((prev, w))
        if c:
            return 'same-' + c
        if self.clips[prev] == self.clips[w]:
            return 'same-grid'
        return 'after-full' if self.clips[prev] == self.clips[0] else 'other'


def tables(alpha):
    """fresh cross-section objects: H2O on the native grid, CH4 on its own coarser grid; band-like, depending on T and P,
    optically thin enough that no layer is darker than exp(-10) anywhere (the licensed cut-off never fires)"""
    press = np.logspace(0, 7, 4)                          # Pa
    temps = np.array([300.0, 1000.0, 1700.0, 2400.0])
    out = []
    for j, (name, wn) in enumerate((('H2O', alpha.nat), ('CH4', alpha.mol))):
        idx = np.arange(len(wn), dtype=float)
        band = 10 ** (-24.6 + 1.6 * np.sin(idx / (1.3 + 0.9 * j) + 0.7 * j) ** 2)        # cm^2
        x = band[None, None, :] * (1.0 + 0.25 * np.arange(4)[:, None, None]) * (1.0 + 0.2 * np.arange(4)[None, :, None])
        out.append(GridOpacity(name, wn, temps, press, x, 'linear'))
    return out


def install(objs):
    from taurex.cache import OpacityCache
    oc = OpacityCache()
    oc.clear_cache()
    for o in objs:
        oc.add_opacity(o)


class Holder:
    """one forward model and the cross-section objects it owns"""
    NLAYERS = 6

    def __init__(self, alpha, kind, T, mix):
        from taurex.model import EmissionModel, DirectImageModel, TransmissionModel
        from taurex.chemistry import TaurexChemistry, ConstantGas
        from taurex.temperature import NPoint, Isothermal
        from taurex.contributions import AbsorptionContribution, RayleighContribution
        from taurex.planet import Planet
        from taurex.stellar import BlackbodyStar
        from taurex.cache import GlobalCache
        GlobalCache()['opacity_method'] = 'xsec'
        self.alpha, self.kind = alpha, kind
        self.objs = tables(alpha)
        self.prev = None            # id of the request of the previous evaluation
        self.prev_entry = ''
        self.trail = []
        install(self.objs)
        try:
            chem = TaurexChemistry(fill_gases=['H2', 'He'], ratio=0.17)
            chem.addGas(ConstantGas('H2O', mix))
            chem.addGas(ConstantGas('CH4', 0.3 * MIX_VALUES[kind][0]))
            tp = Isothermal(T=T) if kind == 'transmission' else NPoint(T_surface=T, T_top=700.0)
            kw = dict(planet=Planet(planet_mass=1.0, planet_radius=1.0), star=BlackbodyStar(temperature=5500.0, radius=0.9),
                      chemistry=chem, temperature_profile=tp, nlayers=self.NLAYERS, atm_min_pressure=1e1, atm_max_pressure=1e6)
            if kind == 'emission':
                m = EmissionModel(ngauss=3, **kw)
            elif kind == 'direct':
                m = DirectImageModel(ngauss=2, **kw)
            else:
                m = TransmissionModel(**kw)
            m.add_contribution(AbsorptionContribution())
            m.add_contribution(RayleighContribution())
            m.build()
            self.m = m
        finally:
            install([])

    def set_T(self, T):
        self.m['T' if self.kind == 'transmission' else 'T_surface'] = T

    def set_mix(self, mix):
        self.m['H2O'] = mix

    def evaluate(self, win, entry='model'):
        """the request through an entry point of the model -> Result (nothing the implementation returns makes this raise)"""
        f = {'model': self.m.model, 'contrib': self.m.model_contrib, 'full': self.m.model_full_contrib}[entry]
        install(self.objs)
        try:
            if win.oc is None:
                r = f()
            elif win.cut:
                r = f(wngrid=np.array(win.oc, dtype=float))
            else:
                r = f(wngrid=np.array(win.oc, dtype=float), cutoff_grid=False)
        finally:
            install([])
        return Result(self.alpha, entry, r)


def _arr(x):
    try:
        a = np.array(x, dtype=float)
    except Exception:
        a = np.full((0,), np.nan)
    return a


class Result:
    """what an entry point returned: the grid and the spectra [(label, component set of the spec, spectrum, layer array)]"""

    def __init__(self, alpha, entry, r):
        self.entry, self.parts, self.malformed = entry, [], ''
        try:
            self.grid = _arr(r[0])
            if entry == 'model':
                self.parts.append(('all', alpha.compset(), _arr(r[1]), _arr(r[2])))
            elif entry == 'contrib':
                for name, v in r[1].items():
                    self.parts.append((str(name), alpha.compset(str(name)), _arr(v[0]), _arr(v[1])))
            else:
                for name, lst in r[1].items():
                    for v in lst:
                        self.parts.append(('%s:%s' % (name, v[0]), alpha.compset(str(name), str(v[0])), _arr(v[1]), _arr(v[2])))
        except Exception as ex:
            self.malformed = '%s returned %.120r (%s: %s)' % (entry, r, type(ex).__name__, ex)
            if not hasattr(self, 'grid'):
                self.grid = np.full((0,), np.nan)
        if self.grid.ndim != 1:
            self.malformed = self.malformed or 'returned grid of shape %r' % (self.grid.shape,)
            self.grid = self.grid.ravel()

    labels = property(lambda self: [p[0] for p in self.parts])
    got = property(lambda self: sorted({tuple(sorted(p[1])) for p in self.parts}))

    def observed(self):
        return dict(grid=self.grid, spectra={p[0]: [p[2], p[3]] for p in self.parts}, malformed=self.malformed)


def harness_fault(ex):
    tb = traceback.extract_tb(ex.__traceback__)
    return bool(tb) and '/harness/' in tb[-1].filename


class Fixture:
    def __init__(self, ctx, alphas):
        self.ctx = ctx
        self.alphas = {a.name: a for a in alphas}
        self.refs = {}
        self.events = []          # (event, cls, detail, vector)
        self.not_thin = []
        self.nrefs = 0
        self.fresh_grids = {}
        self.inexact = 0
        self.count = {}           # (entry point, relation to the previous entry point) -> evaluations judged in the replays

    def fresh_range(self, alpha, kind, win, entry='model'):
        """index range of the grid a freshly built model returns for the request through the entry point (it does not
        depend on T, mix)"""
        key = (alpha.name, kind, win.w, entry)
        if key not in self.fresh_grids:
            try:
                g = Holder(alpha, kind, T_VALUES[kind][0], MIX_VALUES[kind][0]).evaluate(win, entry).grid
            except Exception as ex:
                if isinstance(ex, Machinery) or harness_fault(ex):
                    raise
                g = np.zeros(0)
            lo = int(np.searchsorted(alpha.nat, g[0])) + 1 if len(g) else -1
            ok = len(g) > 0 and lo + len(g) - 1 <= len(alpha.nat) and np.array_equal(g, alpha.nat[lo - 1:lo - 1 + len(g)])
            self.fresh_grids[key] = (lo, lo + len(g) - 1) if ok else (-1, -1)
        return self.fresh_grids[key]

    def full(self, alpha, kind, T, mix, entry='model'):
        """the full native computation of a freshly built model through the entry point (never evaluated otherwise)"""
        key = (alpha.name, kind, T, mix, entry)
        if key not in self.refs:
            h = Holder(alpha, kind, T, mix)
            res = h.evaluate(alpha.wins[0], entry)
            g = res.grid
            if not np.array_equal(g, alpha.nat):
                self.ctx.verdict('native_grid_is_longest', False, cls='hist:%s:%s' % (kind, alpha.name),
                                 detail='the full grid of a fresh model (%s) has %d points, the longest molecule grid %d' % (entry, len(g), len(alpha.nat)),
                                 vector=dict(kind='hfull', alphabet=alpha.name, model=kind, T=T, mix=mix, entry=entry))
            if entry == 'model' and res.parts:
                # the fixtures stay outside the licensed exp(-10) cut-off: no layer is that dark at any wavenumber
                tau = res.parts[0][3]
                try:
                    if kind == 'transmission':
                        thin = bool(tau.size) and float(np.min(tau)) > 1.5 * EXP_M10
                    else:
                        col = 0.0            # (what model() left in the contributions: their opacities on the full grid)
                        for c in h.m.contribution_list:
                            col = col + np.sum(np.asarray(c.sigma_xsec) * (np.asarray(h.m.densityProfile) * np.asarray(h.m.deltaz))[:, None], axis=0)
                        thin = bool(np.size(col)) and float(np.max(col)) < 9.0
                except Exception as ex:
                    if harness_fault(ex):
                        raise
                    thin = True               # (the implementation cannot prepare its contributions: reported by the evaluations)
                if not thin:
                    self.not_thin.append(key)
            self.refs[key] = res
            self.nrefs += 1
        return self.refs[key]

    def compare(self, alpha, kind, T, mix, win, res):
        """restricted result vs the full native computation (same entry point) at the same points
        -> (lo, hi, gdev, dev, tdev, text); every returned spectrum is compared, the worst one is reported"""
        g = res.grid
        ref = self.full(alpha, kind, T, mix, res.entry)
        n = len(g)
        lo = int(np.searchsorted(alpha.nat, g[0])) + 1 if n and np.isfinite(g[0]) else -1
        bad = res.malformed
        if not bad and not res.parts:
            bad = 'no spectrum returned'
        if not bad and (n == 0 or lo + n - 1 > len(alpha.nat) or not np.all(np.isfinite(g))):
            bad = 'returned grid %r' % (g.tolist()[:6],)
        if not bad:
            for label, _, s, tau in res.parts:
                if s.shape != (n,) or tau.ndim != 2 or tau.shape[1] != n or not (np.all(np.isfinite(s)) and np.all(np.isfinite(tau))):
                    bad = 'returned grid %r, spectrum %s of shape %r, layer array of shape %r (or not finite)' % (g.tolist()[:6], label, s.shape, tau.shape)
                    break
        if bad:
            return -1, -1, CAP, CAP, CAP, bad
        hi = lo + n - 1
        sel = slice(lo - 1, hi)
        gdev = float(np.max(np.abs(g - alpha.nat[sel])))
        if gdev != 0.0:
            k = int(np.argmax(np.abs(g - alpha.nat[sel])))
            return -1, -1, int(min(CAP, math.ceil(gdev * 1e6))), CAP, CAP, \
                'returned grid %r is not a part of the native grid (%g cm-1 is not a native point; native[%d:%d] = %r ...)' % (
                    g.tolist()[:6], g[k], lo - 1, hi, alpha.nat[sel].tolist()[:4])
        if res.labels != ref.labels:
            return lo, hi, 0, CAP, CAP, 'returned the spectra %r, the full native computation of a fresh model returns %r' % (res.labels, ref.labels)
        worst = (-1.0, -1.0, '')
        for (label, _, s, tau), (_, _, sf, tf) in zip(res.parts, ref.parts):
            if sf.shape != (len(alpha.nat),) or tf.ndim != 2 or tf.shape[1] != len(alpha.nat) or tf.shape[0] != tau.shape[0]:
                return lo, hi, 0, CAP, CAP, 'full native computation of %s: spectrum of shape %r, layer array %r' % (label, sf.shape, tf.shape)
            r = sf[sel]
            rel = np.abs(s - r) / np.maximum(np.abs(r), 1e-300)
            k = int(np.argmax(rel))
            td = float(np.max(np.abs(tau - tf[:, sel])))
            if max(float(rel[k]), td) > max(worst[0], worst[1]) or worst[0] < 0:
                worst = (float(rel[k]), td, '%s: largest difference at %g cm-1: restricted %r, full native computation %r (relative %.3g; layer array %.3g)' % (
                    label, g[k], float(s[k]), float(r[k]), float(rel[k]), td))
        dev = int(min(CAP, math.ceil(worst[0] / DEV_UNIT)))
        tdev = int(min(CAP, math.ceil(worst[1] / DEV_UNIT)))
        return lo, hi, 0, dev, tdev, worst[2]


# ----------------------------------------------------------------------------
# binding C: behaviours of EX_GridHistory replayed on one long-lived model each
# ----------------------------------------------------------------------------

def entry_relation(prev_entry, entry):
    if not prev_entry or prev_entry == entry:
        return entry
    return '%s-after-%s' % (entry, prev_entry)


def replay_behaviour(fx, alpha, kind, T, mix, evals, clause='history_equals_full'):
    """evals: [{'w': request id, 'e': entry point, 'grid': coordinates the evaluation must return, 'parts': the component
    sets of the spectra it must return, 'refused': no native point in reach}] exported by TLC"""
    ctx = fx.ctx
    h = Holder(alpha, kind, T, mix)
    prev, prev_entry, trail = None, '', []
    for step in evals:
        win = alpha.wins[step['w']]
        entry = step.get('e', 'model')
        rel = alpha.relation(prev, step['w'])
        trail.append(win.label if entry == 'model' else '%s(%s)' % (ENTRY_NAME[entry], win.label))
        cls = 'hbeh:%s:%s:%s:%s' % (kind, alpha.name, rel, entry_relation(prev_entry, entry))
        vec = dict(kind='hbeh', alphabet=alpha.name, model=kind, T=T, mix=mix, evals=evals)
        expect = np.array([alpha.off + alpha.sc * x for x in step['grid']], dtype=float)
        try:
            res = h.evaluate(win, entry)
        except Exception as ex:
            if isinstance(ex, Machinery) or harness_fault(ex):
                raise Machinery('behaviour replay failed inside the harness: %r' % (ex,))
            if step.get('refused'):
                # the statement does not say how a request without a native point in reach is answered; whatever the
                # answer, the object must serve the following requests as if it had not been asked
                trail[-1] += ':refused'
                prev, prev_entry = step['w'], entry
                continue
            ctx.verdict(clause, False, cls=cls, detail='%s model after %s: evaluation raised %s: %s' % (kind, ' > '.join(trail), type(ex).__name__, ex), vector=vec)
            return
        if step.get('refused'):
            trail[-1] += ':refused'
            prev, prev_entry = step['w'], entry
            continue
        fx.count[(entry, 'after-refused' if rel == 'after-refused' else entry_relation(prev_entry, entry))] = \
            fx.count.get((entry, 'after-refused' if rel == 'after-refused' else entry_relation(prev_entry, entry)), 0) + 1
        lo, hi, gdev, dev, tdev, text = fx.compare(alpha, kind, T, mix, win, res)
        # the statement does not prescribe the clip margin: the computed grid must be a contiguous part of the native
        # grid covering the observation's own range, and the one a fresh model computes for the CURRENT request
        flo, fhi = fx.fresh_range(alpha, kind, win, entry)
        ilo, ihi = alpha.inner[step['w']]
        ok_grid = lo >= 1 and (lo, hi) == (flo, fhi) and (ilo == 0 or (lo <= ilo and ihi <= hi)) and (win.cut or (lo, hi) == (1, len(alpha.nat)))
        if not np.array_equal(res.grid, expect):
            fx.inexact += 1                                        # not the documented clip Grid!GClip exported by TLC
        ctx.verdict('history_grid_is_clip_of_request', ok_grid, cls=cls,
                    detail='%s model after %s: returned grid %r; a fresh model computes native[%d:%d] for this request, the documented clip is %r'
                           % (kind, ' > '.join(trail), res.grid.tolist()[:8], flo - 1, fhi, expect.tolist()[:8]), vector=vec)
        # the spectra returned are those GridHistory!HPartsOf names for the entry point (TLC's `parts`)
        want = sorted(tuple(sorted(x)) for x in step.get('parts', [sorted(alpha.compset())]))
        ok_parts = res.got == want and not res.malformed
        ctx.verdict(clause, ok_grid and ok_parts and dev <= TOL and tdev <= TOL, cls=cls,
                    detail='%s model (T=%g, mix=%g) evaluated on %s: %s' % (kind, T, mix, ' > '.join(trail),
                           text if ok_parts else 'returned the spectra %r = component sets %r, expected %r; %s' % (res.labels, res.got, want, text)), vector=vec)
        prev, prev_entry = step['w'], entry


ENTRY_NAME = {'model': 'model', 'contrib': 'model_contrib', 'full': 'model_full_contrib'}


# ----------------------------------------------------------------------------
# binding B + Functional walks: settings = request, temperature, mixing ratio or entry point
# ----------------------------------------------------------------------------

class HistScenario(history.Scenario):
    """third setting: the mixing ratio of H2O (`third='mix'`) or the entry point the request is evaluated through"""

    def __init__(self, name, fx, alpha, kind, wins, third='mix'):
        self.name, self.fx, self.alpha, self.kind, self.third = name, fx, alpha, kind, third
        self.dims = [[alpha.wins[w] for w in wins], list(T_VALUES[kind]), list(MIX_VALUES[kind]) if third == 'mix' else list(ENTRIES)]
        self.evals = 0

    def _mix(self, values):
        return values[2] if self.third == 'mix' else MIX_VALUES[self.kind][0]

    def fresh(self, values):
        h = Holder(self.alpha, self.kind, values[1], self._mix(values))
        h.cfg = list(values)
        h.init = [repr(v) for v in values]
        return h

    def set(self, h, d, value, values):
        h.cfg[d] = value
        h.trail.append('set%d=%r' % (d, value))
        if d == 1:
            h.set_T(value)
        elif d == 2 and self.third == 'mix':
            h.set_mix(value)

    def observe(self, h):
        win, T, _ = h.cfg
        mix = self._mix(h.cfg)
        entry = 'model' if self.third == 'mix' else h.cfg[2]
        a = self.alpha
        h.trail.append('eval')
        vec = dict(history=self.name, init=list(h.init), trail=list(h.trail), hist_event=True)
        try:
            res = h.evaluate(win, entry)
        except Exception as ex:
            if isinstance(ex, Machinery) or harness_fault(ex):
                raise Machinery('history scenario failed inside the harness: %r\n%s' % (ex, ''.join(traceback.format_tb(ex.__traceback__)[-3:])))
            tb = traceback.extract_tb(ex.__traceback__)
            self.fx.ctx.verdict('evaluates_without_error', False, cls='%s:%s' % (self.name, a.relation(h.prev, win.w)),
                                detail='%s: %s at %s:%s after %s' % (type(ex).__name__, ex, os.path.basename(tb[-1].filename), tb[-1].name, ' '.join(h.trail)), vector=vec)
            h.prev, h.prev_entry = win.w, entry
            raise
        self.evals += 1
        lo, hi, gdev, dev, tdev, text = self.fx.compare(a, self.kind, T, mix, win, res)
        plo, phi = h.prev_range if h.prev is not None else (0, 0)
        flo, fhi = self.fx.fresh_range(a, self.kind, win, entry)
        ev = dict(ev='heval', nat=a.nat_i, oc=win.oc or [], cut=1 if win.cut else 0, lo=lo, hi=hi, n=len(res.grid), gdev=gdev,
                  dev=dev, tdev=tdev, tol=TOL, plo=plo, phi=phi, flo=flo, fhi=fhi,
                  entry=entry, pentry=h.prev_entry, struct=[sorted(a.comps[c]) for c in ('abs', 'ray')],
                  got=[list(x) for x in res.got] if not res.malformed else [[0]])
        h.prev_range = (flo, fhi)
        self.fx.events.append((ev, self.name, '%s model (T=%g, mix=%g) through %s on %s after %s: %s' % (
            self.kind, T, mix, ENTRY_NAME[entry], win.label, ' '.join(h.trail[:-1]) or 'construction', text), vec))
        h.prev, h.prev_entry = win.w, entry
        return res.observed()


def scenarios(fx, thorough=False):
    U, G = fx.alphas['U'], fx.alphas['G']
    S = HistScenario
    # request triples: [same size elsewhere, same start other length] / [full grid, between native points x2] /
    # [same end points other density, a grid passed with cutoff_grid=False]
    A, B, C = [1, 2, 3], [0, 5, 6], [1, 4, 7]
    # third setting: the mixing ratio, or (":entries") the entry point model / model_contrib / model_full_contrib
    sc = [S('emission:U:same-size', fx, U, 'emission', A),
          S('emission:G:full-between:entries', fx, G, 'emission', B, 'entry'),
          S('direct:G:same-size:entries', fx, G, 'direct', A, 'entry'),
          S('transmission:U:density:entries', fx, U, 'transmission', C, 'entry'),
          S('transmission:G:same-size', fx, G, 'transmission', A)]
    if thorough:
        sc += [S('emission:G:same-size', fx, G, 'emission', A),
               S('emission:U:density', fx, U, 'emission', C),
               S('emission:U:same-size:entries', fx, U, 'emission', A, 'entry'),
               S('direct:U:full-between', fx, U, 'direct', B),
               S('direct:U:density', fx, U, 'direct', C),
               S('transmission:U:full-between', fx, U, 'transmission', B),
               S('transmission:U:same-size', fx, U, 'transmission', A),
               S('transmission:G:same-size:entries', fx, G, 'transmission', A, 'entry'),
               S('emission:G:full-between', fx, G, 'emission', B),
               S('direct:G:same-size', fx, G, 'direct', A),
               S('transmission:U:density', fx, U, 'transmission', C)]
    return sc
