"""Fixtures for the vertical-structure (C11) and cloud/haze (C19) checks.

Nothing here computes an expected value: the classes only put chosen numbers into the real
TauREx objects (a molecular-weight table, a list of pressure levels, a flat cross-section) and
`dec()` encodes observed floats for the exact decimal arithmetic of spec/Dec.tla.
"""
import math

import numpy as np

from taurex.cache import OpacityCache
from taurex.data.profiles.chemistry.chemistry import Chemistry
from taurex.data.profiles.pressure.pressureprofile import PressureProfile

from .fixtures import GridOpacity


def dec(x):
    """float -> observation [m, e] with value m*10^e, 10^8 <= m < 10^9 (m < 2^30).
    Zero is [0, 0]; NaN, +-Inf, negative values and absent entries are [-1, 0]."""
    if x is None:
        return [-1, 0]
    x = float(x)
    if x != x or x in (float('inf'), float('-inf')) or x < 0.0:
        return [-1, 0]
    if x == 0.0:
        return [0, 0]
    s = '%.8e' % x
    mant, ex = s.split('e')
    m = int(mant.replace('.', ''))
    return [m, int(ex) - 8]


def undec(o):
    return float(o[0]) * 10.0 ** o[1]


class FixedMuChemistry(Chemistry):
    """Chemistry double with a given mean molecular weight per layer (kg) and no gases that need
    opacities; used where the check needs exact small numbers for mu (binding A of C11)."""

    def __init__(self, mu_kg):
        super().__init__('FixedMuChemistry')
        self._mu = np.asarray(mu_kg, dtype=float)

    activeGases = property(lambda s: [])
    inactiveGases = property(lambda s: ['X'])

    @property
    def activeGasMixProfile(self):
        return np.zeros((0, self._mu.shape[0]))

    @property
    def inactiveGasMixProfile(self):
        return np.ones((1, self._mu.shape[0]))

    def initialize_chemistry(self, nlayers=100, temperature_profile=None, pressure_profile=None,
                             altitude_profile=None):
        if nlayers != self._mu.shape[0]:
            raise ValueError('FixedMuChemistry built for %d layers' % self._mu.shape[0])
        self.mu_profile = self._mu.copy()


class LevelsPressureProfile(PressureProfile):
    """Pressure profile given directly by its n+1 decreasing levels (Pa); the layer pressure is the
    geometric mean of the two levels, as on the standard grid."""

    def __init__(self, levels):
        lv = np.asarray(levels, dtype=float)
        super().__init__('LevelsPressureProfile', lv.shape[0] - 1)
        self._levels = lv

    def compute_pressure_profile(self):
        self.pressure_profile_levels = self._levels.copy()
        self.pressure_profile = np.sqrt(self._levels[:-1] * self._levels[1:])

    @property
    def profile(self):
        return self.pressure_profile

    @classmethod
    def input_keywords(cls):
        return ['verif-levels']


def clear_opacities():
    OpacityCache().clear_cache()


def register_flat_opacity(name, wn, value_cm2=1e-22):
    """A cross-section that is the same at every (T, P) node: value_cm2 at every wavenumber."""
    wn = np.asarray(wn, dtype=float)
    x = np.full((2, 2, wn.shape[0]), float(value_cm2))
    op = GridOpacity(name, wn, [10.0, 1.0e5], [1.0e-12, 1.0e12], x)
    OpacityCache().add_opacity(op)
    return op


def layer_len(a):
    """number of entries along the layer axis (last axis of (ngas, nlayers) arrays)."""
    if a is None:
        return -1
    s = np.shape(a)
    if len(s) == 0:
        return -1
    return int(s[-1])


def ln_ratio(p_lower, p_upper):
    return math.log(float(p_lower) / float(p_upper))
