"""The ROUTE by which a spectrum reaches the binning mechanism (spec/BinRoutes.tla, spec/MC_BinRoutes.tla) -- C05.

TLC owns the inputs (native POINTS with uniform and non-uniform spacing on an integer lattice, target bins, a model output =
spectrum + two rows of optical depths + uncertainties), the native bins DERIVED from the points under both readings the
statement admits ("half": centre -/+ half the mid-point width, "edges": mid-point to mid-point), the exact overlap-weighted
means / quadrature errors / histogram means for them, and -- per input -- the routes on which each slip of BinRoutes!Slips
shows.  This module maps the lattice to cm-1 (dyadic unit: centres, mid-points, widths and overlaps are exact floats),
builds the real binner through one of its public constructors and carries the model output to it by EVERY public route:

    flux binner     bindown (no widths, +error) | bindown (widths worked out by the caller, +error) | bindown 2-D |
                    bin_model | generate_spectrum_output -> binned_spectrum / binned_tau, for every OutputSize and the default
    histogram       SimpleBinner.bindown 1-D / 2-D | bin_model | generate_spectrum_output | taurex.util.bindown 1-D / 2-D
    identity        NativeBinner.bin_model | generate_spectrum_output -> native_spectrum

Tolerance: on these fixtures every edge, width and overlap length is an exact float, so a correct route differs from TLC's
rational only by the rounding of one weighted sum of <= 4 terms and one division: a few ulp; REL = 1e-12 (1e-11 for the
squared uncertainty, which is compared after squaring the returned square root).
Nothing here computes an expected value with the code under test.
"""
import warnings

import numpy as np

from .core import Machinery, frac, close

REL = 1e-12
LATS = ((100.0, 0.25), (7.0, 0.5), (2048.0, 4.0), (1000.0, 1.0))
FLUX_ROUTES = ('bindown', 'bindown_w', 'bindown_2d', 'bin_model', 'out_spectrum', 'out_tau')
SIZES = ('lighter', 'light', 'heavy', 'default')
CTORS = ('positional', 'keywords', 'observation')
SLIPS = ('otherunit', 'firstwidth', 'fluxfortau', 'unsortedwidth')


def _taurex():
    from taurex.binning import FluxBinner, SimpleBinner, NativeBinner
    from taurex import OutputSize
    return FluxBinner, SimpleBinner, NativeBinner, OutputSize


def finite(x):
    return x == x and abs(x) != float('inf')


def orders(n, which):
    if which == 'ascending':
        return list(range(n))
    if which == 'descending':
        return list(range(n))[::-1]
    return list(range(1, n)) + [0]          # 'mixed' (BinRoutes: Mixed)


class Fixture:
    """the real arrays of one exported vector on one lattice, in one hand-over order"""

    def __init__(self, vec, lat, order):
        x0, u = lat
        self.vec, self.lat, self.order = vec, lat, order
        p = np.array(orders(len(vec['cs']), order))
        self.p = p
        self.c = np.array([x0 + u * c for c in vec['cs']], dtype=float)[p]
        self.f = np.array(vec['flux'], dtype=float)[p]
        self.tau = np.array(vec['tau'], dtype=float)[:, p]
        self.e = np.array(vec['e'], dtype=float)[p]
        self.w = np.array([u * h / 2.0 for h in vec['hw']], dtype=float)[p]      # mid-point widths (hw: 4x half widths)
        self.tc = np.array([x0 + u * (lo + hi) / 2.0 for lo, hi in vec['tgt']])
        self.tw = np.array([u * float(hi - lo) for lo, hi in vec['tgt']])
        self.keep = [a.copy() for a in (self.c, self.f, self.tau, self.e, self.w, self.tc, self.tw)]

    def untouched(self):
        now = (self.c, self.f, self.tau, self.e, self.w, self.tc, self.tw)
        return [n for n, a, b in zip(('wngrid', 'spectrum', 'tau', 'error', 'grid_width', 'target grid', 'target widths'), now, self.keep)
                if not np.array_equal(a, b)]


def make_binner(cls, tc, tw, ctor):
    """the public ways to a binner of the observation grid"""
    if ctor == 'positional':
        return cls(tc, tw)
    if ctor == 'keywords':
        return cls(wngrid=tc, wngrid_width=tw)
    from taurex.data.spectrum.spectrum import BaseSpectrum

    class Obs(BaseSpectrum):           # an observation that knows its bins exactly; create_binner() is the library's
        def __init__(self):
            super().__init__('obs')

        @property
        def wavenumberGrid(self):
            return tc

        @property
        def binWidths(self):
            return tw
    b = Obs().create_binner()
    if cls is not type(b) and not isinstance(b, cls):
        return cls(tc, tw)             # create_binner builds the overlap binner only
    return b


def size_arg(size):
    OutputSize = _taurex()[3]
    return {} if size == 'default' else dict(output_size=getattr(OutputSize, size))


def take_route(binner, fx, route, size):
    """(matrix rows x targets, errors or None); None when the route legitimately yields nothing (no optical depths stored)"""
    mo = (fx.c, fx.f, fx.tau, None)
    if route == 'bindown':
        out = binner.bindown(fx.c, fx.f, error=fx.e)
        return np.atleast_2d(np.asarray(out[1], dtype=float)), out[2]
    if route == 'bindown_w':
        out = binner.bindown(fx.c, fx.f, grid_width=fx.w, error=fx.e)
        return np.atleast_2d(np.asarray(out[1], dtype=float)), out[2]
    if route == 'bindown_2d':
        return np.asarray(binner.bindown(fx.c, fx.tau)[1], dtype=float), None
    if route == 'bin_model':
        return np.atleast_2d(np.asarray(binner.bin_model(mo)[1], dtype=float)), None
    d = binner.generate_spectrum_output(mo, **size_arg(size))
    if route == 'out_spectrum':
        if 'binned_spectrum' not in d:
            raise KeyError('binned_spectrum missing from the output (keys %r)' % sorted(d))
        return np.atleast_2d(np.asarray(d['binned_spectrum'], dtype=float)), None
    if 'binned_tau' not in d:
        return None, None
    return np.asarray(d['binned_tau'], dtype=float), None


def agrees(vec, rd, route, got, err):
    """first disagreement of a route's result with TLC's exact values under reading rd ('' = agrees)"""
    exp = vec[rd]
    twod = route in ('bindown_2d', 'out_tau')
    nrows = len(vec['tau']) if twod else 1
    if got.shape != (nrows, len(exp)):
        return 'shape %r for %d rows x %d target bins' % (got.shape, nrows, len(exp))
    if err is not None and np.shape(err) != (len(exp),):
        return 'error shape %r' % (np.shape(err),)
    for k, ex in enumerate(exp):
        for r in range(nrows):
            g = float(got[r, k])
            if ex['ov']:
                v = float(frac(ex['tau'][r] if twod else ex['v']))
                if not (finite(g) and close(g, v, rel=REL)):
                    return 'target %r row %d: got %r, overlap-weighted mean %r' % (ex['tb'], r, g, v)
            elif not (g == 0.0 or g != g):      # nothing binned: "no data" (0 or NaN), as in the clause no_overlap_untouched
                return 'target %r does not overlap the native grid: got %r' % (ex['tb'], g)
        if err is not None and ex['ov']:
            ge, e2 = float(err[k]), float(frac(ex['e2']))
            if not (finite(ge) and close(ge * ge, e2, rel=1e-11)):
                return 'ERR target %r: uncertainty %r, expected sqrt(%r)' % (ex['tb'], ge, e2)
    return ''


def judge_flux(ctx, vec, lat, order, ctor, route, size, cls_of=None):
    FluxBinner = cls_of or _taurex()[0]
    cls = 'route:flux:%s%s:%s:%s:%s' % (route, '/' + size if route.startswith('out_') else '', ctor,
                                         'uniform' if vec['uniform'] else 'nonuniform', order)
    meta = dict(vec, kind='route', binner='flux', lat=list(lat), order=order, ctor=ctor, route=route, size=size)
    fx = Fixture(vec, lat, order)
    try:
        with warnings.catch_warnings(), np.errstate(all='ignore'):
            warnings.simplefilter('ignore')
            got, err = take_route(make_binner(FluxBinner, fx.tc, fx.tw, ctor), fx, route, size)
    except Machinery:
        raise
    except Exception as ex:            # an input inside the quantifier on a public route: a crash is a verdict
        ctx.verdict('route_overlap_weighted_mean', False, cls=cls, detail='exception %r' % ex, vector=meta)
        return
    if got is None:
        return                         # no optical depths in an output of this size
    # explicit widths fix the native bins; where they are derived the statement admits both readings of the derived bin
    why = [agrees(vec, rd, route, got, err) for rd in (('half',) if route == 'bindown_w' else ('half', 'edges'))]
    ok = any(w == '' for w in why)
    err_only = not ok and all(w.startswith('ERR') for w in why)
    ctx.verdict('route_overlap_weighted_mean', ok or err_only, cls=cls, detail=why[0], vector=meta)
    if err is not None:
        ctx.verdict('route_error_quadrature', ok, cls=cls, detail=why[0], vector=meta)
    ch = fx.untouched()
    ctx.verdict('route_args_untouched', not ch, cls=cls, detail='changed by the call: %r' % ch, vector=meta)


def hist_expected(vec, twod):
    rows = len(vec['tau']) if twod else 1
    return [[None if h['empty'] else float(frac(h['tau'][r] if twod else h['v'])) for h in vec['hist']] for r in range(rows)]


def judge_simple(ctx, vec, lat, order, route, size):
    SimpleBinner = _taurex()[1]
    cls = 'route:simple:%s%s:%s' % (route, '/' + size if route.startswith('out_') else '', order)
    meta = dict(vec, kind='route', binner='simple', lat=list(lat), order=order, route=route, size=size)
    fx = Fixture(vec, lat, order)
    twod = route in ('bindown_2d', 'out_tau', 'function_2d')
    try:
        with warnings.catch_warnings(), np.errstate(all='ignore'):
            warnings.simplefilter('ignore')
            if route == 'function':
                from taurex.util import bindown
                got = np.atleast_2d(np.asarray(bindown(fx.c, fx.f, fx.tc), dtype=float))
            elif route == 'function_2d':
                from taurex.util.util import bindown
                got = np.asarray(bindown(fx.c, fx.tau, fx.tc), dtype=float)
            else:
                got, _ = take_route(SimpleBinner(fx.tc, fx.tw), fx, route, size)
    except Exception as ex:
        ctx.verdict('route_histogram_mean', False, cls=cls, detail='exception %r' % ex, vector=meta)
        return
    if got is None:
        return
    exp = hist_expected(vec, twod)
    why = ''
    if got.shape != (len(exp), len(exp[0])):
        why = 'shape %r' % (got.shape,)
    else:
        for r, row in enumerate(exp):
            for k, v in enumerate(row):        # nothing is stated for a bin without native points
                if v is not None and not (finite(float(got[r, k])) and close(float(got[r, k]), v, rel=REL)):
                    why = why or 'bin %d row %d: got %r, mean of the points between the mid-points %r' % (k, r, float(got[r, k]), v)
    ctx.verdict('route_histogram_mean', why == '', cls=cls, detail=why, vector=meta)
    ch = fx.untouched()
    ctx.verdict('route_args_untouched', not ch, cls=cls, detail='changed by the call: %r' % ch, vector=meta)


def judge_native(ctx, vec, lat, order, size):
    NativeBinner = _taurex()[2]
    cls = 'route:native:%s:%s' % (size, order)
    meta = dict(vec, kind='route', binner='native', lat=list(lat), order=order, size=size)
    fx = Fixture(vec, lat, order)
    try:
        nb = NativeBinner()
        d = nb.generate_spectrum_output((fx.c, fx.f, fx.tau, None), **size_arg(size))
        m = nb.bin_model((fx.c, fx.f, fx.tau, None))
        ok = (np.array_equal(d['native_spectrum'], fx.keep[1]) and np.array_equal(d['native_wngrid'], fx.keep[0]) and
              ('native_tau' not in d or np.array_equal(d['native_tau'], fx.keep[2])) and
              ('binned_spectrum' not in d or np.array_equal(d['binned_spectrum'], fx.keep[1])) and
              np.array_equal(m[0], fx.keep[0]) and np.array_equal(m[1], fx.keep[1]) and not fx.untouched())
        detail = 'output %r / bin_model %r' % ({k: np.asarray(v).tolist() for k, v in d.items()}, m)
    except Exception as ex:
        ok, detail = False, 'exception %r' % ex
    ctx.verdict('route_native_identity', ok, cls=cls, detail=detail[:400], vector=meta)


# ---------------------------------------------------------------------------- the walk over TLC's vectors
def plan(vec, i):
    """the real calls made for vector i: every route of the flux binner (the output routes in two of the four sizes, rotating),
    in one hand-over order and through one constructor, both rotating; the order TLC says exposes a slip of the order is added"""
    n = len(vec['cs'])
    order = ('ascending', 'descending', 'mixed' if n > 2 else 'descending')[i % 3]
    ctor = CTORS[(i // 3) % 3]
    sizes = (SIZES[i % 4], SIZES[(i + 2) % 4])
    calls = [(order, ctor, rt, '') for rt in FLUX_ROUTES[:4]]
    calls += [(order, ctor, rt, s) for s in sizes for rt in FLUX_ROUTES[4:]]
    if vec['exposes']['unsortedwidth'] and order != 'mixed':
        calls += [('mixed', ctor, rt, 'heavy' if rt.startswith('out_') else '') for rt in FLUX_ROUTES if rt != 'bindown_w']
    return calls


def run_vectors(ctx, vecs):
    ncalls = 0
    exposing = {s: {rt: [] for rt in FLUX_ROUTES} for s in SLIPS}
    for i, vec in enumerate(vecs):
        lat = LATS[i % len(LATS)]
        for order, ctor, rt, size in plan(vec, i):
            judge_flux(ctx, vec, lat, order, ctor, rt, size)
            ncalls += 1
        for s in SLIPS:
            for rt in vec['exposes'][s]:
                exposing[s][rt].append((vec, lat))
        if vec['hist']:
            order = ('ascending', 'mixed' if len(vec['cs']) > 2 else 'descending')[i % 2]
            for rt, size in (('bindown', ''), ('bindown_2d', ''), ('bin_model', ''), ('out_spectrum', SIZES[i % 4]), ('out_tau', SIZES[1 + i % 3]),
                             ('function', ''), ('function_2d', '')):
                judge_simple(ctx, vec, lat, order, rt, size)
                ncalls += 1
        if i % 8 == 0:
            judge_native(ctx, vec, lat, ('ascending', 'mixed')[(i // 8) % 2], SIZES[(i // 8) % 4])
            ncalls += 1
    # non-vacuity 1 (expected counterexamples): on every route a slip can sit on, TLC found inputs on which it shows
    for s in SLIPS:
        for rt in FLUX_ROUTES:
            if s == 'fluxfortau' and rt not in ('bindown_2d', 'out_tau'):
                continue
            if not exposing[s][rt]:
                raise Machinery('routes: no exported vector exposes the slip %r on the route %r' % (s, rt))
    ctx.traces += len(vecs)
    ctx.note('routes: %d vectors (%d with non-uniform spacing, %d on which the two readings of the derived bin differ), %d real calls; '
             'vectors exposing the slips on the output route: %s'
             % (len(vecs), sum(1 for v in vecs if not v['uniform']), sum(1 for v in vecs if v['half'] != v['edges']), ncalls,
                ', '.join('%s:%d' % (s, len(exposing[s]['out_tau'])) for s in SLIPS)))
    ctx.add_sample(dict(route_vector={k: v for k, v in vecs[len(vecs) // 2].items() if k != 'exposes'}))
    return exposing


# ---------------------------------------------------------------------------- the harness's own mutants (canary)
def _midpoint_widths(x):
    d = np.diff(x) / 2
    edges = np.concatenate([[x[0] - d[0]], x[:-1] + d, [x[-1] + d[-1]]])
    return np.abs(np.diff(edges))


def mutant(slip, route):
    """The slips of BinRoutes.tla implemented ON TOP of the real FluxBinner, on one route (bindown_2d, bin_model, out_spectrum or
    out_tau): used only to show that the binding reports each of them on the vectors TLC says expose it."""
    FluxBinner = _taurex()[0]

    def slipped(self, wn, data, flux=None):
        if slip == 'fluxfortau':
            return FluxBinner.bindown(self, wn, np.vstack([flux] * len(data)))
        if slip == 'unsortedwidth':
            w = _midpoint_widths(wn)                       # derived before sorting
        else:
            s = np.argsort(wn)
            ws = _midpoint_widths(10000.0 / wn[s]) if slip == 'otherunit' else np.full(len(wn), _midpoint_widths(wn[s])[0])
            w = np.empty(len(wn))
            w[s] = ws                                      # travels with its point
        return FluxBinner.bindown(self, wn, data, grid_width=w)

    class M(FluxBinner):
        def bindown(self, wngrid, spectrum, grid_width=None, error=None):
            if route == 'bindown_2d' and np.ndim(spectrum) == 2 and grid_width is None and slip != 'fluxfortau':
                return slipped(self, wngrid, spectrum)
            return FluxBinner.bindown(self, wngrid, spectrum, grid_width=grid_width, error=error)

        def bin_model(self, model_output):
            if route == 'bin_model':
                return slipped(self, model_output[0], model_output[1])
            return FluxBinner.bin_model(self, model_output)

        def generate_spectrum_output(self, model_output, **kw):
            out = FluxBinner.generate_spectrum_output(self, model_output, **kw)
            wn, flux, tau, _ = model_output
            if route == 'out_spectrum':
                out['binned_spectrum'] = slipped(self, wn, flux)[1]
            if route == 'out_tau' and 'binned_tau' in out:
                out['binned_tau'] = slipped(self, wn, tau, flux)[1]
            return out
    return M


class _Probe:
    def __init__(self):
        self.bad = 0

    def verdict(self, clause, ok, **kw):
        self.bad += 0 if ok else 1


CANARY = (('otherunit', 'out_spectrum'), ('otherunit', 'out_tau'), ('otherunit', 'bin_model'), ('firstwidth', 'bin_model'),
          ('firstwidth', 'out_spectrum'), ('fluxfortau', 'out_tau'), ('unsortedwidth', 'bindown_2d'), ('unsortedwidth', 'out_tau'))


def canary(ctx, exposing):
    """non-vacuity 2: each slip, implemented on top of the real FluxBinner on one route, is reported by the binding on vectors TLC
    says expose it on that route (the real slip's numbers are not the specification's: some, not all, of them must show)"""
    if ctx.has_violations():
        return
    for slip, route in CANARY:
        ws = exposing[slip][route]
        M = mutant(slip, route)
        hit = 0
        sample = ws[::max(1, len(ws) // 12)][:12]
        for vec, lat in sample:
            probe = _Probe()
            judge_flux(probe, vec, lat, 'mixed' if slip == 'unsortedwidth' else 'ascending', 'positional', route, 'heavy', cls_of=M)
            hit += 1 if probe.bad else 0
        if not hit:
            raise Machinery('canary accepted: the slip %r on the route %r of the real FluxBinner passes all %d of TLC\'s witnesses'
                            % (slip, route, len(sample)))


def replay_vector(ctx, v):
    lat = tuple(v['lat'])
    if v['binner'] == 'flux':
        judge_flux(ctx, v, lat, v['order'], v['ctor'], v['route'], v['size'])
    elif v['binner'] == 'simple':
        judge_simple(ctx, v, lat, v['order'], v['route'], v['size'])
    else:
        judge_native(ctx, v, lat, v['order'], v['size'])
