"""./check <ID> quick|thorough | --replay <file>"""
import importlib
import json
import os
import sys
import traceback

from .core import Ctx, Machinery, VERIF


def main(argv):
    if len(argv) < 2:
        print('usage: check <ID> quick|thorough | --replay <file>')
        return 2
    pid = argv[0]
    replay = None
    if argv[1] == '--replay':
        replay = argv[2]
        tier = 'quick'
    else:
        tier = argv[1]
    tier = os.environ.get('VERIF_TIER', tier) if argv[1] != '--replay' else tier
    if tier not in ('quick', 'thorough'):
        print('unknown tier', tier)
        return 2
    seed = int(os.environ.get('VERIF_SEED', '0') or 0)
    ctx = Ctx(pid, tier, seed)
    try:
        import warnings
        warnings.simplefilter('ignore')
        try:
            from taurex.log import disableLogging
            disableLogging()
        except Exception:
            pass
        drv = importlib.import_module('harness.drivers.' + pid)
        if replay:
            ctx.replay_mode = True
            with open(replay) as f:
                data = json.load(f)
            drv.replay(ctx, data.get('violations', []))
        else:
            drv.run(ctx)
        return ctx.finish()
    except Machinery as e:
        print('MACHINERY-FAILURE property=%s: %s' % (pid, e))
        return 2
    except Exception as e:
        # An exception that escapes from the implementation under test (innermost frame inside the
        # taurex package) while a driver exercises an input inside the property's quantifier is a
        # violation ("the code raised"), not a failure of the machinery.
        tb = traceback.extract_tb(e.__traceback__)
        inner = tb[-1] if tb else None
        try:
            import taurex
            pkg = os.path.dirname(os.path.abspath(taurex.__file__))
        except Exception:
            pkg = None
        in_impl = bool(inner and pkg and os.path.abspath(inner.filename).startswith(pkg))
        traceback.print_exc()
        if in_impl and not isinstance(e, (ImportError, SyntaxError)):
            where = '%s:%s' % (os.path.relpath(inner.filename, pkg), inner.name)
            ctx.verdict('implementation_raised', False, cls='%s@%s' % (type(e).__name__, where),
                        detail='%s: %s (at %s line %s)' % (type(e).__name__, e, where, inner.lineno),
                        vector=dict(exception=type(e).__name__, where=where))
            return ctx.finish()
        print('MACHINERY-FAILURE property=%s: unexpected exception in driver' % pid)
        return 2


if __name__ == '__main__':
    sys.exit(main(sys.argv[1:]))
