"""./check <ID> quick|thorough | --replay <file>"""
import importlib
import json
import os
import sys
import traceback

from .core import Ctx, Machinery, VERIF


def main(argv):
    if len(argv) < 2:
        print('usage: check <ID> quick|thorough | --replay <file>')
        return 2
    pid = argv[0]
    replay = None
    if argv[1] == '--replay':
        replay = argv[2]
        tier = 'quick'
    else:
        tier = argv[1]
    tier = os.environ.get('VERIF_TIER', tier) if argv[1] != '--replay' else tier
    if tier not in ('quick', 'thorough'):
        print('unknown tier', tier)
        return 2
    seed = int(os.environ.get('VERIF_SEED', '0') or 0)
    ctx = Ctx(pid, tier, seed)
    try:
        import warnings
        warnings.simplefilter('ignore')
        try:
            from taurex.log import disableLogging
            disableLogging()
        except Exception:
            pass
        drv = importlib.import_module('harness.drivers.' + pid)
        if replay:
            ctx.replay_mode = True
            with open(replay) as f:
                data = json.load(f)
            drv.replay(ctx, data.get('violations', []))
        else:
            drv.run(ctx)
        return ctx.finish()
    except Machinery as e:
        print('MACHINERY-FAILURE property=%s: %s' % (pid, e))
        return 2
    except Exception:
        traceback.print_exc()
        print('MACHINERY-FAILURE property=%s: unexpected exception in driver' % pid)
        return 2


if __name__ == '__main__':
    sys.exit(main(sys.argv[1:]))
