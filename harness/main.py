"""./check <ID> quick|thorough | --replay <file>"""
import importlib
import json
import os
import sys
import traceback

from .core import Ctx, Machinery, VERIF

# Unbounded companions (TLAPS proofs in spec/proofs, ~1 s each) of invariants that TLC checks on small domains, per
# property; MC_ProofLinks (TLC) ties the exact-rational operators of the specifications to the proved polynomials.
PROOFS = {
    'C01': [('StatsLemma', 'DepthLayerStep: one layer never lowers the depth nor adds more than an opaque layer')],
    'C04': [('ConvexLemma', 'LinBetween, BilinearAboveLowerBound, BilinearBelowUpperBound: interpolants stay in the hull of their nodes')],
    'C05': [('StatsLemma', 'WeightedMeanStep: an overlap-weighted mean stays between the bounds of its terms')],
    'C09': [('StatsLemma', 'WeightedMeanStep: the weighted mean stays between the bounds of the samples')],
    'C10': [('ConvexLemma', 'LinBetween: a profile interpolated between two control values stays between them')],
    'C12': [('ConvexLemma', 'LinBetween: a node-interpolated temperature stays between its two nodes')],
    'C13': [('ConvexLemma', 'LinBetween: an opacity interpolated on other points lies between the neighbouring native values')],
    'C18': [('StatsLemma', 'WelfordStep, CombineTwoRanks: streaming update and rank combination equal the two-pass sums')],
}
LINKS = ('C04', 'C10', 'C12', 'C13', 'C18')


# Passive protocol monitor: the forward-model evaluations a driver performs anyway are recorded (wrappers around the
# public methods, harness/pipeline.py) and validated against spec/Pipeline.tla -- every guard at every step of every
# real run, as X01 does for its own scenarios.
MONITOR = ('C02', 'C03', 'C07', 'C11', 'C13', 'C15', 'C16', 'C19')


def monitor_begin(pid):
    if pid not in MONITOR and not os.environ.get('VERIF_MONITOR'):
        return False
    from . import pipeline
    pipeline.install()
    pipeline.start(0)
    return True


def monitor_end(ctx):
    from . import pipeline
    from .core import validate_trace
    evs = pipeline.stop()
    if not evs:
        ctx.note('protocol monitor: no forward-model event recorded')
        return
    tl = pipeline.for_tlc(evs)
    ok, bad, res = validate_trace('Trace_Pipeline', 'Trace_Pipeline.cfg', tl, timeout=1800)
    ctx.add_tlc('monitor-pipeline', res, counts=False)
    if res.postcondition_false and not bad:
        raise Machinery('monitor: pipeline trace not fully consumed:\n' + res.out[-1200:])
    badt = {b['tid']: b for b in bad}
    tids = sorted({e['tid'] for e in tl})
    for t in tids:
        b = badt.get(t)
        ctx.verdict('pipeline_protocol', b is None, cls='monitor' + ((':' + b['ev']) if b else ''),
                    detail='model object %d: rejected at %r' % (t, b), vector=dict(monitor=True))
    ctx.traces += len(tids)
    ctx.note('protocol monitor: %d events of %d model objects validated against Pipeline.tla, %d rejected' % (len(tl), len(tids), len(bad)))


def run_proofs(ctx, pid):
    for module, theorems in PROOFS.get(pid, ()):
        ctx.check_proofs(module, theorems)
    if pid in LINKS:
        ctx.check_spec('proof-links (Rat operators = cleared-denominator polynomials)', 'MC_ProofLinks', 'MC_ProofLinks.cfg', workers=2)


def main(argv):
    if len(argv) < 2:
        print('usage: check <ID> quick|thorough | --replay <file>')
        return 2
    pid = argv[0]
    replay = None
    if argv[1] == '--replay':
        replay = argv[2]
        tier = 'quick'
    else:
        tier = argv[1]
    tier = os.environ.get('VERIF_TIER', tier) if argv[1] != '--replay' else tier
    if tier not in ('quick', 'thorough'):
        print('unknown tier', tier)
        return 2
    seed = int(os.environ.get('VERIF_SEED', '0') or 0)
    ctx = Ctx(pid, tier, seed)
    try:
        import warnings
        warnings.simplefilter('ignore')
        try:
            from taurex.log import disableLogging
            disableLogging()
        except Exception:
            pass
        drv = importlib.import_module('harness.drivers.' + pid)
        if replay:
            ctx.replay_mode = True
            with open(replay) as f:
                data = json.load(f)
            drv.replay(ctx, data.get('violations', []))
        else:
            mon = monitor_begin(pid)
            try:
                drv.run(ctx)
            finally:
                if mon:
                    from . import pipeline
                    if sys.exc_info()[0] is not None:
                        pipeline.stop()
            if mon:
                monitor_end(ctx)
            run_proofs(ctx, pid)
        return ctx.finish()
    except Machinery as e:
        print('MACHINERY-FAILURE property=%s: %s' % (pid, e))
        return 2
    except Exception as e:
        # An exception that escapes from the implementation under test (innermost frame inside the
        # taurex package) while a driver exercises an input inside the property's quantifier is a
        # violation ("the code raised"), not a failure of the machinery.
        tb = traceback.extract_tb(e.__traceback__)
        inner = tb[-1] if tb else None
        try:
            import taurex
            pkg = os.path.dirname(os.path.abspath(taurex.__file__))
        except Exception:
            pkg = None
        in_impl = bool(inner and pkg and os.path.abspath(inner.filename).startswith(pkg))
        traceback.print_exc()
        if in_impl and not isinstance(e, (ImportError, SyntaxError)):
            where = '%s:%s' % (os.path.relpath(inner.filename, pkg), inner.name)
            ctx.verdict('implementation_raised', False, cls='%s@%s' % (type(e).__name__, where),
                        detail='%s: %s (at %s line %s)' % (type(e).__name__, e, where, inner.lineno),
                        vector=dict(exception=type(e).__name__, where=where))
            return ctx.finish()
        print('MACHINERY-FAILURE property=%s: unexpected exception in driver' % pid)
        return 2


if __name__ == '__main__':
    sys.exit(main(sys.argv[1:]))
