"""C15 -- bindings of spec/FactoryBin.tla: the [Binning] section and its interaction with [Observation] / [Instrument].

Every exported configuration (`BIN`) says what is written (bin_type and its spelling, one manual grid key with its
(start, end, n) triple as raw tokens, `accurate`, an observation, an instrument) and what the specification derives:
the resampling in force (`eff`), the resampler class and the grid as exact rationals (ascending wavenumber).

Two routes reach the mechanism:
  * the parser route  ParameterParser.read + generate_binning()  (no model; every manual configuration), and
  * the program route taurex.taurex.main() with -S (and -o), whose spectrum must be the one the same components give
    through the library: the library-built model's native spectrum, resampled by the specification's class on the
    specification's grid / by the observation's own binner / not at all, then passed through the library's instrument.

Tolerance GRID_RTOL: the documented grids evaluated in double precision differ from the exact rationals by a few ulp
(np.linspace <= 2 ulp, one division 0.5 ulp, np.logspace |log10 x| ulp ln 10 < 2e-15, <= 4 steps of the resolution
recurrence < 2e-15): everything is below 1e-14, 1e-12 leaves two orders of magnitude.  Spectra: the occupancy-weighted
resampler is continuous in the bin edges (1e-14 in the edges moves a weight by < 1e-12 x the spectral contrast); the
histogramming resampler is discrete, so the fixture checks that no bin edge of a specification grid lies within 1e-9 of
a native point (a property of the constants chosen in the specification and of the opacity grid written here).
"""
import contextlib
import io
import os
import sys

import numpy as np

from .core import Machinery

GRID_RTOL = 1e-12
SPEC_RTOL = 1e-12
SNR, NOBS = 12.0, 3.0
MODELS = ('transmission', 'emission', 'directimage')


def fr(p):
    return p[0] / p[1]


def grid_of(v):
    return np.array([fr(p) for p in v['grid']], dtype=float)


def bin_cls(v):
    man = ':%s:t%d:acc=%s' % (v['key'], v['tri'], v['acc'] or 'unset') if v['bt'] == 'manual' else ''
    return 'bin:%s%s:obs=%s:inst=%s' % (v['written'], man, v['obs'], v['inst'])


def check_raw(vecs):
    """Self-check of the specification's constants: the raw tokens are the exact values the grids are built from."""
    for v in vecs:
        if v['bt'] == 'manual' and len(v['raw']) != 3:
            raise Machinery('FactoryBin: manual configuration without a (start, end, n) triple: %s' % v)
        g = grid_of(v)
        if len(g) and not np.all(np.diff(g) > 0):
            raise Machinery('FactoryBin: exported grid is not ascending: %s' % v)


# ------------------------------------------------------------------------------------------ files
def binning_lines(v):
    L = []
    if v['bt'] != 'absent':
        L += ['[Binning]', 'bin_type = %s' % v['written']]
        if v['bt'] == 'manual':
            L += ['%s = %s' % (v['key'], ', '.join(v['raw']))]
            if v['acc']:
                L += ['accurate = %s' % v['acc']]
    return L


def write_obs(tmp, v, descending):
    """The observation of the specification: wavelength (um), depth, error and (file4) the bin width."""
    wl = np.array([fr(p) for p in v['obswl']])
    cols = [wl, 0.0105 + 1e-5 * np.arange(len(wl)), np.full(len(wl), 1e-4)]
    if v['obs'] == 'file4':
        cols.append(np.full(len(wl), fr(v['obswidth'])))
    a = np.column_stack(cols)
    if descending:
        a = a[::-1]
    f = os.path.join(tmp, 'bin_obs_%s_%d.dat' % (v['obs'], int(descending)))
    np.savetxt(f, a)
    return f


def par_text(v, xdir, model, obsfile):
    L = ['[Global]', 'xsec_path = %s' % xdir,
         '[Chemistry]', 'chemistry_type = taurex', 'fill_gases = H2, He', 'ratio = 0.2',
         '    [[H2O]]', '    gas_type = constant', '    mix_ratio = 2e-4',
         '    [[CH4]]', '    gas_type = constant', '    mix_ratio = 3e-5',
         '[Temperature]', 'profile_type = isothermal', 'T = 1100',
         '[Pressure]', 'profile_type = simple', 'nlayers = 12', 'atm_min_pressure = 1e-1', 'atm_max_pressure = 1e6',
         '[Planet]', 'planet_type = simple', 'planet_mass = 1.2', 'planet_radius = 0.9',
         '[Star]', 'star_type = blackbody', 'temperature = 5500', 'radius = 0.8',
         '[Model]', 'model_type = %s' % model] + (['ngauss = 3'] if model != 'transmission' else []) + \
        ['    [[Absorption]]', '    [[Rayleigh]]']
    L += binning_lines(v)
    if v['obs'] == 'self':
        L += ['[Observation]', 'taurex_spectrum = self']
    elif v['obs'] != 'none':
        L += ['[Observation]', 'observed_spectrum = %s' % obsfile]
    if v['inst'] == 'snr':
        L += ['[Instrument]', 'instrument = snr', 'SNR = %g' % SNR, 'num_observations = %g' % NOBS]
    return '\n'.join(L) + '\n'


def library_model(model, xdir):
    """The same components through the library (classes named directly, no factory)."""
    from taurex.cache import OpacityCache, GlobalCache
    from taurex.chemistry import TaurexChemistry, ConstantGas
    from taurex.temperature import Isothermal
    from taurex.pressure import SimplePressureProfile
    from taurex.planet import Planet
    from taurex.stellar import BlackbodyStar
    from taurex.model import TransmissionModel, EmissionModel, DirectImageModel
    from taurex.contributions import AbsorptionContribution, RayleighContribution
    OpacityCache().clear_cache()
    GlobalCache()['xsec_path'] = xdir
    OpacityCache().set_opacity_path(xdir)
    chem = TaurexChemistry(fill_gases=['H2', 'He'], ratio=0.2)
    chem.addGas(ConstantGas('H2O', mix_ratio=2e-4))
    chem.addGas(ConstantGas('CH4', mix_ratio=3e-5))
    kw = dict(planet=Planet(planet_mass=1.2, planet_radius=0.9), star=BlackbodyStar(temperature=5500.0, radius=0.8),
              pressure_profile=SimplePressureProfile(nlayers=12.0, atm_min_pressure=1e-1, atm_max_pressure=1e6),
              temperature_profile=Isothermal(T=1100.0), chemistry=chem)
    if model != 'transmission':
        kw['ngauss'] = 3.0
    m = dict(transmission=TransmissionModel, emission=EmissionModel, directimage=DirectImageModel)[model](**kw)
    m.add_contribution(AbsorptionContribution())
    m.add_contribution(RayleighContribution())
    m.build()
    return m


def spec_binner(v):
    """The resampler of the specification (class and grid), built through the library."""
    from taurex.binning import FluxBinner, SimpleBinner
    return dict(FluxBinner=FluxBinner, SimpleBinner=SimpleBinner)[v['klass']](grid_of(v))


def edges_clear(grid, native):
    """No bin edge (mid-points, half a step beyond the ends) within 1e-9 (relative) of a native point."""
    e = np.concatenate([[grid[0] - (grid[1] - grid[0]) / 2], (grid[1:] + grid[:-1]) / 2, [grid[-1] + (grid[-1] - grid[-2]) / 2]])
    d = np.abs(e[:, None] - native[None, :]) / native[None, :]
    return float(d.min()) > 1e-9


def _same(a, b, rtol):
    a, b = np.asarray(a, dtype=float), np.asarray(b, dtype=float)
    return a.shape == b.shape and bool(np.allclose(a, b, rtol=rtol, atol=0, equal_nan=True))


def _maxrel(a, b):
    a, b = np.asarray(a, dtype=float), np.asarray(b, dtype=float)
    if a.shape != b.shape:
        return 'shape %s vs %s' % (a.shape, b.shape)
    with np.errstate(all='ignore'):
        return 'max rel. diff %.3e' % np.nanmax(np.abs(a / b - 1))


# ------------------------------------------------------------------------------------------ parser route
def run_parser_route(ctx, vecs, tmp, native):
    """generate_binning() of every manual configuration: the class of the resampler, the grid it returns and the grid
    the resampler itself works on, against the specification; the resampled values against the library's resampler."""
    from taurex.parameter import ParameterParser
    from taurex.util.util import create_grid_res
    par = os.path.join(tmp, 'binroute.par')
    y = 1e-2 * (1 + 0.1 * np.sin(native / 97.0))
    seen, n = set(), 0
    for v in vecs:
        if v['bt'] != 'manual':
            continue
        k = (v['written'], v['key'], v['tri'], v['acc'])
        if k in seen:
            continue
        seen.add(k)
        n += 1
        cls = 'bin:%s:%s:t%d:acc=%s:route=parser' % (v['written'], v['key'], v['tri'], v['acc'] or 'unset')
        text = '\n'.join(binning_lines(v)) + '\n'
        vec = dict(v, par=text, binroute='parser')
        with open(par, 'w') as f:
            f.write(text)
        want = grid_of(v)
        try:
            pp = ParameterParser()
            pp.read(par)
            got = pp.generate_binning()
            binner, wngrid = got
            wngrid = np.asarray(wngrid, dtype=float)
            own = np.asarray(binner.bindown(native, y)[0], dtype=float)
            vals = np.asarray(binner.bindown(native, y)[1], dtype=float)
        except BaseException as ex:
            ctx.verdict('WellFormedFileBuilds', False, cls=cls, detail='[Binning] %r: generate_binning() / the resampler raised %s: %s' % (
                text, type(ex).__name__, ex), vector=vec)
            continue
        ctx.verdict('ResolvesToSpecClass', type(binner).__name__ == v['klass'], cls=cls, detail='accurate = %r built %s, specification %s' % (
            v['acc'], type(binner).__name__, v['klass']), vector=vec)
        ok = _same(wngrid, want, GRID_RTOL) and _same(own, want, GRID_RTOL)
        ctx.verdict('BinningGridAsDocumented', ok, cls=cls, detail='%s = %s: grid %s (%s; the resampler works on %s), documented grid %s' % (
            v['key'], ', '.join(v['raw']), wngrid[:4], _maxrel(wngrid, want), own[:4], want[:4]), vector=vec)
        if v['key'] == 'wavelength_res':     # R = lambda / dlambda with contiguous bins: constant ratio (2R+1)/(2R-1); the library's own grid
            wl = 10000 / wngrid[::-1]
            q = fr(v['ratio'])
            lib = 10000 / create_grid_res(float(v['raw'][2]), float(v['raw'][0]), float(v['raw'][1]))[::-1, 0]
            ok = len(wl) >= 2 and bool(np.allclose(wl[1:] / wl[:-1], q, rtol=GRID_RTOL, atol=0)) and _same(wngrid, lib, GRID_RTOL)
            ctx.verdict('BinningGridAsDocumented', ok, cls=cls + ':resolution', detail='wavelength_res = %s: successive wavelength ratios %s, specification %s; library grid %s' % (
                ', '.join(v['raw']), wl[1:] / wl[:-1], q, _maxrel(wngrid, lib)), vector=vec)
        if v['klass'] == 'FluxBinner' or edges_clear(want, native):
            exp = spec_binner(v).bindown(native, y)[1]
            ctx.verdict('FileEqualsLibrary', _same(vals, exp, SPEC_RTOL), cls=cls, detail='the resampler built from the file gives %s, %s(documented grid) gives %s (%s)' % (
                vals[:3], v['klass'], np.asarray(exp)[:3], _maxrel(vals, exp)), vector=vec)
        elif len(want) == len(wngrid):
            raise Machinery('FactoryBin: a bin edge of %s = %s coincides with a native point of the fixture' % (v['key'], v['raw']))
    if os.path.exists(par):
        os.unlink(par)
    ctx.traces += n
    return n


# ------------------------------------------------------------------------------------------ program route
def choose_cli(vecs, seed, quick):
    """Configurations that go through the command-line program.  Quick: one per (bin_type, kind of observation,
    instrument); the manual ones rotate the grid key, the triple and `accurate` over the combinations."""
    kind = lambda v: 'file' if v['obs'].startswith('file') else v['obs']
    plain = [v for v in vecs if v['bt'] != 'manual' and v['written'] == v['bt']]
    manual = [v for v in vecs if v['bt'] == 'manual']
    caps = [v for v in vecs if v['bt'] != 'manual' and v['written'] != v['bt']]
    out = []
    if not quick:
        out += plain + caps[seed % 3::3]
        seenm = {}
        for v in manual:
            k = (v['key'], v['tri'], kind(v), v['inst'])
            seenm.setdefault(k, []).append(v)
        for j, (k, L) in enumerate(sorted(seenm.items())):
            out.append(L[(seed + j) % len(L)])
        return out
    groups = {}
    for v in plain:
        groups.setdefault((v['bt'], kind(v), v['inst']), []).append(v)
    for j, (k, L) in enumerate(sorted(groups.items())):
        out.append(L[(seed + j) % len(L)])
    # one of the written selectors capitalised (the parser lower-cases the value)
    c = [v for v in caps if v['obs'].startswith('file') and v['bt'] == 'native']
    if c:
        out.append(c[seed % len(c)])
    keys = sorted({v['key'] for v in manual})
    combos = sorted({(kind(v), v['inst']) for v in manual})
    for j, cb in enumerate(combos):
        key = keys[(seed + j) % len(keys)]
        L = [v for v in manual if v['key'] == key and (kind(v), v['inst']) == cb and v['written'] == v['bt']]
        L.sort(key=lambda v: (v['tri'], v['acc'], v['obs']))
        out.append(L[(seed * 7 + j * 5) % len(L)])
    return out


def run_cli_route(ctx, picks, tmp, xdir, seed, with_h5=True, model=None):
    import h5py
    import taurex.taurex as T
    from taurex.cache import OpacityCache
    from taurex.log import disableLogging
    from taurex.data.spectrum.observed import ObservedSpectrum
    from taurex.instruments.snr import SNRInstrument
    model = model or MODELS[seed % len(MODELS)]
    try:
        lib = library_model(model, xdir)
        res = lib.model()
        wn, spec = np.array(res[0], dtype=float), np.array(res[1], dtype=float)
        if wn.ndim != 1 or wn.shape != spec.shape or not np.all(np.isfinite(spec)):
            raise ValueError('native spectrum of shape %s on a grid of shape %s, finite: %s' % (spec.shape, wn.shape, bool(np.all(np.isfinite(spec)))))
    except BaseException as ex:     # the well-formed components of the fixture do not give a spectrum through the library
        ctx.verdict('WellFormedFileBuilds', False, cls='bin:library-model:%s' % model, detail='the %s model of the fixture built through the library: %s: %s' % (
            model, type(ex).__name__, ex), vector=dict(binroute='program', model=model, bt='absent', written='absent', obs='none', inst='none', eff='native',
                                                       klass='NativeBinner', grid=[], key='', tri=0, acc='', raw=[]))
        return 0, model
    n = 0
    for j, v in enumerate(picks):
        cls = bin_cls(v) + ':route=program'
        obsfile = write_obs(tmp, v, descending=bool((seed + j) % 2)) if v['obs'].startswith('file') else None
        text = par_text(v, xdir, model, obsfile)
        vec = dict(v, par=text, binroute='program', model=model)
        par, txt, h5 = (os.path.join(tmp, 'binsect.' + e) for e in ('par', 'txt', 'h5'))
        for p in (txt, h5):
            if os.path.exists(p):
                os.unlink(p)
        with open(par, 'w') as f:
            f.write(text)
        OpacityCache().clear_cache()
        argv = sys.argv
        sys.argv = ['taurex', '-i', par, '-S', txt] + (['-o', h5] if with_h5 else [])
        buf = io.StringIO()
        try:
            with contextlib.redirect_stdout(buf), contextlib.redirect_stderr(buf):
                T.main()
            err = None
        except BaseException as ex:
            err = '%s: %s' % (type(ex).__name__, ex)
        finally:
            sys.argv = argv
            disableLogging()
        n += 1
        if v['eff'] == 'error':
            ctx.verdict('ObservedNeedsObservation', err is not None and not os.path.exists(txt), cls=cls,
                        detail='bin_type = observed without an [Observation]: the program wrote a spectrum instead of reporting an error', vector=vec)
            continue
        if err:
            ctx.verdict('CLIEqualsLibrary', False, cls=cls, detail='taurex -i/-S/-o failed: ' + err, vector=vec)
            continue
        try:
            col = np.atleast_2d(np.loadtxt(txt))
            stored = {}
            if with_h5:
                with h5py.File(h5, 'r') as f:
                    st = f['Output/Spectra']
                    stored = {k: st[k][...] for k in st if k in ('native_spectrum', 'native_wngrid', 'binned_spectrum', 'binned_wngrid',
                                                                    'instrument_spectrum', 'instrument_noise', 'instrument_wngrid')}
        except BaseException as ex:
            ctx.verdict('CLIEqualsLibrary', False, cls=cls, detail='the outputs of the program cannot be read: %s: %s' % (type(ex).__name__, ex), vector=vec)
            continue
        try:        # (a wrong shape / a missing column / an exception on the way is a verdict, not a crash)
            # the resampler in force, through the library
            if v['eff'] == 'native':
                binner, egrid = lib.defaultBinner(), wn
            elif v['eff'] == 'observed':
                binner, egrid = ObservedSpectrum(obsfile).create_binner(), grid_of(v)
            else:
                binner, egrid = spec_binner(v), grid_of(v)
                if v['klass'] == 'SimpleBinner' and not edges_clear(egrid, wn):
                    raise Machinery('FactoryBin: a bin edge of %s = %s coincides with a native point of the fixture' % (v['key'], v['raw']))
            ebin = np.asarray(binner.bindown(wn, spec)[1], dtype=float)
            what = {'native': 'not resampled', 'observed': 'resampled to the observation grid', 'manual': 'resampled by %s on the documented %s grid' % (v['klass'], v['key'])}[v['eff']]
            if v['inst'] == 'snr':
                e_wn, e_sp, e_noise = SNRInstrument(SNR=SNR, binner=binner).model_noise(lib, model_res=res, num_observations=NOBS)[:3]
                ok = col.shape[1] >= 3 and _same(col[:, 0], 10000 / np.asarray(e_wn), GRID_RTOL) and _same(col[:, 1], e_sp, SPEC_RTOL) and _same(col[:, 2], e_noise, SPEC_RTOL) \
                    and _same(10000 / np.asarray(e_wn), 10000 / egrid, GRID_RTOL)
                ctx.verdict('CLIEqualsLibrary', ok, cls=cls, detail='-S holds %d rows, wavelengths %s, spectrum %s, noise %s; the library model %s and passed through SNRInstrument(%g).model_noise(.., %g) '
                            'gives %d rows, wavelengths %s, spectrum %s, noise %s' % (col.shape[0], col[:3, 0], col[:3, 1], col[:3, 2] if col.shape[1] > 2 else None, what, SNR, NOBS,
                                                                                   len(e_sp), (10000 / egrid)[:3], np.asarray(e_sp)[:3], np.asarray(e_noise)[:3]), vector=vec)
                if with_h5:
                    ok = all(k in stored for k in ('instrument_spectrum', 'instrument_noise', 'instrument_wngrid')) and _same(stored['instrument_wngrid'], egrid, GRID_RTOL) \
                        and _same(stored['instrument_spectrum'], e_sp, SPEC_RTOL) and _same(stored['instrument_noise'], e_noise, SPEC_RTOL)
                    ctx.verdict('CLIEqualsLibrary', ok, cls=cls + ':stored', detail='the stored instrument spectrum / noise / grid %s differ from the library (%s)' % (
                        {k: np.asarray(x).shape for k, x in stored.items()}, what), vector=vec)
            else:
                ok = _same(col[:, 0], 10000 / egrid, GRID_RTOL) and _same(col[:, 1], ebin, SPEC_RTOL)
                ctx.verdict('CLIEqualsLibrary', ok, cls=cls, detail='-S holds %d rows, wavelengths %s (%s), spectrum %s (%s); the library model %s has %d rows, wavelengths %s, spectrum %s' % (
                    col.shape[0], col[:3, 0], _maxrel(col[:, 0], 10000 / egrid), col[:3, 1], _maxrel(col[:, 1], ebin), what, len(ebin), (10000 / egrid)[:3], ebin[:3]), vector=vec)
            if with_h5:
                ok = 'native_spectrum' in stored and _same(stored['native_spectrum'], spec, SPEC_RTOL) and _same(stored.get('native_wngrid', []), wn, GRID_RTOL)
                if v['obs'] != 'self':      # (`self`: the stored resampling is the one of the simulated observation)
                    if v['eff'] == 'native':
                        ok = ok and 'binned_spectrum' not in stored
                    else:
                        ok = ok and 'binned_spectrum' in stored and _same(stored['binned_spectrum'], ebin, SPEC_RTOL) and \
                            ('binned_wngrid' not in stored or _same(stored['binned_wngrid'], egrid, GRID_RTOL))
                ctx.verdict('CLIEqualsLibrary', ok, cls=cls + ':output', detail='Output/Spectra holds %s; the library model %s: native %d points%s' % (
                    {k: np.asarray(x).shape for k, x in stored.items()}, what, len(spec), '' if v['eff'] == 'native' else ', resampled %d points %s' % (len(ebin), ebin[:3])), vector=vec)
        except Machinery:
            raise
        except BaseException as ex:
            ctx.verdict('CLIEqualsLibrary', False, cls=cls, detail='the outputs of the program (-S %s) cannot be compared with the library model: %s: %s' % (
                np.asarray(col).shape, type(ex).__name__, ex), vector=vec)
    for e in ('par', 'txt', 'h5'):
        p = os.path.join(tmp, 'binsect.' + e)
        if os.path.exists(p):
            os.unlink(p)
    OpacityCache().clear_cache()
    ctx.traces += n
    return n, model


def run(ctx, vecs, tmp, xdir, quick):
    """Both routes; returns (parser configurations, program runs, model type)."""
    import pickle
    check_raw(vecs)
    with open(os.path.join(xdir, 'H2O.pickle'), 'rb') as f:
        native = np.asarray(pickle.load(f)['wno'], dtype=float)
    npar = run_parser_route(ctx, vecs, tmp, native)
    picks = choose_cli(vecs, ctx.seed, quick)
    ncli, model = run_cli_route(ctx, picks, tmp, xdir, ctx.seed)
    return npar, ncli, model
