"""Fixtures for C06 (strengthening after seeded changes, third round; no file of /repo is touched).

ONE long-lived optimizer used for several observations / settings, one after the other:

 * toy world "hist" of spec/MC_Likelihood.tla: the world "two" whose optimizer is pointed at the observations TLC
   prints with every behaviour (bins = sets of native indices, data, error bars): toy_observations()
 * OptimizerHistory: Scenario for harness/history.py (spec/Functional.tla): settings a user changes between two fits
   on the same optimizer object -- the observation (set_observed; three real ArraySpectrum files with 2, 2 and 3
   bins), the fitted subset (enable_fit / disable_fit) and the boundaries of a fitted parameter (set_boundary) --
   followed by compile_params() and compute_fit(); what is observed is what the NEW callbacks return.
"""
import numpy as np

from . import fx_retrieval as fx
from . import fx_like as fl
from .history import Scenario

fx.TOY.setdefault('hist', dict(fx.TOY['two']))
HALF = 5.0               # half the (uniform) native spacing of fx.TOY_NATIVE_WN


def toy_observations(recs):
    """The observations of a behaviour (records [bins, data, sig] printed by TLC) as real BaseSpectrum objects:
    a bin given as a set of contiguous native indices covers exactly the native bins of those points."""
    out = []
    for r in recs:
        lo = np.array([fx.TOY_NATIVE_WN[min(b) - 1] - HALF for b in r['bins']])
        hi = np.array([fx.TOY_NATIVE_WN[max(b) - 1] + HALF for b in r['bins']])
        for b in r['bins']:
            if sorted(b) != list(range(min(b), max(b) + 1)):
                raise fx.Machinery('bin %r is not a contiguous set of native points' % (b,))
        out.append(fx.make_wn_obs((lo + hi) / 2, hi - lo, [float(v) for v in r['data']], [float(v) for v in r['sig']]))
    return out


# ----------------------------------------------------------------------------------------------
# history scenario (harness/history.py)
# ----------------------------------------------------------------------------------------------

def _array_obs(edges_wn, data, err):
    """A real ArraySpectrum (wavelength, value, error, wavelength width) whose bins are [edges_k, edges_k+1] in cm-1."""
    e = np.asarray(edges_wn, dtype=float)
    lo, hi = e[:-1], e[1:]
    return fx.make_array_obs((lo + hi) / 2, hi - lo, data, err)


OBSERVATIONS = {
    'A(2 bins)': lambda: _array_obs([95.0, 115.0, 135.0], [14.0, 12.0], [2.0, 3.0]),
    'B(2 bins, other layout)': lambda: _array_obs([95.0, 105.0, 135.0], [18.0, 11.0], [1.0, 2.0]),
    'C(3 bins)': lambda: _array_obs([95.0, 105.0, 125.0, 135.0], [18.0, 8.0, 18.0], [2.0, 1.0, 3.0]),
}
SUBSETS = [('a', 'b'), ('a',), ('b', 'c')]
BOUNDS_A = [(0.0, 8.0), (1.0, 5.0), (2.0, 4.0)]
POINT = {'a': [2.0, 3.0, 7.0], 'b': [1.0, 1.0, 2.0], 'c': [6.0, 8.0, 6.0]}     # valid, valid, invalid (a >= c | a + b > 50)


class OptimizerHistory(Scenario):
    """settings: observation, fitted subset, boundaries of `a`; observe = the callbacks handed over by a new
    compile_params() + compute_fit() at fixed points (after putting every parameter back to its initial value through
    the public model[name] = value API, so that only the optimizer's own state can differ from a fresh one)."""

    dims = [list(OBSERVATIONS), SUBSETS, BOUNDS_A]

    def __init__(self, sampler, make_optimizer, bind, tmpdir):
        self.name = 'optimizer-reused:%s' % sampler
        self.sampler, self.make_optimizer, self.bind, self.tmpdir = sampler, make_optimizer, bind, tmpdir

    def _apply_subset(self, opt, subset):
        for n in ('a', 'b', 'c'):
            (opt.enable_fit if n in subset else opt.disable_fit)(n)

    def fresh(self, values):
        obsname, subset, bounds = values
        model = fl.make_toy('hist')
        opt = self.make_optimizer(self.sampler, OBSERVATIONS[obsname](), model, self.tmpdir)
        self._apply_subset(opt, subset)
        opt.set_boundary('a', list(bounds))
        return opt

    def set(self, opt, d, value, values):
        if d == 0:
            opt.set_observed(OBSERVATIONS[value]())
        elif d == 1:
            self._apply_subset(opt, value)
        else:
            opt.set_boundary('a', list(value))

    def observe(self, opt):
        model = opt._model
        for n, v in zip(fx.TOY['hist']['names'], fx.TOY['hist']['val0']):
            model[n] = float(v)
        opt.compile_params()
        b = self.bind(self.sampler, opt, self.tmpdir)
        names = [p[0] for p in opt.fitting_parameters]
        out = dict(names=','.join(names), ndim=int(b.ndim), prior=b.prior([0.25, 0.75][:len(names)]))
        for k in range(3):
            v = float(b.loglike([POINT[n][k] for n in names]))
            out['ll%d' % k] = v if np.isfinite(v) else 'nonfinite'
        return out
