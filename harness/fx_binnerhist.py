"""Histories of ONE long-lived binner (spec/BinnerHistory.tla, spec/MC_BinnerHistory.tla) -- shared by C16 and C17.

TLC owns the alphabet (target bins, native grids on an integer lattice, spectra, optical depths, uncertainties), the
table of operations with what a freshly built binner returns for each (exact rationals: the overlap-weighted mean of
the native cells of THAT call over [centre - width/2, centre + width/2]), every ordered pair of operations, longer
random sequences, and -- per sequence -- which design mutants (memo of the derived native widths keyed on the number of
points / on the end points, widths converted to wavelength in place) it exposes.  This module maps the lattice to cm-1
(dyadic unit), replays each sequence on one real binner and, call by call, also on a freshly built one, and reports
per call what differs:
   'exposed'  the centres / widths the call exposes are not the ones the binner was built with
   'values'   a binned value is not the specification's (binned spectrum, optical depths, uncertainties)
   'wlwidth'  the wavelength widths of an output dictionary are not the widths converted at the bin centre
   'native'   the native arrays of an output dictionary are not the ones handed in / the arguments were modified
   'fresh'    the call does not return bit for bit what a freshly built binner returns
Nothing here computes an expected value with the code under test.
"""
import re

import numpy as np

from .core import Machinery, run_tlc, frac

MUTANT_INVARIANTS = ('RefuteLength', 'RefuteEnds', 'RefuteInplace')
SIZE_NAMES = ('heavy', 'light', 'lighter')


def opkey(op):
    return (op['k'], int(op['g']), op['wm'], bool(op['err']), op['size'])


def opname(op):
    if op['k'] == 'output':
        return 'output(%s)' % op['size']
    if op['k'] == 'bin_model':
        return 'bin_model'
    return 'bindown(%s%s)' % (op['wm'], ',error' if op['err'] else '')


def trail(ops):
    return ' > '.join('%s@G%d' % (opname(o), o['g']) for o in ops)


# ---------------------------------------------------------------------------- design level
def check_design(ctx, thorough=False):
    """One TLC run (-continue) over the whole reachable graph of BinnerHistory: the clauses hold without a memo and with a
    memo keyed on the points, for the three kinds of binner; exactly the three design mutants are refuted."""
    cfg = 'MC_BinnerHistory_design%s.cfg' % ('_thorough' if thorough else '')
    res = run_tlc('MC_BinnerHistory', cfg, workers=2, allow_violation=True, extra=['-continue'])
    ctx.add_tlc('binner-history-design', res)
    got = set(re.findall(r'Invariant (\S+) is violated', res.out))
    if got != set(MUTANT_INVARIANTS):
        raise Machinery('BinnerHistory: expected TLC to refute exactly %r, got %r\n%s' % (sorted(MUTANT_INVARIANTS), sorted(got), res.out[-1500:]))
    if res.distinct < 100 or res.generated <= res.distinct or res.depth < 3:
        raise Machinery('BinnerHistory: design run explored %d states to depth %d' % (res.distinct, res.depth))
    return res


# ---------------------------------------------------------------------------- the alphabet and the sequences from TLC
class Alphabet:
    def __init__(self, row, unit):
        self.row = row
        self.U = float(unit)
        self.tc = np.array(row['tc'], dtype=float) * self.U          # as handed to the constructor (unsorted)
        self.tw = np.array(row['tw'], dtype=float) * self.U
        self.c = np.array(row['c'], dtype=float) * self.U            # ascending, widths travelling with the centres
        self.w = np.array(row['w'], dtype=float) * self.U
        self.grids = []
        for g in row['grids']:
            self.grids.append(dict(p=np.array(g['p'], dtype=float) * self.U, xw=np.array(g['xw'], dtype=float) * self.U,
                                   f=np.array(g['f'], dtype=float), tau=np.array(g['tau'], dtype=float), e=np.array(g['e'], dtype=float),
                                   dw=np.array(g['dw'], dtype=float) * self.U, lattice=g['p']))
        self.table = {kind: {opkey(r['op']): r['res'] for r in row[kind]} for kind in ('flux', 'simple', 'native')}
        n = len(next(iter(self.table.values())))
        if n < 8 or any(len(t) != n for t in self.table.values()):
            raise Machinery('operation table of BinnerHistory incomplete')

    def relation(self, ops, j):
        """how the grid of call j relates to the grids the binner has seen before (the classes of the grid alphabet)"""
        g = self.grids[ops[j]['g'] - 1]['lattice']
        rel = set()
        for o in ops[:j]:
            h = self.grids[o['g'] - 1]['lattice']
            if h == g:
                rel.add('same-grid')
            elif len(h) == len(g) and h[0] == g[0] and h[-1] == g[-1]:
                rel.add('same-length-same-ends')
            elif len(h) == len(g):
                rel.add('same-length')
            else:
                rel.add('other-length')
        for k in ('same-length-same-ends', 'same-length', 'other-length', 'same-grid'):
            if k in rel:
                return k
        return 'first-call'


def generate(ctx, thorough=False, nwalks=None, unit=None):
    """(alphabet, walks): every ordered pair of operations (exhaustive, two calls) + random longer sequences."""
    sfx = '_thorough' if thorough else ''
    res = run_tlc('MC_BinnerHistory', 'EX_BinnerHistory_pairs%s.cfg' % sfx, workers=1 if not thorough else 4)
    ctx.add_tlc('binner-history-pairs', res)
    if res.violated:
        raise Machinery('BinnerHistory (pairs) violates %s\n%s' % (res.violated, res.error_trace))
    rows = res.tagged('OPS')
    pairs = res.tagged('WALK')
    if len(rows) != 1:
        raise Machinery('BinnerHistory: %d operation tables exported' % len(rows))
    unit = unit or (8.0, 16.0, 32.0, 64.0)[ctx.seed % 4]        # lattice unit in cm-1 (dyadic: every coordinate is an exact float)
    A = Alphabet(rows[0], unit)
    nops = len(A.table['flux'])
    if len(pairs) != nops * nops:
        raise Machinery('BinnerHistory: %d pairs exported for %d operations' % (len(pairs), nops))
    n = nwalks or (1200 if thorough else 120)
    sim = run_tlc('MC_BinnerHistory', 'SIM_BinnerHistory%s.cfg' % sfx, workers=1, simulate='num=%d' % n, depth=12, seed=ctx.seed + 16)
    ctx.add_tlc('binner-history-walks', sim, counts=False)
    longer = sim.tagged('WALK')
    if len(longer) < n // 2:
        raise Machinery('TLC produced only %d operation sequences' % len(longer))
    walks = [dict(w, src='pair') for w in pairs] + [dict(w, src='walk') for w in longer]
    for w in walks:
        for o in w['ops']:
            if opkey(o) not in A.table['flux']:
                raise Machinery('operation %r not in the table' % (o,))
    # the sequences expose every design mutant many times (non-vacuity of what is replayed)
    for kind, muts in (('flux', ('length', 'ends', 'inplace')), ('simple', ('inplace',))):
        for m in muts:
            k = sum(1 for w in walks if m in w[kind])
            if k < 10:
                raise Machinery('only %d exported sequences expose the design mutant %s/%s' % (k, kind, m))
    return A, walks


# ---------------------------------------------------------------------------- one call on a real binner
def _copy(x):
    return None if x is None else np.array(x, dtype=float, copy=True)


def call(binner, A, op, store=None):
    """Execute one operation; everything returned is copied at once (results may alias the binner's own arrays).
    store: optional function dict -> dict that writes an output dictionary to a file and reads it back."""
    from taurex import OutputSize
    g = A.grids[op['g'] - 1]
    wn, f, tau, e, xw = (np.array(g[k], copy=True) for k in ('p', 'f', 'tau', 'e', 'xw'))
    rec = dict(kind=op['k'])
    if op['k'] == 'output':
        size = {'heavy': OutputSize.heavy, 'light': OutputSize.light, 'lighter': OutputSize.lighter}[op['size']]
        d = binner.generate_spectrum_output((wn, f, tau, None), output_size=size)
        if store is not None:
            d = store(d)
        rec.update(grid=_copy(d.get('binned_wngrid')), widths=_copy(d.get('binned_wnwidth')), val=_copy(d.get('binned_spectrum')),
                   tau=_copy(d.get('binned_tau')), wlw=_copy(d.get('binned_wlwidth')), wlgrid=_copy(d.get('binned_wlgrid')),
                   native=(_copy(d.get('native_wngrid')), _copy(d.get('native_spectrum'))), ntau=_copy(d.get('native_tau')),
                   err=None, keys=sorted(d))
    else:
        if op['k'] == 'bin_model':
            out = binner.bin_model((wn, f, tau, None))
        else:
            kw = {}
            if op['wm'] == 'explicit':
                kw['grid_width'] = xw
            if op['err']:
                kw['error'] = e
            out = binner.bindown(wn, f, **kw)
        rec.update(grid=_copy(out[0]), val=_copy(out[1]), err=_copy(out[2]), widths=_copy(out[3]), tau=None, wlw=None, native=None)
    rec['args_untouched'] = all(np.array_equal(a, g[k]) for a, k in ((wn, 'p'), (f, 'f'), (tau, 'tau'), (e, 'e'), (xw, 'xw')))
    return rec


def _same(a, b):
    if a is None or b is None:
        return a is None and b is None
    return a.shape == b.shape and np.array_equal(a, b, equal_nan=True)


def _entries(got, exp, tol):
    """binned values against the specification's entries ([k: num, v: n/d] | [k: zero])"""
    if got is None or got.shape != (len(exp),):
        return 'shape %r, specification has %d entries' % (None if got is None else got.shape, len(exp))
    for i, e in enumerate(exp):
        x = float(got[i])
        if e['k'] == 'num':
            want = float(frac(e['v']))
            if not (abs(x - want) <= tol * max(abs(x), abs(want))):
                return 'element %d is %r, overlap-weighted mean of the native cells of this call %r (%s/%s)' % (i, x, want, e['v'][0], e['v'][1])
        elif e['k'] == 'zero':
            if x != 0.0:
                return 'element %d is %r, no native cell overlaps the bin' % (i, x)
        elif x == x:
            return 'element %d is %r, the bin holds no native point' % (i, x)
    return None


def judge(A, kind, op, rec, ref_c, ref_w, tol, wtol=0.0):
    """Problems of one call against the specification's result for a FRESH binner (empty list: none).
    ref_c, ref_w: the centres / widths the binner was built with (compared bit for bit; wtol = 0) -- for the native binner
    the arguments.  tol: relative tolerance of binned values (None: the bins are not on the lattice, values are not compared)."""
    res = A.table[kind][opkey(op)]
    g = A.grids[op['g'] - 1]
    out = []
    binned = kind != 'native'
    if binned:
        if not _same(rec['grid'], ref_c):
            out.append(('exposed', 'centres %r, the binner was built on %r' % (None if rec['grid'] is None else rec['grid'].tolist(), ref_c.tolist())))
        if not _same(rec['widths'], ref_w):
            out.append(('exposed', 'widths %r, the binner was built with %r' % (None if rec['widths'] is None else rec['widths'].tolist(), ref_w.tolist())))
    else:
        if not _same(rec['grid'] if op['k'] != 'output' else rec['native'][0], g['p']):
            out.append(('exposed', 'native binner does not return the grid it was given'))
    if tol is not None:
        v = _entries(rec['val'] if (binned or op['k'] != 'output') else rec['native'][1], res['val'], tol)
        if v:
            out.append(('values', 'binned spectrum: ' + v))
        if res['tau']:
            if rec['tau'] is None or rec['tau'].shape != (len(res['tau']), len(res['tau'][0])):
                out.append(('tau', 'binned optical depths have shape %r' % (None if rec['tau'] is None else rec['tau'].shape,)))
            else:
                for r, row in enumerate(res['tau']):
                    v = _entries(rec['tau'][r], row, tol)
                    if v:
                        out.append(('tau', 'binned optical depth, row %d: %s' % (r, v)))
                        break
        elif op['k'] == 'output' and binned and rec['tau'] is not None:
            out.append(('tau', 'binned optical depths present in a lighter output'))
        if res['err2']:
            if rec['err'] is None or rec['err'].shape != (len(res['err2']),):
                out.append(('values', 'binned uncertainties missing / of shape %r' % (None if rec['err'] is None else rec['err'].shape,)))
            else:
                for i, q in enumerate(res['err2']):
                    want, x = float(frac(q)), float(rec['err'][i]) ** 2
                    if not (abs(x - want) <= 2 * tol * max(abs(x), abs(want))):
                        out.append(('values', 'squared binned uncertainty %d is %r, specification %r' % (i, x, want)))
                        break
    if op['k'] == 'output':
        if binned:
            # converted at the bin centre from the centres and widths the binner was built with
            want = 10000.0 * ref_w / (ref_c * ref_c)
            if rec['wlw'] is None or rec['wlw'].shape != want.shape or not np.allclose(rec['wlw'], want, rtol=1e-12, atol=0):
                out.append(('wlwidth', 'binned_wlwidth %r, widths converted at the bin centre %r' % (None if rec['wlw'] is None else rec['wlw'].tolist(), want.tolist())))
            elif res['wlw'] and tol is not None:
                spec = np.array([float(frac(q)) for q in res['wlw']]) / A.U
                if not np.allclose(rec['wlw'], spec, rtol=max(tol, 1e-12), atol=0):
                    out.append(('wlwidth', 'binned_wlwidth %r, specification %r' % (rec['wlw'].tolist(), spec.tolist())))
            if rec['wlgrid'] is None or not np.allclose(rec['wlgrid'], 10000.0 / ref_c, rtol=1e-14, atol=0):
                out.append(('wlwidth', 'binned_wlgrid is not 10000 / the centres the binner was built on'))
        if not (_same(rec['native'][0], g['p']) and _same(rec['native'][1], g['f'])):
            out.append(('native', 'the native grid / spectrum of the output dictionary are not the arrays handed in'))
        if rec.get('ntau') is not None and not _same(rec['ntau'], g['tau']):
            out.append(('native', 'native_tau of the output dictionary is not the array handed in'))
    if not rec['args_untouched']:
        out.append(('native', 'the call modified the arrays it was given'))
    return out


def same_result(a, b):
    keys = ('grid', 'widths', 'val', 'tau', 'err', 'wlw')
    bad = [k for k in keys if not _same(a.get(k), b.get(k))]
    if a.get('native') is not None or b.get('native') is not None:
        if a.get('native') is None or b.get('native') is None or not all(_same(x, y) for x, y in zip(a['native'], b['native'])):
            bad.append('native')
    return bad


def replay(A, kind, make, walks, ref=None, tol=1e-12, store=None, with_fresh=True, store_last_only=False):
    """Replay every sequence on ONE binner made by make(); each call is also made on a fresh make().
    ref: function -> (centres, widths) the binner was built with; default: the alphabet's.
    store: see call(); store_last_only: only the output dictionary of the last call of a sequence goes through it.
    Yields (walk, problems) with problems = [(step, tag, detail)]."""
    for w in walks:
        ops = w['ops']
        b = make()
        rc, rw = ref() if ref is not None else (A.c, A.w)
        problems = []
        for j, op in enumerate(ops):
            try:
                rec = call(b, A, op, store=store if (not store_last_only or j == len(ops) - 1) else None)
            except Machinery:
                raise
            except Exception as ex:
                problems.append((j, 'raised', '%s: %s' % (type(ex).__name__, ex)))
                break
            for tag, detail in judge(A, kind, op, rec, rc, rw, tol):
                problems.append((j, tag, detail))
            if with_fresh:
                try:
                    other = call(make(), A, op)
                    diff = same_result(rec, other)
                except Exception as ex:
                    diff = ['fresh binner raised %s' % type(ex).__name__]
                if diff:
                    problems.append((j, 'fresh', 'differs from what a freshly built binner returns in %s' % ', '.join(diff)))
        yield w, problems


def failure_class(A, kind, ops, j):
    prior_output = any(o['k'] == 'output' for o in ops[:j])
    return 'history:%s:%s:%s%s' % (kind, opname(ops[j]), A.relation(ops, j), '+after-output' if prior_output else '')


# ---------------------------------------------------------------------------- canary: harness-owned mutants of the real FluxBinner
def _mid_widths(wn):
    d = np.diff(wn) / 2
    edges = np.concatenate([[wn[0] - d[0]], wn[:-1] + d, [wn[-1] + d[-1]]])
    return np.abs(np.diff(edges))


def mutant_doubles():
    """Doubles that realise the design mutants of BinnerHistory on top of the REAL FluxBinner (the harness's own
    wrong binners): the replay must flag exactly the sequences TLC says expose them."""
    from taurex.binning import FluxBinner

    def memo_double(keyf):
        class Memo(FluxBinner):
            def __init__(self, *a, **k):
                super().__init__(*a, **k)
                self._vf_memo = None

            def bindown(self, wngrid, spectrum, grid_width=None, error=None):
                if grid_width is None:
                    key = keyf(wngrid)
                    if self._vf_memo is None or self._vf_memo[0] != key:
                        self._vf_memo = (key, _mid_widths(np.sort(wngrid)))
                    grid_width = self._vf_memo[1]
                return super().bindown(wngrid, spectrum, grid_width=grid_width, error=error)
        return Memo

    class InPlace(FluxBinner):
        def generate_spectrum_output(self, model_output, output_size=None):
            from taurex import OutputSize
            out = super().generate_spectrum_output(model_output, output_size=OutputSize.heavy if output_size is None else output_size)
            out['binned_wnwidth'][...] = 2.0 * InPlace.unit        # the dictionary aliases the binner's own widths
            return out
    return dict(length=memo_double(lambda g: len(g)), ends=memo_double(lambda g: (len(g), float(np.min(g)), float(np.max(g)))), inplace=InPlace)


def canary(A, walks, limit=400):
    """The replay of the harness's own mutants fails exactly on the sequences the specification says expose them."""
    doubles = mutant_doubles()
    doubles['inplace'].unit = A.U
    sample = [w for w in walks if w['src'] == 'walk'] + [w for i, w in enumerate(w for w in walks if w['src'] == 'pair') if i % 3 == 0]
    sample = sample[:limit] if limit else sample
    for name, klass in doubles.items():
        hits = 0
        for w, problems in replay(A, 'flux', lambda: klass(np.array(A.tc), np.array(A.tw)), sample, with_fresh=False):
            predicted = name in w['flux']
            if bool(problems) != predicted:
                raise Machinery('canary: the %s mutant of FluxBinner %s on %s although the specification says it %s' % (
                    name, 'fails' if problems else 'passes', trail(w['ops']), 'is exposed' if predicted else 'is not exposed'))
            hits += predicted
        if hits < 5:
            raise Machinery('canary: only %d sampled sequences expose the %s mutant' % (hits, name))
    return len(sample)
