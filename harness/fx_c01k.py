"""C01 fixtures, round 4: the correlated-k opacity family and the per-component public routes.

 * KMode: switches the process to opacity_method='ktables' on a temporary ktable_path that holds
   provisional pickle tables (the chemistry decides from the files of that path which gases are active)
   and back; the tables actually used are in-memory LayerKTable objects added to KTableCache through its
   public add_opacity().
 * LayerKTable: a KTable whose coefficients k[wn, g] are an exact function of the layer (T, P).
 * GridTableContribution: a contribution with a given sigma[layer, native wn] that serves whatever clipped
   grid the model asks for (and, like the library's own contributions, records the grid size it was
   prepared on in prepare_each).
 * the documented formula for a k-distributed absorber (kd_cell) and the accumulation with the licensed
   early exit over a list that may contain one (tau_layers_x).  Both are calibrated against TLC by the
   driver (MC_TransK vectors / MC_Transmission "acc" vectors) before they are used with exp()/log().
Nothing here calls the code under test to produce an expected value."""
import atexit
import math
import os
import shutil
import tempfile
from fractions import Fraction

import numpy as np

from taurex.contributions import Contribution
from taurex.opacity import Opacity
from taurex.opacity.ktables.ktable import KTable


# ----------------------------------------------------------------------------
# opacity mode
# ----------------------------------------------------------------------------

class _KMode:
    def __init__(self):
        self.dir = None
        self.saved = None

    def _ensure_dir(self, gases, wn):
        from .fx_emission import write_pickle_ktable
        if self.dir is None:
            self.dir = tempfile.mkdtemp(prefix='verif_c01k_')
            atexit.register(self.cleanup)
            for g in gases:
                write_pickle_ktable(self.dir, g, wn, [50.0, 20000.0], [1.0, 2.0],
                                    np.zeros((2, 2, len(wn), 2)), [0.5, 0.5])
        return self.dir

    def enable(self, gases, wn):
        from taurex.cache import GlobalCache
        from taurex.cache.ktablecache import KTableCache
        gc = GlobalCache()
        if self.saved is None:
            self.saved = (gc['opacity_method'], gc['ktable_path'])
        gc['ktable_path'] = self._ensure_dir(gases, wn)
        gc['opacity_method'] = 'ktables'
        KTableCache().clear_cache()

    def disable(self):
        from taurex.cache import GlobalCache
        from taurex.cache.ktablecache import KTableCache
        if self.saved is None:
            return
        gc = GlobalCache()
        for key, val in zip(('opacity_method', 'ktable_path'), self.saved):
            if val is None:
                gc.variable_dict.pop(key, None)
            else:
                gc[key] = val
        self.saved = None
        KTableCache().clear_cache()

    def cleanup(self):
        if self.dir is not None:
            shutil.rmtree(self.dir, ignore_errors=True)
            self.dir = None


KMODE = _KMode()


class LayerKTable(KTable, Opacity):
    """k-table returning exact per-layer coefficients k[wn, g] = by(T, P) (no interpolation)."""

    def __init__(self, name, wn, by, weights):
        Opacity.__init__(self, 'LayerKTable:' + name)
        self._name = name
        self._wn = np.asarray(wn, dtype=float)
        self._by = by
        self._w = np.asarray(weights, dtype=float)

    moleculeName = property(lambda s: s._name)
    wavenumberGrid = property(lambda s: s._wn)
    temperatureGrid = property(lambda s: np.array([1.0, 1e5]))
    pressureGrid = property(lambda s: np.array([1e-20, 1e20]))
    weights = property(lambda s: s._w)
    resolution = property(lambda s: 100)

    def compute_opacity(self, temperature, pressure, wngrid=None):
        v = np.asarray(self._by(temperature, pressure), dtype=float)
        if wngrid is None:
            return v
        return v[wngrid]


def quadrature(ng, kind):
    """-> (abscissae in (0,1), weights summing to 1).  kind 'gauss': Gauss-Legendre on [0,1];
    'dyadic': unequal dyadic weights (exactly representable)."""
    if kind == 'gauss':
        x, w = np.polynomial.legendre.leggauss(ng)
        return ((x + 1.0) / 2.0).tolist(), (w / 2.0).tolist()
    w = [2.0 ** -(i + 1) for i in range(ng)]
    w[-1] *= 2.0
    x = np.cumsum([0.0] + w[:-1]) + np.array(w) / 2.0
    return x.tolist(), w


class GridTableContribution(Contribution):
    """sigma[layer, native wn] given; serves any clipped grid made of native points."""

    def __init__(self, name, wn, sigma):
        super().__init__(name)
        self._wn = np.asarray(wn, dtype=float)
        self._sig = np.asarray(sigma, dtype=float)

    def prepare_each(self, model, wngrid):
        idx = np.searchsorted(self._wn, np.asarray(wngrid, dtype=float))
        self._ngrid = wngrid.shape[0]
        self._nlayers = model.nLayers
        sig = np.ascontiguousarray(self._sig[:, idx])
        self.sigma_xsec = sig
        yield self._name, sig

    @classmethod
    def input_keywords(cls):
        return ['verifgridtable']


# ----------------------------------------------------------------------------
# the documented formula with a k-distributed absorber
# ----------------------------------------------------------------------------

class KD:
    """A k-distributed absorber: Ag[g][k][w] = coefficient x number density at quadrature point g,
    wts[g] the quadrature weights (sum 1)."""

    def __init__(self, Ag, wts):
        self.Ag = Ag
        self.wts = list(wts)


def kd_cell(Ag, wts, L, j, w, expf):
    """sum_g wts[g] * expf(sum_i Ag[g][j+i][w] * L[j][i]): the documented transmittance of the ray tangent
    in layer j at wavenumber w.  expf(t) is exp(-t) (or, in the calibration, exact bounds of 2^-t)."""
    s = 0
    for g in range(len(wts)):
        t = 0
        for i in range(len(L[j])):
            t = t + Ag[g][j + i][w] * L[j][i]
        s = s + wts[g] * expf(t)
    return s


def pow2_bounds(cap):
    lo = lambda t: Fraction(1, 2 ** t) if t <= cap else Fraction(0)           # noqa
    hi = lambda t: Fraction(1, 2 ** t) if t <= cap else Fraction(1, 2 ** cap)  # noqa
    return lo, hi


def _neg_exp(t):
    return math.exp(-t) if t < 1e300 else 0.0


def tau_layers_x(A, L, cut, zero=0.0):
    """fx_model.tau_layers for a list whose entries are tables A[c][k][w] or KD objects (a k-distributed
    absorber adds -log of its documented transmittance).  Returns (tau, tau_full, prefixes)."""
    nc = len(A)
    n = len(L)
    first = A[0] if nc else None
    nw = 0
    if nc:
        nw = len(first.Ag[0][0]) if isinstance(first, KD) else len(first[0])
    tau, full, prefixes = [], [], []
    for j in range(n):
        t = [zero] * nw
        f = [zero] * nw
        pre = [list(f)]
        broke = False
        for c in range(nc):
            if isinstance(A[c], KD):
                add = []
                for w in range(nw):
                    tr = kd_cell(A[c].Ag, A[c].wts, L, j, w, _neg_exp)
                    add.append(-math.log(tr) if tr > 0 else float('inf'))
            else:
                add = [zero] * nw
                for i in range(n - j):
                    k = j + i
                    for w in range(nw):
                        add[w] = add[w] + A[c][k][w] * L[j][i]
            if not broke and nw and min(t) > cut:
                broke = True
            if not broke:
                t = [t[w] + add[w] for w in range(nw)]
            f = [f[w] + add[w] for w in range(nw)]
            pre.append(list(f))
        tau.append(t)
        full.append(f)
        prefixes.append(pre)
    return tau, full, prefixes
