"""C09 -- the FORM of MultiNest's output (binding of spec/NestOutput.tla).

The specification exports scenarios (tag SCN): how the run was configured (search_multi_modes, importance_sampling,
multinest_prefix), how many modes it separated and how many samples each mode holds, where the per-mode statistics
come from ("modes": the analyser's per-mode tables; "global": the analyser reports no modes and the wrapper parses the
global tables of <prefix>stats.dat itself), whether a mode's sample of greatest likelihood is apart from its samples of
greatest weight, and the solution numbers get_solution() yields.

This module turns sample sets into the mode dictionaries harness/doubles/pymultinest.write_outputs understands and
writes the second layout of <prefix>stats.dat, the one of a run WITHOUT mode separation:

    Nested Sampling Global Log-Evidence           :   v  +/-  e
    Nested Importance Sampling Global Log-Evidence:   v  +/-  e        (importance sampling; otherwise a blank line)
    Dim No.       Mean        Sigma
       1  ..  ..
    <blank>
    Dim No.        Parameter                                           (point of greatest likelihood)
       1  ..
    <blank>
    Dim No.        Parameter                                           (MAP = sample of greatest weight)
       1  ..

(no "Total Modes Found" / "Mode n" blocks: the transcription of PyMultiNest's Analyzer in the double splits on the
two blank lines in front of every mode block, finds none and reports modes = []).  As for the first layout the trusted
base is "the layout the wrapper reads back"; real MultiNest is not installed.
"""
import numpy as np


def loglikes(weights, apart, k):
    """Distinct log-likelihoods for the samples of one mode.  apart: the sample of greatest likelihood is NOT a sample
    of greatest weight (whenever the mode has such a sample) -- the normal situation of a nested-sampling run, where
    the likelihood still rises while the prior volume, and with it the weight, shrinks; otherwise it is one of them."""
    w = np.asarray(weights, dtype=float)
    n = len(w)
    top = [i for i in range(n) if w[i] == w.max()]
    rest = [i for i in range(n) if w[i] != w.max()]
    pool = rest if (apart and rest) else top
    ml = pool[k % len(pool)]
    return [-10.0 - 0.37 * ((i - ml) % n) for i in range(n)], ml


def mode_dict(samples, weights, apart=True, k=0, logz=(-20.5, 0.25)):
    """One mode for pymultinest.write_outputs: statistics as MultiNest computes them -- mean = weighted mean,
    maxlike = the sample of greatest likelihood, map = the (first) sample of greatest weight; sigma distinct per
    dimension and different from every other table."""
    samples = np.asarray(samples, dtype=float)
    weights = np.asarray(weights, dtype=float)
    n, d = samples.shape
    ll, ml = loglikes(weights, apart, k)
    mean = (weights[:, None] * samples).sum(axis=0) / weights.sum()
    j = int(np.argmax(weights))
    return dict(samples=samples, weights=weights, loglike=ll, mean=list(mean), sigma=[0.1 * (q + 1) for q in range(d)],
                maxlike=list(samples[ml]), map=list(samples[j]), logz=logz, ml_index=ml, map_index=j)


def _fmt(v):
    return '%26.18E' % float(v)


def write_global_stats(basename, mode, ins, logz=(-20.5, 0.25)):
    """Replace <base>stats.dat by the layout of a run without mode separation (see the module docstring)."""
    with open(basename + 'stats.dat', 'w') as f:
        f.write('Nested Sampling Global Log-Evidence           :   %s  +/-  %s\n' % (_fmt(logz[0]), _fmt(logz[1])))
        if ins:
            f.write('Nested Importance Sampling Global Log-Evidence:   %s  +/-  %s\n' % (_fmt(logz[0] + 0.125), _fmt(logz[1] / 2)))
        else:
            f.write('\n')
        f.write('Dim No.       Mean        Sigma\n')
        for j, (a, b) in enumerate(zip(mode['mean'], mode['sigma'])):
            f.write('%4d%s%s\n' % (j + 1, _fmt(a), _fmt(b)))
        f.write('\n')
        f.write('Dim No.        Parameter\n')
        for j, a in enumerate(mode['maxlike']):
            f.write('%4d%s\n' % (j + 1, _fmt(a)))
        f.write('\n')
        f.write('Dim No.        Parameter\n')
        for j, a in enumerate(mode['map']):
            f.write('%4d%s\n' % (j + 1, _fmt(a)))


def config_key(scn):
    return (bool(scn['smm']), bool(scn['ins']), scn['route'], scn['pfx'])


def config_tag(cfgkey):
    smm, ins, route, pfx = cfgkey
    return 'stats=%s:separation=%s%s%s' % (route, 'on' if (smm and not ins) else 'off', ':importance-sampling' if ins else '',
                                          '' if pfx == '1-' else ':prefix=' + pfx)
