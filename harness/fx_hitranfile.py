"""C14: HITRAN collision-induced-absorption text written block by block in the record layout the specification chose
(spec/HitranCia.tla: Layouts, DataFields, HeadFields).

The HITRAN CIA format (Richard et al. 2012, Karman et al. 2019): a block starts with a 100-character header of fixed-width
fields -- chemical symbol (20), minimum and maximum wavenumber (10 + 10), number of points (7), temperature (7), maximum
coefficient (10), resolution (6), comment (27), reference number (3) -- followed by one data line per point holding the
wavenumber, the coefficient (cm^5 molecule^-2) and, in the sets that carry one, a third column with the uncertainty of
the coefficient.  Layouts:

    'k'          short header (one-word comment, no reference), data lines  wavenumber coefficient
    'k+err'      short header, data lines  wavenumber coefficient uncertainty
    'ref:k'      full 100-character header (comment of several words, reference number), two data columns
    'ref:k+err'  full header, three data columns
"""
import os

import numpy as np

LAYOUTS = ('k', 'k+err', 'ref:k', 'ref:k+err')


def _f(x):
    if isinstance(x, (tuple, list)):
        return float(x[0]) / float(x[1])
    return float(x)


def write_hitran_blocks(directory, pair, blocks, scale=(10000000000, 1), suffix='_2011'):
    """blocks = [(T, wn_array, sigma_si_array, err_si_array or None, layout)], written in the order given.
    Values are stored in cm^5 molecule^-2 = SI value * scale with %10.3E.  err must be given for the '+err' layouts."""
    fn = os.path.join(directory, pair + suffix + '.cia')
    s = _f(scale)
    with open(fn, 'w') as f:
        for i, (T, wn, sig, err, layout) in enumerate(blocks):
            if layout not in LAYOUTS:
                raise ValueError('unknown HITRAN record layout %r' % (layout,))
            wn = np.asarray(wn, dtype=float)
            v = np.asarray(sig, dtype=float) * s
            if layout.startswith('ref:'):
                f.write('%20s%10.3f%10.3f%7d%7.1f%10.3E%6s%27s%3d\n' % (pair, wn.min(), wn.max(), len(wn), T, v.max(), '-.999',
                                                                        'verif band set %d' % (i + 1), 1 + i % 9))
            else:
                f.write('%20s%10.3f%10.3f%7d%7.1f%10.3E %5s %s\n' % (pair, wn.min(), wn.max(), len(wn), T, v.max(), '-.999', 'verif'))
            if layout.endswith('+err'):
                e = np.asarray(err, dtype=float) * s
                for a, b, c in zip(wn, v, e):
                    f.write('%10.4f %10.3E %10.3E\n' % (a, b, c))
            else:
                for a, b in zip(wn, v):
                    f.write('%10.4f %10.3E\n' % (a, b))
    return fn
