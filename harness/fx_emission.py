"""Fixtures shared by the C02 / C20 drivers: an independent Planck evaluation, exact evaluation of the
term lists exported by TLC (spec/Dyad.tla), model builders with exact per-layer opacities, pickle
k-table writers and global-cache hygiene.  Nothing here imports the functions under test to compute
an expected value."""
import math
import os
import pickle
import shutil
import tempfile
from fractions import Fraction

import numpy as np

LN2 = math.log(2.0)

# CODATA 2018 (exact SI definitions) -- independent of taurex.constants
H_PLANCK = 6.62607015e-34
C_LIGHT = 299792458.0
K_BOLTZ = 1.380649e-23
PARSEC_M = 3.08567758e16      # the conversion the documentation of Star.distance uses


def planck_flux(wn, temp):
    """pi * B_lambda(T) in W/m^2/micron at wavenumber wn (cm^-1): plain-Python evaluation of the
    documented black-body formula (the repository's numba kernel is NOT used)."""
    wl = 10000.0 * 1e-6 / float(wn)          # metres
    x = (H_PLANCK * C_LIGHT) / (wl * K_BOLTZ * float(temp))
    return math.pi * (2.0 * H_PLANCK * C_LIGHT ** 2) / wl ** 5 / math.expm1(x) * 1e-6


def planck_b(wn, temp):
    return planck_flux(wn, temp) / math.pi


# ----------------------------------------------------------------------------
# exact evaluation of Dyad / B-sum term lists
# ----------------------------------------------------------------------------

def dyad_value(terms):
    """[[n, d, k], ...] -> Fraction  sum n/d * 2^-k."""
    s = Fraction(0)
    for t in terms:
        s += Fraction(int(t[0]), int(t[1])) / (1 << int(t[2]))
    return s


def bsum_float(terms, bcol):
    """[[n, d, k, t], ...] with table column bcol[t] (floats, 1-based t; t = 0 -> 1.0).
    The rational coefficient of every table entry is accumulated exactly, then one float dot product."""
    coef = {}
    for n, d, k, t in terms:
        coef[t] = coef.get(t, Fraction(0)) + Fraction(int(n), int(d)) / (1 << int(k))
    tot = 0.0
    scale = 0.0
    for t, c in coef.items():
        b = 1.0 if t == 0 else bcol[t]
        tot += float(c) * b
        scale += abs(float(c) * b)
    return tot, scale


# ----------------------------------------------------------------------------
# global state hygiene
# ----------------------------------------------------------------------------

_SAVED = {}


def reset_all():
    """Opacity / CIA / k-table caches emptied, opacity_method back to cross-sections."""
    from taurex.cache import OpacityCache, CIACache, GlobalCache
    from taurex.cache.ktablecache import KTableCache
    gc = GlobalCache()
    for key in ('opacity_method', 'ktable_path', 'xsec_interpolation', 'xsec_path', 'cia_path'):
        gc.variable_dict.pop(key, None)
    OpacityCache().clear_cache()
    CIACache().cia_dict = {}
    KTableCache().clear_cache()


def set_mode(mode, ktable_path=None):
    from taurex.cache import GlobalCache
    from taurex.cache.ktablecache import KTableCache
    gc = GlobalCache()
    if ktable_path is not None:
        gc['ktable_path'] = ktable_path
    gc['opacity_method'] = mode
    KTableCache().clear_cache()


class TempDir:
    def __enter__(self):
        self.path = tempfile.mkdtemp(prefix='verif_kt_')
        return self.path

    def __exit__(self, *a):
        shutil.rmtree(self.path, ignore_errors=True)


def write_pickle_ktable(path, name, wn, temps, press_pa, kcoeff_cm2, weights):
    """kcoeff[P, T, wn, g] in cm^2 (PickleKTable layout), pressures stored in bar."""
    d = dict(bin_centers=np.asarray(wn, dtype=float), ngauss=len(weights),
             t=np.asarray(temps, dtype=float), p=np.asarray(press_pa, dtype=float) / 1e5,
             kcoeff=np.asarray(kcoeff_cm2, dtype=float), weights=np.asarray(weights, dtype=float),
             name=name)
    fn = os.path.join(path, '%s.R100.pickle' % name)
    with open(fn, 'wb') as f:
        pickle.dump(d, f)
    return fn


# ----------------------------------------------------------------------------
# contributions / models
# ----------------------------------------------------------------------------

def layer_contribution_class():
    from taurex.contributions import Contribution

    class LayerContribution(Contribution):
        """A non-molecular contribution with a given sigma[layer, wn] (m^2 per unit density):
        exercises the base-class kernel and the 'non_molecule_absorption' branch."""

        def __init__(self, name='LayerGrey'):
            super().__init__(name)
            self.table = None

        def build(self, model):
            pass

        def prepare_each(self, model, wngrid):
            self._nlayers = model.nLayers
            self._ngrid = wngrid.shape[0]
            sig = np.array(self.table, dtype=float)
            self.sigma_xsec = sig
            yield 'grey', sig

    return LayerContribution


class Atmos:
    """One built model (emission / direct image / transmission) over fixed T-profile with a
    mutable per-layer opacity table for molecule `mol`."""

    def __init__(self, kind, temps, wn, *, nlayers=None, pmin=1e2, pmax=1e5, mol='H2O', mix=1e-3,
                 star_T=5000.0, rp_over_rs=None, rp_over_d=None, planet_radius=1.0, planet_mass=1.0,
                 ngauss=4, with_grey=False, register=True, star_radius=1.0, distance=1.0, absorption=None,
                 opacity=None):
        from taurex.cache import OpacityCache
        from taurex.model import EmissionModel, DirectImageModel, TransmissionModel
        from taurex.chemistry import TaurexChemistry, ConstantGas
        from taurex.data.profiles.temperature.temparray import TemperatureArray
        from taurex.contributions import AbsorptionContribution
        from taurex.planet import Planet
        from taurex.stellar import BlackbodyStar
        from taurex.constants import RJUP, RSOL
        from .fixtures import LayerOpacity
        self.kind = kind
        self.ngauss = ngauss
        self.wn = np.asarray(wn, dtype=float)
        self.temps = [float(t) for t in temps]
        n = nlayers or len(temps)
        self.n = n
        self.table = {}
        self.mol = mol
        if opacity is not None:
            OpacityCache().add_opacity(opacity)
        elif register:
            op = LayerOpacity(mol, self.wn, self._lookup)
            OpacityCache().add_opacity(op)
        chem = TaurexChemistry(fill_gases=['H2', 'He'], ratio=0.17)
        chem.addGas(ConstantGas(mol, mix))
        rp_m = planet_radius * RJUP
        if rp_over_rs is not None:
            star_radius = rp_m / float(rp_over_rs) / RSOL
        if rp_over_d is not None:
            distance = rp_m / float(rp_over_d) / PARSEC_M
        self.star_T = star_T
        planet = Planet(planet_mass=planet_mass, planet_radius=planet_radius)
        star = BlackbodyStar(temperature=star_T, radius=star_radius, distance=distance)
        kw = dict(planet=planet, star=star, chemistry=chem, temperature_profile=TemperatureArray(tp_array=self.temps),
                  nlayers=n, atm_min_pressure=pmin, atm_max_pressure=pmax)
        if kind == 'emission':
            m = EmissionModel(ngauss=ngauss, **kw)
        elif kind == 'direct':
            m = DirectImageModel(ngauss=ngauss, **kw)
        else:
            m = TransmissionModel(**kw)
        self.absorption = absorption if absorption is not None else AbsorptionContribution()
        m.add_contribution(self.absorption)
        self.grey = None
        if with_grey:
            self.grey = layer_contribution_class()()
            self.grey.table = np.zeros((n, len(self.wn)))
            m.add_contribution(self.grey)
        m.build()
        self.model = m
        self.chem = chem
        self.mixprof = np.array(chem.get_gas_mix_profile(mol), dtype=float)
        self.rp_m = rp_m
        self.rs_m = star_radius * RSOL
        self.d_m = distance * PARSEC_M

    def _lookup(self, T, P):
        k = min(self.table, key=lambda p: abs(math.log(p / P)))
        return self.table[k]

    def column_unit(self):
        """dz * density per layer as the model documents them (deltaz, densityProfile)."""
        m = self.model
        return np.asarray(m.deltaz, dtype=float) * np.asarray(m.densityProfile, dtype=float)

    def set_layer_tau(self, e_ln2):
        """e_ln2[l][w]: vertical optical depth of layer l in units of ln 2 -> per-layer cross-sections."""
        cu = self.column_unit()
        pp = np.asarray(self.model.pressureProfile, dtype=float)
        self.table = {}
        for l in range(self.n):
            self.table[float(pp[l])] = np.asarray(e_ln2[l], dtype=float) * LN2 / (cu[l] * self.mixprof[l])

    def sigma_for(self, e_ln2):
        cu = self.column_unit()
        return np.array([np.asarray(e_ln2[l], dtype=float) * LN2 / (cu[l] * self.mixprof[l]) for l in range(self.n)])

    def set_grey_tau(self, c_ln2):
        cu = self.column_unit()
        self.grey.table = np.array([np.asarray(c_ln2[l], dtype=float) * LN2 / cu[l] for l in range(self.n)])


def raw_quadrature(quad):
    """spec quadrature [[invmu, [n, d]], ...] -> arguments of set_quadratures (mu = (raw+1)/2, w = raw/2)."""
    mu_raw = np.array([2.0 / float(q[0]) - 1.0 for q in quad])
    w_raw = np.array([2.0 * float(Fraction(int(q[1][0]), int(q[1][1]))) for q in quad])
    return mu_raw, w_raw


def ktable_arrays(press_layers, sigma_m2, ngauss):
    """Per-layer coefficients sigma[l][w][g] (m^2) -> PickleKTable arrays on the pressure grid made of the
    layer pressures (ascending) and a two-node temperature grid carrying the same values."""
    pp = np.asarray(press_layers, dtype=float)
    order = np.argsort(pp)
    sig = np.asarray(sigma_m2, dtype=float)            # [l, w, g]
    k = np.zeros((len(pp), 2, sig.shape[1], ngauss))
    for row, l in enumerate(order):
        k[row, 0] = sig[l] * 1e4
        k[row, 1] = sig[l] * 1e4
    return pp[order], np.array([50.0, 20000.0]), k
