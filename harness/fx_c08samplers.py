"""Fixture for C08 (round 5): the callable a SAMPLER is handed (spec/MC_PriorDelivery.tla: via).

Every sampler wrapper of taurex.optimizer builds its own unit-cube -> parameter callable inside compute_fit and
hands it to its sampler package:

   nestle       nestle.sample(loglike, prior, ndim, ..)             prior(theta ndarray) -> sequence
   multinest    pymultinest.run(LogLikelihood=, Prior=, n_dims=)    Prior(ctypes cube, ndim, nparams) in place
   polychord    pypolychord.run_polychord(loglike, nDims, nDerived, settings, prior)   prior(ndarray) -> sequence
   dypolychord  dyPolyChord.pypolychord_utils.RunPyPolyChord(likelihood, prior, ndim)  prior(ndarray) -> sequence

pymultinest / pypolychord are the recording doubles of harness/doubles (not installed here); dyPolyChord gets a
stand-in module that records the callable.  Nothing is sampled: compute_fit is interrupted as soon as the callable
is in hand.  Nothing here decides anything: `capture` returns cube_map(us) -> list of floats.
"""
import importlib
import sys
import types

import numpy as np

from .core import Machinery
from . import fx_retrieval as fx
from . import fx_priors as fxp

VIAS = ('nestle', 'multinest', 'polychord', 'dypolychord')
_DY = {}


def _dy_standin():
    """A stand-in for the dyPolyChord package: RunPyPolyChord keeps the callables, run_dypolychord hands them over."""
    if 'dyPolyChord' in sys.modules:
        mod = sys.modules['dyPolyChord']
        if not getattr(mod, '__verif_standin__', False):
            raise Machinery('expected the stand-in of dyPolyChord, found a real package')
        return mod
    mod = types.ModuleType('dyPolyChord')
    mod.__verif_standin__ = True
    mod.__path__ = []
    utils = types.ModuleType('dyPolyChord.pypolychord_utils')

    class RunPyPolyChord(object):
        def __init__(self, likelihood, prior, ndim, nderived=0):
            self.likelihood, self.prior, self.ndim = likelihood, prior, ndim

    utils.RunPyPolyChord = RunPyPolyChord

    def run_dypolychord(run_polychord, dynamic_goal, settings_dict_in, **kw):
        _DY['call'] = dict(prior=run_polychord.prior, likelihood=run_polychord.likelihood, ndim=run_polychord.ndim)
        raise fx.Captured()

    mod.run_dypolychord = run_dypolychord
    mod.pypolychord_utils = utils
    sys.modules['dyPolyChord'] = mod
    sys.modules['dyPolyChord.pypolychord_utils'] = utils
    for sub in ('python_likelihoods', 'python_priors'):
        m = types.ModuleType('dyPolyChord.' + sub)
        setattr(mod, sub, m)
        sys.modules['dyPolyChord.' + sub] = m
    return mod


def optimizer_class(via):
    fx._load_double('pymultinest')
    fx._load_double('pypolychord')
    _dy_standin()
    name = {'nestle': ('nestle', 'NestleOptimizer'), 'multinest': ('multinest', 'MultiNestOptimizer'),
            'polychord': ('polychord', 'PolyChordOptimizer'), 'dypolychord': ('dypolychord', 'dyPolyChordOptimizer')}[via]
    return getattr(importlib.import_module('taurex.optimizer.' + name[0]), name[1])


def fresh_owners(via, tmpdir):
    """As fx_priors.fresh_owners, the optimizer being the sampler wrapper `via`."""
    import logging
    logging.disable(logging.CRITICAL)
    c = fxp._classes()
    owners = {'model': c['model'](), 'observation': c['recobs']()}
    K = optimizer_class(via)
    kw = dict(observed=owners['observation'], model=owners['model'])
    if via == 'nestle':
        opt = K(num_live_points=5, **kw)
    elif via == 'multinest':
        opt = K(multi_nest_path=tmpdir, num_live_points=5, **kw)
    else:
        opt = K(polychord_path=tmpdir, **kw)
    return opt, owners


def capture(via, opt):
    """cube_map(us) -> [float, ..]: the wrapper's own callable, called the way its sampler calls it."""
    import pymultinest
    import pypolychord
    cap = {}
    if via == 'nestle':
        def hook(loglike, prior, ndim, **kw):
            cap.update(pr=prior, ndim=ndim)
            raise fx.Captured()
        with fx.NestlePatch(hook):
            try:
                opt.compute_fit()
            except fx.Captured:
                pass
        if not cap:
            raise Machinery('nestle.sample was not called by compute_fit')
        return lambda us: [float(v) for v in cap['pr'](np.array(us, dtype=float))]
    if via == 'dypolychord':
        _DY.clear()
        try:
            opt.compute_fit()
        except fx.Captured:
            pass
        if not _DY:
            raise Machinery('dyPolyChord.run_dypolychord was not called by compute_fit')
        call = dict(_DY['call'])
        return lambda us: [float(v) for v in call['prior'](np.array(us, dtype=float))]
    mod = pymultinest if via == 'multinest' else pypolychord

    def hook(call):
        cap['call'] = call
        raise fx.Captured()
    mod.HOOK = hook
    try:
        opt.compute_fit()
    except fx.Captured:
        pass
    finally:
        mod.HOOK = None
    if not cap:
        raise Machinery('%s double was not called by compute_fit' % via)
    return lambda us: [float(v) for v in mod.call_prior(cap['call'], us)]
