"""Extraction of the documented input-file vocabulary from /repo/doc/source/user/taurex/*.rst.

    /venv/bin/python -m harness.fx_docs            rewrites harness/data/documented_keywords.json

The committed JSON table is what spec/Factory.tla is instantiated with (C15).  The extractor reads
only reStructuredText: selector lists ("The available ``profile_type`` are:"), inline selector
mentions (``profile_type = isothermal``), ``[[Contribution]]`` headers, and the grid tables that
follow a "Keywords" title (first column ``Variable``).  Tables under "Fitting Parameters" are not
input keys and are skipped.  A handful of facts that the documentation states in prose only are
listed in PROSE with the sentence they come from.
"""
import json
import os
import re

DOC_DIR = os.path.join(os.environ.get('TAUREX_REPO', '/repo'), 'doc', 'source', 'user', 'taurex')
OUT = os.path.join(os.path.dirname(os.path.abspath(__file__)), 'data', 'documented_keywords.json')

# file -> (section header in the input file, registry kind, selector key)
FILES = {
    'temperature.rst': ('Temperature', 'temperature', 'profile_type'),
    'pressure.rst': ('Pressure', 'pressure', 'profile_type'),
    'chemistry.rst': ('Chemistry', 'chemistry', 'chemistry_type'),
    'planet.rst': ('Planet', 'planet', 'planet_type'),
    'star.rst': ('Star', 'star', 'star_type'),
    'models.rst': ('Model', 'model', 'model_type'),
    'optimizer.rst': ('Optimizer', 'optimizer', 'optimizer'),
    'instrument.rst': ('Instrument', 'instrument', 'instrument'),
    'observation.rst': ('Observation', 'observation', None),
}
SELECTOR_KEYS = {'profile_type', 'chemistry_type', 'gas_type', 'planet_type', 'star_type', 'model_type',
                 'optimizer', 'instrument'}
SUBTITLES = {'keywords', 'fitting parameters', 'examples', 'example'}

# facts stated in prose only (quoted), added to the table with source="prose"
PROSE = [
    dict(file='models.rst', kind='model', selectors=['emission', 'directimage'], key='ngauss', type='int',
         quote='Both emission and direct image also include an optional keyword ``ngauss`` ... By default this is set to ``ngauss=4``'),
    dict(file='custom.rst', kind='*', selectors=['custom'], key='python_file', type='str',
         quote='When you change a type (i.e ``profile_type``, ``model_type`` etc.) to ``custom`` the new keyword ``python_file`` is available'),
    dict(file='mixins.rst', kind='chemistry', selectors=['makefree'], key=None, type=None, mixin=True,
         quote='``makefree`` Works under: ``[Chemistry]`` ... chemistry_type = makefree+file'),
    dict(file='fitting.rst', kind='prior', selectors=['Uniform', 'LogUniform', 'Gaussian', 'LogGaussian'], key=None, type=None,
         quote='"Uniform(bounds=(0.8, 5.0))", "LogUniform(bounds=(-12, -2))", "LogUniform(lin_bounds=(1e-12, 1e-2))", '
               '"Gaussian(mean=1.0,std=0.3)", "LogGaussian(mean=-4,std=2)", "LogGaussian(lin_mean=1e-4,std=2)"'),
]
PRIOR_ARGS = {'Uniform': ['bounds'], 'LogUniform': ['bounds', 'lin_bounds'], 'Gaussian': ['mean', 'std'],
              'LogGaussian': ['mean', 'std', 'lin_mean']}


def _is_underline(s):
    s = s.rstrip()
    return len(s) >= 3 and len(set(s)) == 1 and s[0] in '=-*~^"'


def _parse_table(lines, i):
    """Grid table starting at lines[i] ('+---+').  Returns (rows, next_index); cells are joined text."""
    rows, cur = [], None
    while i < len(lines) and lines[i].lstrip().startswith(('+', '|')):
        ln = lines[i].strip()
        if ln.startswith('+'):
            if cur is not None:
                rows.append([' '.join(c).strip() for c in cur])
            cur = None
        else:
            cells = [c.strip() for c in ln.strip('|').split('|')]
            if cur is None:
                cur = [[c] if c else [] for c in cells]
            else:
                for k, c in enumerate(cells):
                    if c and k < len(cur):
                        cur[k].append(c)
        i += 1
    return rows, i


def _doc_type(cell):
    m = re.findall(r':obj:`(\w+)`', cell)
    if m:
        return '|'.join(m)
    return cell.replace('`', '').strip() or None


def parse_file(name):
    section, kind, selkey = FILES[name]
    with open(os.path.join(DOC_DIR, name)) as f:
        lines = f.read().split('\n')
    comps = []            # dict(title, selectors{key: [names]}, classes{name: path}, keys[], contributions[])
    cur = dict(title='(top)', selectors={}, classes={}, keys=[], contributions=[], class_hint=None)
    comps.append(cur)
    mode = None
    list_key = None       # selector key of the list being read
    last_item = None
    i = 0
    while i < len(lines):
        ln = lines[i]
        if ln.startswith('..'):      # comments / directives (the commented-out Two Point section)
            i += 1
            continue
        nxt = lines[i + 1] if i + 1 < len(lines) else ''
        if ln.strip() and _is_underline(nxt) and not _is_underline(ln) and len(nxt.rstrip()) >= len(ln.rstrip()) - 2:
            title = ln.strip()
            if title.lower() in SUBTITLES:
                mode = title.lower()
            else:
                cur = dict(title=title, selectors={}, classes={}, keys=[], contributions=[], class_hint=None)
                comps.append(cur)
                mode = None
            list_key = None
            i += 2
            continue
        if ln.lstrip().startswith('+--') and not ln.startswith('    '):
            rows, j = _parse_table(lines, i)
            if rows and rows[0] and rows[0][0].lower() == 'variable' and (mode == 'keywords' or mode is None and name != 'binning.rst'):
                hdr = [h.lower() for h in rows[0]]
                for r in rows[1:]:
                    key = r[0].replace('`', '').strip()
                    typ = _doc_type(r[hdr.index('type')]) if 'type' in hdr else None
                    dflt = r[hdr.index('default')] if 'default' in hdr else (r[hdr.index('default value')] if 'default value' in hdr else None)
                    cur['keys'].append(dict(name=key, type=typ, default=(dflt or None) and dflt.replace('`', '').replace('*', '')))
            i = j
            continue
        m = re.search(r'``(\w+)``[^`]*(are|variable|keyword)\s*:?\s*$', ln) or re.search(r'``(\w+)``\s*:\s*$', ln)
        if m and m.group(1) in SELECTOR_KEYS:
            list_key = m.group(1)
        elif re.search(r'keyword:\s*$', ln) and i > 0:
            m2 = re.search(r'``(\w+)``\s*$', lines[i - 1])
            if m2 and m2.group(1) in SELECTOR_KEYS:
                list_key = m2.group(1)
        m = re.match(r'^ {4}- ``([^`]+)``\s*$', ln)
        if m and list_key:
            last_item = m.group(1)
            cur['selectors'].setdefault(list_key, [])
            if last_item not in cur['selectors'][list_key]:
                cur['selectors'][list_key].append(last_item)
        elif last_item and ':class:' in ln and ln.startswith('     '):
            mc = re.search(r':class:`~?([\w.]+)`', ln)
            if mc:
                cur['classes'][last_item] = mc.group(1)
        elif ln.strip() and not ln.startswith(' '):
            last_item = None
        if ln.startswith(':Class:'):
            mc = re.search(r':class:`~?([\w.]+)`', ln)
            if mc:
                cur['class_hint'] = mc.group(1)
        if not ln.startswith('    '):           # inline mentions outside literal blocks
            for k, v in re.findall(r'``(\w+)\s*=\s*([\w-]+)``', ln):
                if k in SELECTOR_KEYS:
                    cur['selectors'].setdefault(k, [])
                    if v not in cur['selectors'][k]:
                        cur['selectors'][k].append(v)
            for c in re.findall(r'``\[\[(\w+)\]\]``', ln):
                if c not in cur['contributions']:
                    cur['contributions'].append(c)
        i += 1
    return section, kind, selkey, comps


def extract():
    table = dict(source='doc/source/user/taurex/*.rst', entries=[], prose=PROSE, prior_args=PRIOR_ARGS)
    for name in sorted(FILES):
        section, kind, selkey, comps = parse_file(name)
        for c in comps:
            if name == 'observation.rst':
                for k in c['keys']:
                    table['entries'].append(dict(file=name, section=section, kind='observation', selector_key=None,
                                                 title=c['title'], selectors=[k['name']], doc_class=None, keys=[],
                                                 selects_by='key'))
                continue
            for key, names in c['selectors'].items():
                k2 = 'gas' if key == 'gas_type' else kind
                sec2 = 'Chemistry/<molecule>' if key == 'gas_type' else section
                listed = [n for n in names if n in c['classes']]
                rest = [n for n in names if n not in c['classes'] and n != 'custom']
                if 'custom' in names:
                    table['entries'].append(dict(file=name, section=sec2, kind=k2, selector_key=key, title=c['title'],
                                                 selectors=['custom'], doc_class=None, keys=[], selects_by='value'))
                for n in listed:
                    table['entries'].append(dict(file=name, section=sec2, kind=k2, selector_key=key, title=c['title'],
                                                 selectors=[n], doc_class=c['classes'][n], keys=[], selects_by='value'))
                if rest:
                    table['entries'].append(dict(file=name, section=sec2, kind=k2, selector_key=key, title=c['title'],
                                                 selectors=rest, doc_class=c['class_hint'], keys=c['keys'], selects_by='value'))
            if c['contributions']:
                table['entries'].append(dict(file=name, section='Model/<contribution>', kind='contribution', selector_key=None,
                                             title=c['title'], selectors=c['contributions'], doc_class=None, keys=c['keys'],
                                             selects_by='subsection'))
    return table


def load():
    with open(OUT) as f:
        return json.load(f)


if __name__ == '__main__':
    t = extract()
    os.makedirs(os.path.dirname(OUT), exist_ok=True)
    with open(OUT, 'w') as f:
        json.dump(t, f, indent=1, sort_keys=True)
    for e in t['entries']:
        print('%-22s %-14s %-34s %s  keys=%s' % (e['section'], e['selector_key'], e['selectors'], e['doc_class'],
                                                   [k['name'] for k in e['keys']]))
