"""C15 support: the ParameterParser as a long-lived object (spec/FactoryParser.tla) and the presence of
sections in an input file (spec/FactorySect.tla; FactoryAsm family C).

History (binding C): TLC enumerates the walks -- generate_* calls in any order, the same call twice, the same
parser object reading another file -- with, for every step, the file whose FRESH parser the call must agree
with, the parser configuration expected afterwards (as read) and, for model calls, what the model constructor
must be handed for every optional section.  The walks are replayed on one real ParameterParser each.

Presence: every family-C file (any subset of [Temperature] [Pressure] [Chemistry] [Planet] [Star] left out x any
subset of the layer keys under [Model]) is parsed; the recorded model constructor call and the model's pressure
grid are compared with the specification and the model with the library-built one.
"""
import copy
import inspect
import json
import os

import numpy as np

from .core import Machinery, close
from . import fx_factory as FX

# two sets of values for the keys of spec/FactoryParser.tla (Keys); '@X' xsec directory, '@O' observation file
VALUES = {
    1: {'Global': {'xsec_path': '@X'},
        'Chemistry': {'chemistry_type': 'taurex', 'fill_gases': 'H2, He', 'ratio': '0.2', 'H2O/gas_type': 'constant',
                      'H2O/mix_ratio': '1e-4', 'CH4/gas_type': 'constant', 'CH4/mix_ratio': '1e-6'},
        'Temperature': {'profile_type': 'isothermal', 'T': '1100'},
        'Pressure': {'profile_type': 'simple', 'nlayers': '20', 'atm_min_pressure': '1e-1', 'atm_max_pressure': '1e6'},
        'Planet': {'planet_type': 'simple', 'planet_mass': '1.2', 'planet_radius': '0.9'},
        'Star': {'star_type': 'blackbody', 'temperature': '5500', 'radius': '0.8'},
        'Model': {'model_type': 'transmission', 'nlayers': '12', 'atm_min_pressure': '0.5', 'Absorption/': '',
                  'SimpleClouds/clouds_pressure': '1e3'},
        'Binning': {'bin_type': 'manual', 'wavenumber_grid': '500, 1900, 8', 'accurate': 'True'},
        'Instrument': {'instrument': 'snr', 'SNR': '20', 'num_observations': '9'},
        'Observation': {'observed_spectrum': '@O'},
        'Optimizer': {'optimizer': 'nestle', 'num_live_points': '50'},
        'Fitting': {'planet_radius:fit': 'True', 'planet_radius:bounds': '0.5, 3', 'planet_radius:mode': 'linear',
                    'T:fit': 'True', 'T:prior': '"Uniform(bounds=(800, 1500))"'},
        'Derive': {'mu:compute': 'True'}},
    2: {'Global': {'xsec_path': '@X'},
        'Chemistry': {'chemistry_type': 'free', 'fill_gases': 'H2, He', 'ratio': '0.3', 'H2O/gas_type': 'constant',
                      'H2O/mix_ratio': '2e-4', 'CH4/gas_type': 'constant', 'CH4/mix_ratio': '3e-6'},
        'Temperature': {'profile_type': 'isothermal', 'T': '900'},
        'Pressure': {'profile_type': 'simple', 'nlayers': '25', 'atm_min_pressure': '1e0', 'atm_max_pressure': '1e5'},
        'Planet': {'planet_type': 'simple', 'planet_mass': '0.8', 'planet_radius': '1.1'},
        'Star': {'star_type': 'blackbody', 'temperature': '4800', 'radius': '1.2'},
        'Model': {'model_type': 'emission', 'nlayers': '14', 'atm_min_pressure': '2', 'Absorption/': '',
                  'SimpleClouds/clouds_pressure': '5e2'},
        'Binning': {'bin_type': 'manual', 'wavenumber_grid': '600, 1800, 6', 'accurate': 'False'},
        'Instrument': {'instrument': 'SNR', 'SNR': '15', 'num_observations': '4'},
        'Observation': {'observed_spectrum': '@O'},
        'Optimizer': {'optimizer': 'nestle', 'num_live_points': '80'},
        'Fitting': {'planet_radius:fit': 'False', 'planet_radius:bounds': '0.6, 2', 'planet_radius:mode': 'log',
                    'T:fit': 'True', 'T:prior': '"Gaussian(mean=1000, std=50)"'},
        'Derive': {'mu:compute': 'False'}},
}
SECTION_ORDER = ['Global', 'Chemistry', 'Temperature', 'Pressure', 'Planet', 'Star', 'Model', 'Binning', 'Instrument',
                 'Observation', 'Optimizer', 'Fitting', 'Derive']
MODEL_CLASSES = ('TransmissionModel', 'EmissionModel', 'DirectImageModel')


def file_text(content, v, subst):
    """The input file with exactly the keys the specification lists for it (content: section -> key paths)."""
    L = []
    for s in SECTION_ORDER:
        if s not in content:
            continue
        L.append('[%s]' % s)
        keys = list(content[s])
        for k in [k for k in keys if '/' not in k]:
            L.append('%s = %s' % (k, subst(VALUES[v][s][k])))
        subs = []
        for k in keys:
            if '/' in k and k.split('/')[0] not in subs:
                subs.append(k.split('/')[0])
        for sub in subs:
            L.append('    [[%s]]' % sub)
            for k in keys:
                if k.startswith(sub + '/') and k != sub + '/':
                    L.append('    %s = %s' % (k.split('/')[1], subst(VALUES[v][s][k])))
    return '\n'.join(L) + '\n'


def flat(cfg):
    """section -> sorted key paths of a (nested) configuration dictionary, in the spelling of the specification"""
    out = {}
    for s, d in cfg.items():
        ks = []
        for k, val in d.items():
            if isinstance(val, dict):
                ks += ['%s/%s' % (k, k2) for k2 in val] or ['%s/' % k]
            else:
                ks.append(k)
        out[s] = sorted(ks)
    return out


def live_config(pp):
    """The parser's own configuration (a private copy, jsonable), or None if it cannot be read."""
    rc = getattr(pp, '_raw_config', None)
    if rc is None:
        return None
    return json.loads(json.dumps(rc.dict() if hasattr(rc, 'dict') else dict(rc), default=str))


def install_recorders():
    from taurex.parameter.classfactory import ClassFactory
    for k in ClassFactory().modelKlasses:
        if k.__name__ in MODEL_CLASSES:
            FX._wrap_init(k)


def digest(x):
    return json.dumps(FX.snapshot(x), sort_keys=True, default=str)


def call(pp, m):
    from taurex.binning import NativeBinner
    from taurex.cache import GlobalCache
    if m == 'globals':
        pp.setup_globals()
        return {k: GlobalCache()[k] for k in ('xsec_path',)}
    if m == 'instrument_binner':
        return pp.generate_instrument(binner=NativeBinner())
    name = {'temperature': 'generate_temperature_profile', 'pressure': 'generate_pressure_profile',
            'chemistry': 'generate_chemistry_profile', 'planet': 'generate_planet', 'star': 'generate_star',
            'model': 'generate_model', 'appropriate_model': 'generate_appropriate_model', 'binning': 'generate_binning',
            'instrument': 'generate_instrument', 'observation': 'generate_observation', 'optimizer': 'generate_optimizer',
            'fitting': 'generate_fitting_parameters', 'derived': 'generate_derived_parameters'}[m]
    return getattr(pp, name)()


def observed_call(pp, m):
    """-> (digest of the result or 'EXC:..', recorded model constructor call or None, the model or None)"""
    del FX._REC[:]
    try:
        res = call(pp, m)
        dig = digest(res)
    except BaseException as ex:      # quit() inside the library raises SystemExit
        return 'EXC:%s: %s' % (type(ex).__name__, str(ex)[:120]), None, None
    rec = [r for r in FX._REC if r[0] in MODEL_CLASSES]
    kw = {k: FX.jsonable(v) for k, v in rec[0][1].items()} if rec else None
    return dig, kw, res if rec else None


def model_defaults(model):
    sig = inspect.signature(type(model).__init__)
    return {k: p.default for k, p in sig.parameters.items() if p.default is not inspect._empty}


def judge_model_call(ctx, clsbase, args, layers, kw, model, layer_values, vec):
    """What the model constructor was handed for every optional section, and the pressure grid that results.
    args: section -> [kw, cls] ('' = nothing, the constructor default); layers: key -> source;
    layer_values(source, key) -> the number expected from that source (None: the constructor default)."""
    if kw is None:
        ctx.verdict('KeysReachCtor', False, cls=clsbase, detail='no forward-model constructor was called', vector=vec)
        return
    for s in sorted(args):
        a = args[s]
        got = kw.get(a['kw'])
        if a['cls'] == '':
            ctx.verdict('DefaultsOtherwise', got == ['none'], cls='%s:no%s' % (clsbase, s), detail='the file has no [%s] section: the model constructor must keep '
                        'its default %s=None (the model builds its own default from its own keys), it received %r' % (s, a['kw'], got), vector=vec)
        else:
            ctx.verdict('KeysReachCtor', got == ['obj', a['cls']], cls='%s:has%s' % (clsbase, s), detail='[%s] is written: the model constructor must receive a %s '
                        'as %s, it received %r' % (s, a['cls'], a['kw'], got), vector=vec)
    p = getattr(model, 'pressure', None)
    dflt = model_defaults(model)
    obs = dict(nlayers=getattr(p, 'nLayers', None), atm_min_pressure=getattr(p, 'minAtmospherePressure', None),
               atm_max_pressure=getattr(p, 'maxAtmospherePressure', None))
    for k in sorted(layers):
        want = layer_values(layers[k], k)
        if want is None:
            want = dflt.get(k)
        got = obs[k]
        ok = got is not None and want is not None and close(float(got), float(want), rel=1e-12)
        ctx.verdict('ModelLayerKeysEffective', ok, cls='%s:%s:%s' % (clsbase, k, layers[k]), detail='the pressure grid of the model built from the file has %s = %r; '
                    'specification: %r (%s)' % (k, got, want, layers[k]), vector=vec)


# ------------------------------------------------------------------------------------------ history
def run_history(ctx, walks, files, tmp, xdir, nsample, rng):
    from taurex.parameter import ParameterParser
    from taurex.cache import OpacityCache, GlobalCache
    install_recorders()
    # the process-wide caches hold what setup_globals() of every file sets (the same cross-section directory), so that a
    # `globals` step of a walk does not change what the other calls see
    OpacityCache().clear_cache()
    OpacityCache().set_opacity_path(xdir)
    GlobalCache()['xsec_path'] = xdir
    obsfile = os.path.join(tmp, 'hist_obs.dat')
    wl = np.linspace(5.5, 20.0, 10)
    np.savetxt(obsfile, np.column_stack([wl, np.full(10, 1e-2), np.full(10, 1e-4), np.full(10, 0.2)]))
    subst = lambda t: t.replace('@X', xdir).replace('@O', obsfile)
    fobj = {f['id']: f for f in files}
    paths, asread, text = {}, {}, {}
    for fid, f in fobj.items():
        f['content'] = {s: list(ks) for s, ks in f['content'].items()}
        paths[fid] = os.path.join(tmp, 'hist%d.par' % fid)
        text[fid] = file_text(f['content'], f['v'], subst)
        with open(paths[fid], 'w') as fh:
            fh.write(text[fid])
        pp = ParameterParser()
        pp.read(paths[fid])
        asread[fid] = live_config(pp)
        if asread[fid] is not None and flat(asread[fid]) != {s: sorted(ks) for s, ks in f['content'].items()}:
            raise Machinery('history file %d does not hold the keys of the specification: %s' % (fid, flat(asread[fid])))
    methods = sorted({s['m'] for w in walks for s in w['steps'] if s['op'] == 'gen'})
    # the reference: a fresh parser per (file, method), built twice (the reference itself must be a function of the file)
    fresh = {}
    for fid in fobj:
        for m in methods:
            d = []
            for _ in range(2):
                pp = ParameterParser()
                pp.read(paths[fid])
                d.append(observed_call(pp, m)[0])
            if d[0] != d[1] and not ctx.has_violations():
                raise Machinery('history: two fresh parsers of file %d disagree on %s' % (fid, m))
            fresh[(fid, m)] = d[0]
    nexc = sum(1 for d in fresh.values() if d.startswith('EXC:'))
    if nexc * 4 > len(fresh) and not ctx.has_violations():
        raise Machinery('history: %d of %d reference calls raise: the comparison is vacuous (%s)' % (
            nexc, len(fresh), sorted({d[:80] for d in fresh.values() if d.startswith('EXC:')})[:3]))
    # the sample: every walk in which a method is called twice in a row, or called after another file was read, plus random ones
    def feature(w):
        g = [s for s in w['steps'] if s['op'] == 'gen']
        st = w['steps']
        if len(g) >= 2 and g[-1]['m'] == g[-2]['m'] and st[-1]['op'] == 'gen' and st[-2]['op'] == 'gen':
            return 'twice'
        return 'other'
    twice = [w for w in walks if feature(w) == 'twice']
    other = [w for w in walks if feature(w) != 'twice']
    if not twice:
        raise Machinery('history: TLC exported no walk that calls a method twice')
    rng.shuffle(other)
    rng.shuffle(twice)
    seen, picked = set(), []
    for w in twice:         # one per (file, method), with or without an earlier file
        key = (w['steps'][-1]['fid'], w['steps'][-1]['m'])
        if key not in seen:
            seen.add(key)
            picked.append(w)
    picked += other[:max(0, nsample - len(picked))]
    ncalls = 0
    canary_done = False
    for w in picked:
        st = w['steps']
        pp = ParameterParser()
        trail = []
        for i, s in enumerate(st):
            fid = s['fid']
            vec = dict(history=[(x['op'], x['m'] or x['fid']) for x in st[:i + 1]], file=text[fid])
            if s['op'] == 'read':
                pp.read(paths[fid])
                trail.append('read%d' % fid)
            else:
                dig, kw, model = observed_call(pp, s['m'])
                ncalls += 1
                prev = trail[-1] if trail else ''
                cls = 'hist:%s:after:%s' % (s['m'], prev)
                ctx.verdict('GenerateEqualsFresh', dig == fresh[(fid, s['m'])], cls=cls,
                            detail='%s after %s on one parser differs from the same call on a fresh parser of the same file: %s' % (
                                s['m'], ' '.join(trail) or 'read', _first_diff(dig, fresh[(fid, s['m'])])), vector=vec)
                if s['args'] and not dig.startswith('EXC:'):
                    v = fobj[fid]['v']
                    lv = lambda src, k: float(VALUES[v]['Model'][k]) if src == 'model-key' else (float(VALUES[v]['Pressure'][k]) if src == 'pressure-section' else None)
                    judge_model_call(ctx, 'hist:%s' % s['m'], s['args'], s['layers'], kw, model, lv, vec)
                trail.append(s['m'])
            if asread[fid] is not None:
                now = live_config(pp)
                ctx.verdict('ParserConfigUnchanged', now == asread[fid], cls='hist:%s' % trail[-1],
                            detail='after %s the configuration of the parser differs from the file as read (now, as read): %s' % (' '.join(trail), _cfg_diff(now, asread[fid])), vector=vec)
        # canary: a call that consumes a key of the live configuration must be seen by the comparison
        if not canary_done and asread[st[-1]['fid']] is not None and 'Instrument' in asread[st[-1]['fid']]:
            canary_done = True
            fid = st[-1]['fid']
            pp.read(paths[fid])
            pp._raw_config['Instrument'].pop('num_observations')
            if live_config(pp) == asread[fid] or observed_call(pp, 'instrument')[0] == fresh[(fid, 'instrument')]:
                raise Machinery('history canary: a consumed key of the live configuration was not noticed')
    ctx.traces += len(picked)
    return len(picked), ncalls


def _first_diff(a, b):
    if a.startswith('EXC:') or b.startswith('EXC:'):
        return 'long-lived %s / fresh %s' % (a[:160], b[:160])
    try:
        return str(FX.snap_diff(json.loads(a), json.loads(b)))
    except Exception:
        return 'long-lived %s... / fresh %s...' % (a[:120], b[:120])


def _cfg_diff(now, ref):
    if now is None:
        return 'nothing readable'
    out = []
    for s in sorted(set(now) | set(ref)):
        if now.get(s) != ref.get(s):
            a, b = now.get(s) or {}, ref.get(s) or {}
            out.append('[%s] %s' % (s, {k: (a.get(k, '<missing>'), b.get(k, '<missing>')) for k in sorted(set(a) | set(b)) if a.get(k) != b.get(k)}))
    return '; '.join(out)[:400] or 'the same keys and values'


# ------------------------------------------------------------------------------------------ presence of sections
def run_sections(ctx, asms, tmp, xdir, classes, files, asm_par, asm_library, typed_matches):
    """Family C of FactoryAsm in-process: the recorded model constructor call, the pressure grid and the model built
    from the file against the library-built one (before build(): attribute trees)."""
    from taurex.parameter import ParameterParser
    install_recorders()
    par = os.path.join(tmp, 'sect.par')
    n = nlibfail = 0
    for a in asms:
        absent = sorted(a['absent'])
        cls = 'sect:%s:no[%s]:mk[%s]' % (a['model'], ','.join(absent), ','.join(sorted(a['mkeys'])))
        text = asm_par(a, xdir, files)
        vec = dict(a, par=text, sections=True)
        with open(par, 'w') as f:
            f.write(text)
        pp = ParameterParser()
        try:
            pp.read(par)
        except BaseException as ex:
            ctx.verdict('WellFormedFileBuilds', False, cls=cls, detail='the file cannot be read: %s: %s' % (type(ex).__name__, ex), vector=vec)
            continue
        dig, kw, model = observed_call(pp, 'appropriate_model')
        try:
            lib = asm_library(a, classes, files, build=False)
            libdig = digest(lib)
        except BaseException as ex:
            libdig = 'EXC:%s: %s' % (type(ex).__name__, str(ex)[:120])
        n += 1
        if libdig.startswith('EXC:'):       # the components cannot be built through the library either: nothing to compare with
            nlibfail += 1
            if not dig.startswith('EXC:'):
                ctx.verdict('FileEqualsLibrary', False, cls=cls, detail='the input file builds a model, the same components through the library raise %s' % libdig[4:], vector=vec)
            continue
        if dig.startswith('EXC:'):
            ctx.verdict('WellFormedFileBuilds', False, cls=cls, detail='sections %s are left out (inputfile.rst: not all headers are required): the library builds the '
                        'model from the remaining components, the input file raised %s' % (absent, dig[4:]), vector=vec)
            continue
        ctx.verdict('ResolvesToSpecClass', type(model).__name__ == a['cls']['model'], cls=cls, detail='built %s, specification %s' % (type(model).__name__, a['cls']['model']), vector=vec)
        lv = lambda src, k: {'model-key': lambda: a['mkeys'][k]['typed']['v'][0] / a['mkeys'][k]['typed']['v'][1],
                             'pressure-section': lambda: ASM_PRESSURE[k], 'model-default': lambda: None}[src]()
        judge_model_call(ctx, 'sect:%s' % a['model'], a['args'], a['layers'], kw, model, lv, vec)
        for k, e in a['mkeys'].items():
            ctx.verdict('KeysReachCtor', k in kw and typed_matches(e['typed'], kw[k], 'model', k, {}), cls='sect:%s:%s' % (a['model'], k),
                        detail='[Model] key %s = %s: constructor received %r' % (k, e['raw'], kw.get(k)), vector=vec)
        ctx.verdict('FileEqualsLibrary', dig == libdig, cls=cls, detail='the model built from the file differs from %s(<components of the written sections>, %s) at %s' % (
            a['cls']['model'], {k: e['raw'] for k, e in a['mkeys'].items()}, _first_diff(dig, libdig)), vector=vec)
    if os.path.exists(par):
        os.unlink(par)
    if n and nlibfail * 2 > n and not ctx.has_violations():
        raise Machinery('presence of sections: the library construction fails for %d of %d files: the comparison is vacuous' % (nlibfail, n))
    ctx.traces += n
    return n


# the [Pressure] section of the assemblies (harness/drivers/C15.py: asm_par / asm_library)
ASM_PRESSURE = dict(nlayers=30.0, atm_min_pressure=1e-1, atm_max_pressure=1e6)
