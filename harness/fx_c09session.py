"""C09 over the life of ONE optimizer in a job of np processes (spec/PosteriorSession.tla).

A Session is one long-lived optimizer with its forward model.  It is built with or without an observation, gets
(another) observation through set_observed(), has fitted / derived parameters switched on and off through
enable_/disable_fit, enable_/disable_derived, and is fitted again and again (the sampler is the recording double:
it returns the sample set the harness hands over).  After every fit the whole reported solution is PROJECTED to
plain lists (so that it can travel from a simulated MPI rank to the parent) -- nothing is judged here; the
expected values (which observation the spectrum belongs to, which parameters are summarised, which sample sits
where) come from the TLC-generated behaviour and are compared in harness/drivers/C09.py.

replay(session, walk) replays one behaviour of MC_PosteriorSession; worker_main() is the entry point of a
simulated rank (harness/fx_mpi.py: one process per rank, every collective pickled through the hub).
"""
import copy
import tempfile

import numpy as np

from . import fx_retrieval as fx

# observations the user switches between: 1, 2 and 4 have the same number of bins on different grids, 3 has more
# bins (all inside the native range 1000..2000 cm-1 of the fixture opacities); id 0 = no observation
OBS = {1: dict(centres=[1100.0, 1300.0, 1500.0, 1700.0, 1900.0], widths=[100.0, 120.0, 80.0, 150.0, 100.0]),
       2: dict(centres=[1060.0, 1240.0, 1450.0, 1640.0, 1850.0], widths=[80.0, 100.0, 140.0, 120.0, 90.0]),
       3: dict(centres=[1080.0, 1200.0, 1320.0, 1440.0, 1560.0, 1680.0, 1800.0], widths=[100.0] * 7),
       4: dict(centres=[1150.0, 1350.0, 1520.0, 1730.0, 1880.0], widths=[150.0, 90.0, 110.0, 100.0, 120.0])}
# selections of fitted parameters (model parameter names) and of derived parameters
SELS = [['T', 'H2O'], ['planet_radius', 'T', 'H2O']]
SEL_NAMES = [['T', 'log_H2O'], ['planet_radius', 'T', 'log_H2O']]       # names the optimizer reports (H2O is fitted in log)
DERS = [['logg', 'avg_T', 'mu'], ['avg_T', 'mu']]
FIT_ALL = ['planet_radius', 'T', 'H2O']
FIXED_AT = {'planet_radius': 1.0, 'T': 1000.0, 'H2O': 1e-4}
PROFILE_KEYS = ['temp_profile', 'active_mix_profile', 'inactive_mix_profile', 'density_profile',
                'altitude_profile', 'pressure_profile', 'mu_profile']


def make_obs(o):
    d = OBS[o]
    n = len(d['centres'])
    data = [0.0104 + 0.0001 * ((3 * k + o) % 5) for k in range(n)]
    err = [1e-4 * (1 + (k + o) % 3) for k in range(n)]
    return fx.make_array_obs(d['centres'], d['widths'], data, err)


def _lst(a):
    return np.asarray(a, dtype=float).tolist()


def snapshot(s0):
    """Everything of one stored solution the property speaks about, as nested lists."""
    out = dict(tracedata=_lst(s0['tracedata']), weights=_lst(s0['weights']), spectra={}, profiles={}, derived={})
    for k in ('native_spectrum', 'binned_spectrum', 'binned_wngrid', 'native_wngrid'):
        if k in s0['Spectra']:
            out['spectra'][k] = _lst(s0['Spectra'][k])
    for k in PROFILE_KEYS:
        if k in s0['Profiles']:
            out['profiles'][k] = _lst(s0['Profiles'][k])
    for k, rec in (s0.get('derived_params') or {}).items():
        out['derived'][k] = dict(trace=_lst(rec['trace']), value=float(rec['value']), sigma_m=float(rec['sigma_m']),
                                 sigma_p=float(rec['sigma_p']), mean=float(rec['mean']))
    return out


class Session(object):
    def __init__(self, sampler, init, tmpdir, multimodes=True):
        """init = (obs, sel, der): the settings the optimizer is constructed with (obs 0: without an observation)."""
        N, M, _ = fx.load_optimizers()
        obs0, sel0, der0 = init
        self.sampler = sampler
        self.model = fx.make_transmission('isothermal')
        self.observations = {o: make_obs(o) for o in OBS}
        observed = self.observations[obs0] if obs0 else None
        if sampler == 'nestle':
            self.opt = N(observed=observed, model=self.model, num_live_points=5, sigma_fraction=1.0)
        else:
            self.dir = tempfile.mkdtemp(prefix='ses_', dir=tmpdir)
            self.opt = M(multi_nest_path=self.dir, observed=observed, model=self.model, num_live_points=5,
                         sigma_fraction=1.0, search_multi_modes=multimodes)
        for name, par in list(self.model.fittingParameters.items()):
            if par[5]:
                self.opt.disable_fit(name)
        self.opt.set_boundary('T', [300.0, 3000.0])
        self.opt.set_boundary('H2O', [1e-9, 1e-1])
        self.opt.set_boundary('planet_radius', [0.5, 1.5])
        self.nselect = 0
        self.select_fit(sel0)
        self.select_derived(der0)
        self.payload = None
        self.prev = None             # (live solution dict of the previous fit, private snapshot taken right after it)

    # ---- the settings a user changes between fits (public API only)
    def set_observed(self, o):
        self.opt.set_observed(self.observations[o])

    def select_fit(self, s):
        """A parameter taken out of the fit is FIXED at a definite value (what a user does; left alone it would keep
        whatever sample the last post-processing step of this process happened to evaluate)."""
        self.nselect += 1
        for n in FIT_ALL:
            if n in SELS[s]:
                self.opt.enable_fit(n)
            else:
                self.opt.disable_fit(n)
                self.model[n] = FIXED_AT[n] * (1.0 + 0.01 * (self.nselect - 1))

    def select_derived(self, d):
        for n in list(self.model.derivedParameters):
            if n in DERS[d]:
                self.opt.enable_derived(n)
            else:
                self.opt.disable_derived(n)

    # ---- one fit
    def _nestle_hook(self, loglike, prior, ndim, **kw):
        samples, weights = self.payload
        return fx.FakeNestleResult(samples, weights)

    def _mn_hook(self, call):
        import pymultinest
        pymultinest.write_outputs(call['outputfiles_basename'], self.payload, logz=(-20.5, 0.25),
                                  multimodal=call['multimodal'])

    def fit(self, samples, weights, modes=None):
        """-> projection of the reported solution, or dict(error=..) if the implementation raised."""
        fixed = {n: float(self.model.fittingParameters[n][2]()) for n in FIT_ALL}
        try:
            if self.sampler == 'nestle':
                self.payload = (np.array(samples, dtype=float), np.array(weights, dtype=float))
                with fx.NestlePatch(self._nestle_hook), fx.quiet_stdout():
                    sol = self.opt.fit()
            else:
                import pymultinest
                self.payload = modes
                pymultinest.HOOK = self._mn_hook
                try:
                    with fx.quiet_stdout():
                        sol = self.opt.fit()
                finally:
                    pymultinest.HOOK = None
            out = self.project(sol)
        except Exception as e:   # noqa -- a verdict for the judge, not a crash
            import traceback
            return dict(error='%s: %s | %s' % (type(e).__name__, e, traceback.format_exc()[-400:].replace('\n', ' / ')), fixed=fixed)
        out['fixed'] = fixed
        # the solution reported by the previous fit must still be what it was
        out['prev_changed'] = None
        if self.prev is not None:
            live, snap = self.prev
            try:
                now = snapshot(live)
                out['prev_changed'] = sorted(diff_keys(snap, now))
            except Exception as e:   # noqa
                out['prev_changed'] = ['unreadable: %r' % (e,)]
        s0 = sol['solution0']
        self.prev = (s0, copy.deepcopy(out['sol']))
        return out

    def project(self, sol):
        opt = self.opt
        got = list(opt.get_solution())
        out = dict(nsol=len(got), solkeys=sorted(sol.keys()))
        idx, omap, omed, extras = got[0]
        fitp = dict(extras)['fit_params']
        key = 'map' if self.sampler == 'nestle' else 'nest_map'
        out['names'] = list(opt.fit_names)
        out['derived_names'] = list(opt.derived_names)
        out['opt_map'] = _lst(omap)
        out['opt_median'] = _lst(omed)
        out['samples'] = _lst(opt.get_samples(idx))
        out['weights'] = _lst(opt.get_weights(idx))
        out['fit_keys'] = sorted(fitp.keys())
        out['fit_params'] = {n: dict(value=float(p['value']), sigma_m=float(p['sigma_m']), sigma_p=float(p['sigma_p']),
                                     mean=float(p['mean']), map=float(np.ravel(p[key])[0]), trace=_lst(p['trace']))
                             for n, p in fitp.items()}
        out['sol'] = snapshot(sol['solution%d' % idx])
        return out


def diff_keys(a, b, prefix=''):
    """paths at which two snapshots differ (NaN equals NaN)."""
    if isinstance(a, dict) and isinstance(b, dict):
        for k in set(a) | set(b):
            if k not in a or k not in b:
                yield prefix + k
            else:
                for x in diff_keys(a[k], b[k], prefix + k + '/'):
                    yield x
        return
    x, y = np.asarray(a, dtype=float), np.asarray(b, dtype=float)
    if x.shape != y.shape or not np.array_equal(x, y, equal_nan=True):
        yield prefix.rstrip('/')


def diff_projection(a, b):
    """paths at which two projections of a reported solution differ (empty: identical, NaN equal to NaN)."""
    out = []
    for k in set(a) | set(b):
        if k not in a or k not in b:
            out.append(k)
        elif isinstance(a[k], dict):
            if not isinstance(b[k], dict):
                out.append(k)
            else:
                out.extend(k + '/' + x for x in diff_projection(a[k], b[k]))
        elif isinstance(a[k], (list, float)) and not isinstance(a[k], str):
            try:
                x, y = np.asarray(a[k], dtype=float), np.asarray(b[k], dtype=float)
                if x.shape != y.shape or not np.array_equal(x, y, equal_nan=True):
                    out.append(k)
            except (TypeError, ValueError):
                if a[k] != b[k]:
                    out.append(k)
        elif a[k] != b[k]:
            out.append(k)
    return out


def replay(session_factory, walk):
    """walk = dict(init=[obs, sel, der, np], steps=[[op, a, ...]], fits=[dict(samples=, weights=, modes=)]).
    -> one projection per fit step (the replay stops at the first fit the implementation raised in: the ranks of a
    job must stay in step)."""
    ses = session_factory(tuple(walk['init'][:3]))
    out = []
    k = 0
    for step in walk['steps']:
        op = step[0]
        if op == 'obs':
            ses.set_observed(step[1])
        elif op == 'sel':
            ses.select_fit(step[1])
        elif op == 'der':
            ses.select_derived(step[1])
        else:
            f = walk['fits'][k]
            k += 1
            out.append(ses.fit(f['samples'], f['weights'], f.get('modes')))
            if 'error' in out[-1]:
                break
    return out


# ---- simulated ranks ------------------------------------------------------------------------------------------


def worker_main(rank, size, batch):
    """Runs in a rank process (forked from the parent: optimizers, doubles and fixture opacities are loaded)."""
    res = []
    for walk in batch:
        try:
            r = replay(lambda init: Session('nestle', init, None), walk)
        except Exception as e:   # noqa -- a setter raised: the walk cannot go on, nor can the batch (ranks in step)
            res.append([dict(error='setting change raised %s: %s' % (type(e).__name__, e), fixed={})])
            break
        res.append(r)
        if any('error' in p for p in r):
            break
    return res
