"""pytest plugin: record the pipeline protocol while the repository's own tests run.
Usage: pytest -p harness.pytest_pipeline ...   with PIPELINE_OUT=<file> (ndjson)."""
import json
import os

from . import pipeline

_all = []
_n = [0]


def pytest_configure(config):
    pipeline.install()


def pytest_runtest_setup(item):
    _n[0] += 1
    pipeline.start(1000 + _n[0])


def pytest_runtest_teardown(item, nextitem):
    evs = pipeline.stop()
    for e in evs:
        e['test'] = item.nodeid
    _all.extend(evs)


def pytest_sessionfinish(session, exitstatus):
    out = os.environ.get('PIPELINE_OUT')
    if out:
        with open(out, 'w') as f:
            for e in _all:
                f.write(json.dumps(e) + '\n')
