"""Fixture and projection for C07: a real NestleOptimizer over a real TransmissionModel
(planet_radius, T, H2O[log]) and an ArraySpectrum subclass with one fitting parameter.

All model numbers are powers of ten 10^e; the specification carries the exponents.  This
module converts at the boundary (10**e going in, a two-way reading (integer n / exponent k)
coming out) and never decides anything.
"""
import math
import re

import numpy as np

PARAMS = ['planet_radius', 'T', 'H2O', 'offset']          # declaration order: model, then observation
DERIVED = ['logg', 'mu']
# the spec's Init (MC_Optimizer.tla: FullSetting / FullValue / MCInitDerived), restated from the
# documented defaults of the components: planet_radius is fitted by default, H2O is a log parameter
INIT_SETTING = {'planet_radius': (True, 'linear', -1, 1), 'T': (False, 'linear', 2, 4),
                'H2O': (False, 'log', -12, -1), 'offset': (False, 'linear', -3, 0)}
INIT_VALUE = {'planet_radius': 0, 'T': 3, 'H2O': -3, 'offset': -2}
NONUM = 9999
REL = 1e-12


ZERO, NEG = -1000, -2000      # Optimizer.tla: codes of linear-space numbers that are not positive (Zero, Neg(e) = NEG - e)


def p10(e):
    """The linear-space number of a code of the specification: e is 10^e, Zero is 0, Neg(e) is -10^e."""
    e = int(e)
    if e == ZERO:
        return 0.0
    if e < ZERO:
        return -(10.0 ** (NEG - e))
    return 10.0 ** e


def build():
    """Fresh model + observation + optimizer in the spec's Init state."""
    from taurex.cache import OpacityCache
    from taurex.model import TransmissionModel
    from taurex.chemistry import TaurexChemistry, ConstantGas
    from taurex.temperature import Isothermal
    from taurex.planet import Planet
    from taurex.stellar import BlackbodyStar
    from taurex.contributions import AbsorptionContribution
    from taurex.data.spectrum.array import ArraySpectrum
    from taurex.core import fitparam
    from taurex.optimizer.nestle import NestleOptimizer
    from .fixtures import GridOpacity

    import logging
    logging.disable(logging.CRITICAL)          # set_prior logs its rejection at ERROR level
    global _OffsetSpectrum
    if '_OffsetSpectrum' not in globals():
        class _OffsetSpectrum(ArraySpectrum):
            """ArraySpectrum with one fitting parameter (an additive offset), default not fitted."""

            def __init__(self, arr):
                super().__init__(arr)
                self._offset = 1e-2

            @fitparam(param_name='offset', param_latex='offset', default_mode='linear',
                      default_fit=False, default_bounds=[1e-3, 1.0])
            def offset(self):
                return self._offset

            @offset.setter
            def offset(self, value):
                self._offset = value

        wn = np.linspace(100, 1000, 10)
        op = GridOpacity('H2O', wn, [100., 1000., 3000.], [1e-2, 1e2, 1e6], np.ones((3, 3, 10)) * 1e-22)
        OpacityCache().clear_cache()
        OpacityCache().add_opacity(op)

    chem = TaurexChemistry(fill_gases=['H2', 'He'], ratio=0.1)
    chem.addGas(ConstantGas('H2O', mix_ratio=1e-3))
    tm = TransmissionModel(planet=Planet(planet_mass=1.0, planet_radius=1.0), star=BlackbodyStar(),
                           chemistry=chem, temperature_profile=Isothermal(T=1000.0), nlayers=5,
                           atm_min_pressure=1e-2, atm_max_pressure=1e6)
    tm.add_contribution(AbsorptionContribution())
    tm.build()
    obs = _OffsetSpectrum(np.array([[1.0, 0.01, 0.001, 0.1], [2.0, 0.01, 0.001, 0.1], [3.0, 0.01, 0.001, 0.1]]))
    opt = NestleOptimizer(observed=obs, model=tm, num_live_points=10)
    # bounds of the two parameters whose documented defaults are not powers of ten
    opt.set_boundary('planet_radius', (p10(-1), p10(1)))
    opt.set_boundary('T', (p10(2), p10(4)))
    return Real(opt, tm, obs)


def num(x):
    """Two-way reading of a real number: {'i': n} if it is the integer n, {'p': k} if it is 10^k
    (k = Zero if it is 0, k = Neg(j) if it is -10^j: the codes of Optimizer.tla)."""
    try:
        x = float(x)
    except Exception:
        return dict(i=NONUM, p=NONUM)
    i = p = NONUM
    if x == x and abs(x) < 1000 and abs(x - round(x)) <= REL * max(1.0, abs(x)):
        i = int(round(x))
    if x == x and 0 < abs(x) < float('inf'):
        k = int(round(math.log10(abs(x))))
        if abs(k) <= 60 and abs(abs(x) - 10.0 ** k) <= REL * 10.0 ** k:
            p = k if x > 0 else NEG - k
    elif x == 0:
        p = ZERO
    return dict(i=i, p=p)


_NUMRE = r'([-+0-9.eE]+|nan|inf|-inf)'


def prior_numbers(prior):
    """The two numbers a prior reports through its public params() text."""
    s = prior.params()
    m = re.match(r'Bounds = \[' + _NUMRE + ',' + _NUMRE + r'\]$', s)
    if not m:
        m = re.match(r'Mean = ' + _NUMRE + ' Stdev = ' + _NUMRE + '$', s)
    if not m:
        return None
    return float(m.group(1)), float(m.group(2))


def spell(mode, upper):
    """The mode string handed to set_mode: `mode` (lower case in the specification) with the letters at the
    1-based positions `upper` written in upper case ('log', [1, 2, 3] -> 'LOG')."""
    up = set(int(i) for i in (upper or ()))
    return ''.join(ch.upper() if i + 1 in up else ch for i, ch in enumerate(mode))


def container(seq, kind):
    """The sequence type in which a vector / pair is handed over: list (default), tuple or ndarray."""
    if kind == 'tuple':
        return tuple(seq)
    if kind == 'array':
        return np.array(seq, dtype=float)
    return list(seq)


def make_prior(pr):
    from taurex.core.priors import Uniform, LogUniform, Gaussian, LogGaussian
    k, a, b = pr['kind'], pr['a'], pr['b']
    if k == 'Uniform':
        return Uniform(bounds=[p10(a), p10(b)])
    if k == 'LogUniform':
        return LogUniform(bounds=[float(a), float(b)])
    if k == 'Gaussian':
        return Gaussian(mean=p10(a), std=p10(b))
    if k == 'LogGaussian':
        return LogGaussian(mean=float(a), std=float(b))
    raise ValueError(k)


_TMP = []
_BOOLS = (('True', 'False'), ('yes', 'no'), ('TRUE', 'false'))


def file_text(fs, ds, ko=0):
    """The input file of a specification file [fs, ds] (Optimizer.tla: Routes): a [Fitting] section with the keys of
    every entry and a [Derive] section.  ko varies what the specification does not distinguish: the spelling of the
    booleans and the order of a parameter's keys (`p:fit` first or last)."""
    yes, no = _BOOLS[ko % 3]
    lines = ['[Fitting]']
    for e in fs:
        p, keys = e['p'], []
        keys.append('%s:fit = %s' % (p, yes if e['fit'] else no))
        if e.get('f'):
            keys.append('%s:factor = %r, %r' % (p, p10(e['f'][0]), p10(e['f'][1])))
        if e.get('b'):
            keys.append('%s:bounds = %r, %r' % (p, p10(e['b'][0]), p10(e['b'][1])))
        if e.get('m'):
            keys.append('%s:mode = %s' % (p, spell(e['m'], e.get('cs'))))
        pr = e.get('pr')
        if pr and pr['kind'] != 'None':
            k, x, y = pr['kind'], pr['a'], pr['b']
            if k in ('Uniform', 'LogUniform'):
                x, y = (p10(x), p10(y)) if k == 'Uniform' else (float(x), float(y))
                keys.append('%s:prior = "%s(bounds=(%r, %r))"' % (p, k, x, y))
            else:
                x, y = (p10(x), p10(y)) if k == 'Gaussian' else (float(x), float(y))
                keys.append('%s:prior = "%s(mean=%r, std=%r)"' % (p, k, x, y))
        lines += keys[::-1] if (ko // 3) % 2 else keys
    if ds:
        lines.append('[Derive]')
        lines += ['%s:compute = %s' % (d['d'], yes if d['on'] else no) for d in ds]
    return '\n'.join(lines) + '\n'


def file_path(text):
    import atexit
    import os
    import shutil
    import tempfile
    if not _TMP:
        _TMP.append(tempfile.mkdtemp(prefix='c07par_', dir='/dev/shm' if os.path.isdir('/dev/shm') and os.access('/dev/shm', os.W_OK) else None))
        atexit.register(shutil.rmtree, _TMP[0], ignore_errors=True)
    path = os.path.join(_TMP[0], 'in.par')
    with open(path, 'w') as f:
        f.write(text)
    return path


class BadEvent(Exception):
    """An event the harness does not know (a mistake of the harness, never a verdict)."""


def contents(seq):
    """The numbers a caller's sequence holds now (nan for anything that is no number any more)."""
    out = []
    try:
        for v in seq:
            try:
                out.append(float(v))
            except Exception:
                out.append(float('nan'))
    except Exception:
        return [float('nan')]
    return out


class Real:
    def __init__(self, opt, model, obs):
        self.opt, self.model, self.obs = opt, model, obs
        self.others0 = self.others()
        self.last_vec = None        # the array object handed to the last update_model, and a private copy of
        self.last_copy = []         # what the caller wrote into it
        self.args_same = True       # every sequence handed to a call still holds what the caller wrote
        self.args_why = ''
        self.sampler = None         # what the sampler saw when the last fit() entered it (projection)

    def hand(self, seq, kind):
        """The caller's sequence (list / tuple / float64 ndarray) and a private copy of its contents."""
        c = container(seq, kind)
        return c, [float(v) for v in seq]

    def check_arg(self, what, c, copy):
        """Exact comparison: a call only reads the sequences it is handed."""
        now = contents(c)
        if now != copy:
            self.args_same = False
            self.args_why = '%s: the caller wrote %r, the sequence holds %r after the call' % (what, copy, now)

    def getter(self, p):
        d = self.model.fittingParameters if p in self.model.fittingParameters else self.obs.fittingParameters
        return d[p][2]

    def others(self):
        out = {}
        for d in (self.model.fittingParameters, self.obs.fittingParameters):
            for k, v in d.items():
                if k not in PARAMS:
                    out[k] = v[2]()
        return out

    def apply(self, ev, psp=None):
        """Execute one event on the real optimizer.  Returns True if the call raised."""
        from taurex.core.priors import PriorMode
        o, op = self.opt, ev['op']
        try:
            if op == 'enable_fit':
                o.enable_fit(ev['p'])
            elif op == 'disable_fit':
                o.disable_fit(ev['p'])
            elif op == 'set_mode':
                o.set_mode(ev['p'], spell(ev.get('m', 'linear'), ev.get('cs')))
            elif op in ('set_boundary', 'set_factor_boundary'):
                x = ev.get('x', [0, 1])
                pair, copy = self.hand((p10(x[0]), p10(x[1])), ev.get('c', 'tuple'))
                try:
                    getattr(o, op)(ev['p'], pair)
                finally:
                    self.check_arg(op, pair, copy)
            elif op == 'set_prior':
                o.set_prior(ev['p'], make_prior(ev.get('pr', dict(kind='Uniform', a=0, b=1))))
            elif op == 'enable_derived':
                o.enable_derived(ev['p'])
            elif op == 'disable_derived':
                o.disable_derived(ev['p'])
            elif op == 'compile_params':
                o.compile_params()
            elif op == 'fit':
                # the second public entry into compile: fit() with a do-nothing sampler (no solutions) that records the
                # set-up it is handed at the moment it is entered
                seen = []
                self.sampler = None
                o.compute_fit = lambda: seen.append(self.project(False))
                o.get_solution = lambda: iter(())
                try:
                    o.fit()
                finally:
                    del o.compute_fit, o.get_solution
                if len(seen) != 1:
                    raise RuntimeError('fit() entered the sampler %d times' % len(seen))
                self.sampler = seen[0]
            elif op == 'file':
                # the input-file route: [Fitting] / [Derive] sections applied by ParameterParser.setup_optimizer
                from taurex.parameter import ParameterParser
                pp = ParameterParser()
                pp.read(file_path(file_text(ev.get('fs', []), ev.get('ds', []), ev.get('ko', 0))))
                pp.setup_optimizer(o)
            elif op == 'update_model':
                # entry i goes to prior i: a log prior is handed the exponent, a linear one 10^exponent
                # (the vector may be shorter or longer than the fitted set: entries without a prior are linear)
                if psp is None:
                    psp = ['log' if q.priorMode is PriorMode.LOG else 'linear' for q in o.fitting_priors]
                vec = [float(k) if i < len(psp) and psp[i] == 'log' else p10(k) for i, k in enumerate(ev['x'])]
                self.last_vec, self.last_copy = self.hand(vec, ev.get('c', 'list'))
                o.update_model(self.last_vec)
            elif op == 'update_same':
                # the very object of the previous update_model (a trace row written in a second sweep)
                if self.last_vec is None:
                    raise BadEvent('update_same without a previous update_model')
                o.update_model(self.last_vec)
            elif op == 'write_back':
                o.update_model(o.fit_values)
            else:
                raise BadEvent('unknown op ' + op)
            return False
        except BadEvent:
            raise
        except Exception as e:      # the property only says "is an error"
            self.last_exc = repr(e)
            return True

    def project(self, raised):
        """Projection of the real object: raw floats (binding C) -- see encode() for TLC."""
        from taurex.core.priors import PriorMode
        o = self.opt
        out = dict(err=bool(raised), ok=True, fit=[], der=[], val={}, why='')
        try:
            names = list(o.fit_names)
            vals = list(o.fit_values)
            bnds = list(o.fit_boundaries)
            pri = list(o.fitting_priors)
            # derived_parameters does not exist before the first compile_params(): nothing is derived yet
            der = list(o.derived_names) if hasattr(o, 'derived_parameters') else []
            if not (len(names) == len(vals) == len(bnds) == len(pri)):
                raise ValueError('views of different length: %d names %d values %d boundaries %d priors'
                                 % (len(names), len(vals), len(bnds), len(pri)))
            for n, v, b, p in zip(names, vals, bnds, pri):
                nsp = 'linear'
                if n.startswith('log_') and n[4:] in PARAMS:
                    n, nsp = n[4:], 'log'
                pn = prior_numbers(p)
                if pn is None:
                    raise ValueError('unreadable prior params %r' % p.params())
                out['fit'].append(dict(n=n, nsp=nsp, v=float(v), lo=float(min(b)), hi=float(max(b)),
                                       pk=p.__class__.__name__,
                                       psp='log' if p.priorMode is PriorMode.LOG else 'linear',
                                       pa=pn[0], pb=pn[1]))
            out['der'] = der
        except Exception as e:
            out['ok'] = False
            out['why'] = repr(e)
        for p in PARAMS:
            try:                 # a value that is not a number any more is a verdict (nan never compares equal)
                out['val'][p] = float(self.getter(p)())
            except Exception:
                out['val'][p] = float('nan')
        try:
            out['others_same'] = (self.others() == self.others0)
        except Exception:
            out['others_same'] = False
        # the array of the last update_model as the caller sees it now, and "no argument was written to"
        out['arg'] = contents(self.last_vec) if self.last_vec is not None else []
        if self.last_vec is not None:
            self.check_arg('update_model', self.last_vec, self.last_copy)
        out['args_same'], out['args_why'] = self.args_same, self.args_why
        return out


def encode(post):
    """Projection with every number in the two-way reading, for Trace_Optimizer.tla."""
    fit = [dict(n=f['n'], nsp=f['nsp'], v=num(f['v']), lo=num(f['lo']), hi=num(f['hi']), pk=f['pk'],
                psp=f['psp'], pa=num(f['pa']), pb=num(f['pb'])) for f in post['fit']]
    # (a setter's pair that was written to: one entry too many, which the trace specification rejects)
    arg = [num(v) for v in post.get('arg', [])] + ([] if post.get('args_same', True) else [num(float('nan'))])
    return dict(err=post['err'], ok=post['ok'], fit=fit, der=post['der'],
                val={p: num(v) for p, v in post['val'].items()}, arg=arg)


def spec_number(sp, e):
    return float(e) if sp == 'log' else p10(e)


def same(x, y, sp='linear'):
    """Linear-space numbers (powers of ten) relatively to 1e-12; log-space numbers (small integers, possibly 0)
    to 1e-12 of max(1, |x|): log10 of a getter's 0.9999999999999999 is -4.8e-17, not 0."""
    floor = 1.0 if sp == 'log' else 0.0
    return x == x and abs(x - y) <= REL * max(abs(x), abs(y), floor)


def consistent(got):
    """Between compiles the statement only asks that the views stay mutually consistent: name, value and
    prior of every reported parameter are in one space and the reported value is the model's value."""
    for g in got['fit']:
        if g['nsp'] != g['psp']:
            return 'fit_names', '%s: name in %s space, prior in %s space' % (g['n'], g['nsp'], g['psp'])
        x = got['val'].get(g['n'])
        if x is not None:
            want = math.log10(x) if g['psp'] == 'log' and x > 0 else x
            if not same(g['v'], want, g['psp']):
                return 'fit_values', '%s: reported %r, model value %r in %s space is %r' % (g['n'], g['v'], x, g['psp'], want)
    return None, ''


def argument_kept(exp, got):
    """The sequences handed to the calls still hold what the caller wrote: the array of the last update_model is the
    specification's arg (entry = the number (sp0, e)), a boundary / factor pair is compared with a private copy."""
    if not got.get('args_same', True):
        return got['args_why']
    want = exp.get('arg')
    if want is None:
        return ''
    if len(want) != len(got['arg']):
        return 'array of the last update_model: %d entries expected, %r read' % (len(want), got['arg'])
    for i, (w, g) in enumerate(zip(want, got['arg'])):
        if w['sp'] != w['sp0'] or not same(g, spec_number(w['sp0'], w['e']), w['sp0']):
            return 'entry %d of the array handed to update_model: the caller wrote %r, it holds %r' % (
                i, spec_number(w['sp0'], w['e']), g)
    return ''


def compare(exp, got, full=True):
    """First clause on which the real projection differs from the spec's (None if none).
    full: the call is compile_params / update_model / write_back, after which the reported set-up must be
    the specification's; after any other call only errors, values and mutual consistency are compared."""
    if bool(exp['err']) != got['err']:
        return ('unknown_is_error' if exp['err'] else 'known_is_accepted'), \
            'expected raised=%s got raised=%s' % (exp['err'], got['err'])
    bad = argument_kept(exp, got)
    if bad:
        return 'argument_untouched', bad
    if not got['ok']:
        return 'views_readable', got['why']
    if not full:
        bad, detail = consistent(got)
        if bad:
            return bad, detail
        for p in PARAMS:
            if not same(got['val'][p], p10(exp['val'][p])):
                return 'values', '%s: expected %r got %r' % (p, p10(exp['val'][p]), got['val'][p])
        if not got['others_same']:
            return 'other_parameters_untouched', 'a parameter outside the fixture changed'
        return None, ''
    ef, gf = exp['fit'], got['fit']
    if [(e['n'], e['nsp']) for e in ef] != [(g['n'], g['nsp']) for g in gf]:
        return 'fit_names', 'expected %r got %r' % ([(e['n'], e['nsp']) for e in ef], [(g['n'], g['nsp']) for g in gf])
    for e, g in zip(ef, gf):
        if not same(g['v'], spec_number(e['vsp'], e['v']), e['vsp']):
            return 'fit_values', '%s: expected %r (%s space) got %r' % (e['n'], spec_number(e['vsp'], e['v']), e['vsp'], g['v'])
        lo, hi = spec_number(e['bsp'], e['lo']), spec_number(e['bsp'], e['hi'])
        if not (same(g['lo'], lo, e['bsp']) and same(g['hi'], hi, e['bsp'])):
            return 'fit_boundaries', '%s: expected (%r,%r) (%s space) got (%r,%r)' % (e['n'], lo, hi, e['bsp'], g['lo'], g['hi'])
        pa, pb = spec_number(e['psp'], e['pa']), spec_number(e['psp'], e['pb'])
        if not (g['pk'] == e['pk'] and g['psp'] == e['psp'] and same(g['pa'], pa, e['psp']) and same(g['pb'], pb, e['psp'])):
            return 'fit_priors', '%s: expected %s(%r,%r) got %s(%r,%r)' % (e['n'], e['pk'], pa, pb, g['pk'], g['pa'], g['pb'])
    if list(exp['der']) != list(got['der']):
        return 'derived_names', 'expected %r got %r' % (exp['der'], got['der'])
    for p in PARAMS:
        if not same(got['val'][p], p10(exp['val'][p])):
            return 'values', '%s: expected %r got %r' % (p, p10(exp['val'][p]), got['val'][p])
    if not got['others_same']:
        return 'other_parameters_untouched', 'a parameter outside the fixture changed'
    return None, ''
