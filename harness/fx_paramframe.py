"""Fitting-parameter registry of whole models as a store with a frame rule (spec/ParamFrame.tla).

C07: "Writing a parameter vector sets exactly the fitted parameters to the [...] values and leaves every
other model or observation parameter untouched".  The Optimizer spec (spec/Optimizer.tla) is bound on one
small fixture model; here the same clause is bound on models assembled from EVERY built-in component
that registers fitting parameters (planet, pressure range, four temperature profiles, constant /
two-layer / two-point / power-law gases, fill-gas ratios, cloud deck, grey and Lee hazes), whose
getter/setter pairs are partly generated in loops.

TLC generates the walks (MC_ParamFrame, -simulate); each is replayed on ONE long-lived model, once through
`model[name] = v` and once through `Optimizer.update_model(vector)`; after every action the value read
through ALL getters of the model is logged and `Trace_ParamFrame` validates ReadYourWrite, FrameRule (the
walked parameters and all others), RunIsPure and equality of the model's result with that of a model
freshly built with the same values handed to the constructors.
"""
import numpy as np

from . import core
from .core import Machinery, validate_trace
from .history import digest

WN = np.linspace(500.0, 5000.0, 8)
NL = 8
# documented aliases: names that deliberately share one slot (taurex/data/planet.py: "(ALIAS)")
ALIASES = [{'planet_distance', 'planet_sma'}]


def install_opacities():
    from taurex.cache import OpacityCache
    from .fixtures import GridOpacity, reset_caches
    reset_caches()
    for i, m in enumerate(['H2O', 'CH4', 'CO2', 'NH3']):
        x = np.ones((3, 3, 8)) * 10.0 ** (-22 - i) * (1 + np.arange(8))
        OpacityCache().add_opacity(GridOpacity(m, WN, [100., 1000., 3000.], [1e-4, 1e2, 1e8], x))


# every walkable parameter with three values; any combination of the values is a valid model
COMMON = dict(
    planet_mass=[0.8, 1.0, 1.7], planet_radius=[0.9, 1.0, 1.2], planet_distance=[0.5, 1.0, 2.0],
    atm_min_pressure=[1e-3, 1e-2, 1e-1], atm_max_pressure=[1e5, 1e6, 1e7], clouds_pressure=[1e3, 1e5, 1e9],
    H2O=[1e-5, 1e-4, 1e-3], CH4_surface=[1e-4, 1e-3, 1e-5], CH4_top=[1e-6, 1e-7, 1e-4], CH4_P=[1e3, 1e1, 1e5],
    CO2_surface=[1e-4, 1e-5, 1e-3], CO2_top=[1e-6, 1e-3, 1e-8], He_H2=[0.17, 0.05, 0.3], N2_H2=[0.01, 0.1, 0.002],
    NH3_surface=[1e-5, 1e-6, 1e-4], NH3_alpha=[0.1, 0.05, 0.2], NH3_beta=[100.0, 50.0, 300.0], NH3_gamma=[2.0, 1.0, 3.0],
    flat_mix_ratio=[1e-8, 1e-6, 1e-10], flat_bottomP=[1e4, 1e5, 1e6], flat_topP=[1e1, 1e0, 1e2],
    lee_mie_radius=[0.01, 0.1, 1.0], lee_mie_q=[40.0, 10.0, 80.0], lee_mie_mix_ratio=[1e-10, 1e-8, 1e-6],
    lee_mie_bottomP=[1e4, 1e5, 1e6], lee_mie_topP=[1e1, 1e0, 1e2])
TEMPS = dict(
    isothermal=dict(T=[1000.0, 700.0, 1800.0]),
    guillot=dict(T_irr=[1500.0, 1000.0, 2000.0], kappa_irr=[0.01, 0.02, 0.005], kappa_v1=[0.005, 0.01, 0.002],
                 kappa_v2=[0.005, 0.001, 0.02], alpha=[0.5, 0.25, 0.75], T_int_guillot=[100.0, 200.0, 50.0]),
    npoint=dict(T_surface=[1500.0, 1400.0, 1700.0], T_top=[300.0, 400.0, 200.0], T_point1=[1000.0, 1100.0, 900.0],
                T_point2=[600.0, 700.0, 500.0], P_point1=[1e4, 3e4, 5e3], P_point2=[1e2, 3e2, 5e1],
                P_surface=[1e6, 3e5, 1e5], P_top=[1e-1, 1e0, 3e0]),
    rodgers=dict([('T_%d' % (i + 1), [1000.0 - 50 * i, 1200.0 - 30 * i, 800.0 + 10 * i]) for i in range(NL)] +
                 [('correlation_length', [5.0, 2.0, 9.0])]))
# constructor defaults of the built-in components: a walked parameter whose value equals its default is left OUT of the
# constructor call in half of the walks, so that default arguments (shared mutable defaults, defaults computed at
# import time) are part of what "a freshly built model" means
DEFAULTS = dict(planet_mass=1.0, planet_radius=1.0, planet_distance=1.0, atm_min_pressure=1e-4, atm_max_pressure=1e6,
                clouds_pressure=1e3, H2O=1e-5, CH4_surface=1e-4, CH4_top=1e-8, CH4_P=1e3, CO2_surface=1e-4, CO2_top=1e-8,
                He_H2=0.17567, flat_mix_ratio=1e-10, flat_bottomP=-1, flat_topP=-1, lee_mie_radius=0.01, lee_mie_q=40,
                lee_mie_mix_ratio=1e-10, lee_mie_bottomP=-1, lee_mie_topP=-1, T=1500, T_irr=1500, kappa_irr=0.01,
                kappa_v1=0.005, kappa_v2=0.005, alpha=0.5, T_int_guillot=100, T_surface=1500.0, T_top=200.0,
                correlation_length=5.0)
GROUPS = [['planet_mass', 'planet_radius', 'planet_distance'], ['atm_min_pressure', 'atm_max_pressure', 'clouds_pressure'],
          ['H2O', 'CH4_surface', 'CH4_top'], ['CH4_P', 'CO2_surface', 'CO2_top'], ['He_H2', 'N2_H2', 'H2O'],
          ['NH3_surface', 'NH3_alpha', 'NH3_beta'], ['NH3_gamma', 'N2_H2', 'planet_radius'],
          ['flat_mix_ratio', 'flat_bottomP', 'flat_topP'], ['lee_mie_radius', 'lee_mie_q', 'lee_mie_mix_ratio'],
          ['lee_mie_bottomP', 'lee_mie_topP', 'He_H2'], ['He_H2', 'H2O', 'CO2_top']]
TGROUPS = dict(isothermal=[['T', 'planet_mass', 'N2_H2']],
               guillot=[['T_irr', 'kappa_irr', 'kappa_v1'], ['kappa_v2', 'alpha', 'T_int_guillot']],
               npoint=[['T_surface', 'T_top', 'T_point1'], ['T_point2', 'P_point1', 'P_point2'], ['P_surface', 'P_top', 'T_point1']],
               rodgers=[['T_1', 'T_2', 'T_3'], ['T_4', 'T_8', 'correlation_length'], ['T_5', 'T_6', 'T_7']])


def tables(temp, defaults=False):
    t = dict(COMMON)
    t.update(TEMPS[temp])
    if defaults:            # the first value of every parameter that has a constructor default IS that default
        t = {k: ([DEFAULTS[k]] + [x for x in v if x != DEFAULTS[k]][:2] if k in DEFAULTS else v) for k, v in t.items()}
    return t


def build(temp, c, family='transmission', omit=False, fill2=False):
    """A model built with the values of c handed to the CONSTRUCTORS of its components (omit: arguments equal to the
    constructor default are not passed; fill2: two fill gases, so that the default scalar ratio is usable)."""
    from taurex.model import TransmissionModel, EmissionModel
    from taurex.data.planet import Planet
    from taurex.data.stellar import BlackbodyStar
    from taurex.data.profiles.temperature import Isothermal, Guillot2010, NPoint, Rodgers2000
    from taurex.data.profiles.chemistry import TaurexChemistry, ConstantGas, TwoLayerGas, PowerGas
    from taurex.data.profiles.chemistry.gas.twopointgas import TwoPointGas
    from taurex.contributions import (AbsorptionContribution, RayleighContribution, SimpleCloudsContribution,
                                      FlatMieContribution, LeeMieContribution)
    def kw(**pairs):
        # pairs: constructor keyword -> parameter name
        return {k: c[n] for k, n in pairs.items() if not (omit and n in DEFAULTS and c[n] == DEFAULTS[n])}
    if temp == 'isothermal':
        tp = Isothermal(**kw(T='T'))
    elif temp == 'guillot':
        tp = Guillot2010(**kw(T_irr='T_irr', kappa_irr='kappa_irr', kappa_v1='kappa_v1', kappa_v2='kappa_v2',
                              alpha='alpha', T_int='T_int_guillot'))
    elif temp == 'npoint':
        tp = NPoint(P_surface=c['P_surface'], P_top=c['P_top'], **kw(T_surface='T_surface', T_top='T_top'),
                    temperature_points=[c['T_point1'], c['T_point2']], pressure_points=[c['P_point1'], c['P_point2']],
                    smoothing_window=3)
    else:
        tp = Rodgers2000(temperature_layers=[c['T_%d' % (i + 1)] for i in range(NL)], **kw(correlation_length='correlation_length'))
    if fill2:
        chem = TaurexChemistry(fill_gases=['H2', 'He'], **kw(ratio='He_H2'))
    else:
        chem = TaurexChemistry(fill_gases=['H2', 'He', 'N2'], ratio=[c['He_H2'], c['N2_H2']])
    chem.addGas(ConstantGas('H2O', **kw(mix_ratio='H2O')))
    chem.addGas(TwoLayerGas('CH4', mix_ratio_smoothing=3, **kw(mix_ratio_surface='CH4_surface', mix_ratio_top='CH4_top', mix_ratio_P='CH4_P')))
    chem.addGas(TwoPointGas('CO2', **kw(mix_ratio_surface='CO2_surface', mix_ratio_top='CO2_top')))
    chem.addGas(PowerGas('NH3', mix_ratio_surface=c['NH3_surface'], alpha=c['NH3_alpha'], beta=c['NH3_beta'], gamma=c['NH3_gamma']))
    klass = TransmissionModel if family == 'transmission' else EmissionModel
    m = klass(planet=Planet(**kw(planet_mass='planet_mass', planet_radius='planet_radius', planet_distance='planet_distance')),
              star=BlackbodyStar(), chemistry=chem, temperature_profile=tp, nlayers=NL,
              **kw(atm_min_pressure='atm_min_pressure', atm_max_pressure='atm_max_pressure'))
    m.add_contribution(AbsorptionContribution())
    m.add_contribution(RayleighContribution())
    if family == 'transmission':
        m.add_contribution(SimpleCloudsContribution(**kw(clouds_pressure='clouds_pressure')))
    m.add_contribution(FlatMieContribution(**kw(flat_mix_ratio='flat_mix_ratio', flat_bottomP='flat_bottomP', flat_topP='flat_topP')))
    m.add_contribution(LeeMieContribution(**kw(lee_mie_radius='lee_mie_radius', lee_mie_q='lee_mie_q', lee_mie_mix_ratio='lee_mie_mix_ratio',
                                               lee_mie_bottomP='lee_mie_bottomP', lee_mie_topP='lee_mie_topP')))
    m.build()
    return m


def readings(m):
    out = {}
    for name, p in m.fittingParameters.items():
        try:
            out[name] = float(p[2]())
        except Exception as e:       # noqa
            out[name] = 'EXC:' + type(e).__name__
    return out


def same(a, b):
    if isinstance(a, str) or isinstance(b, str):
        return a == b
    return a == b or abs(a - b) <= 1e-12 * max(abs(a), abs(b))


def observe(m):
    try:
        r = m.model()
        return digest(dict(spec=np.asarray(r[1]), T=np.asarray(m.temperatureProfile), mix=np.asarray(m.chemistry.mixProfile),
                           mu=np.asarray(m.chemistry.muProfile), P=np.asarray(m.pressureProfile)))
    except Exception as e:   # noqa
        return 'EXC:' + type(e).__name__


class Route:
    """How a walked parameter is written: through model[name], or through Optimizer.update_model."""

    def __init__(self, kind, m, names, cur):
        self.kind, self.m, self.names = kind, m, names
        if kind == 'optimizer':
            from taurex.optimizer.nestle import NestleOptimizer
            from taurex.data.spectrum.array import ArraySpectrum
            wl = 10000.0 / WN[::-1]
            obs = ArraySpectrum(np.array([wl, np.full(8, 0.01), np.full(8, 1e-4)]).T)
            self.opt = NestleOptimizer(observed=obs, model=m, num_live_points=5)
            for n in list(m.fittingParameters):
                self.opt.disable_fit(n)
            for n in names:
                self.opt.enable_fit(n)
                self.opt.set_mode(n, 'linear')
                self.opt.set_boundary(n, [1e-30, 1e30])
            self.opt.compile_params()
            self.order = [n for n in self.opt.fit_names]
            if sorted(self.order) != sorted(names):
                raise Machinery('optimizer route: fitted names %r instead of %r' % (self.order, names))

    def write(self, name, value, cur):
        if self.kind == 'model':
            self.m[name] = value
        else:
            self.opt.update_model([value if n == name else cur[n] for n in self.order])


def walks_from_tlc(n, seed, depth=9):
    res = core.run_tlc('MC_ParamFrame', 'SIM_ParamFrame.cfg', workers=1, simulate='num=%d' % n, depth=depth + 3, seed=seed)
    w = res.tagged('WALK')
    if len(w) < max(1, n // 2):
        raise Machinery('TLC produced only %d registry walks' % len(w))
    return w, res


CHEM_NAMES = {'H2O', 'CH4_surface', 'CH4_top', 'CH4_P', 'CO2_surface', 'CO2_top', 'He_H2', 'N2_H2', 'NH3_surface', 'NH3_alpha',
              'NH3_beta', 'NH3_gamma'}


def scenarios(tier, only=None):
    if only == 'chemistry':       # the composition parameters, on one temperature family (used by C10)
        return [('isothermal', g) for g in GROUPS if set(g) & CHEM_NAMES]
    out = []
    for temp in ('isothermal', 'guillot', 'npoint', 'rodgers'):
        groups = TGROUPS[temp] + (GROUPS if (temp == 'npoint' or tier != 'quick') else GROUPS[(len(out)) % 3::3])
        for g in groups:
            out.append((temp, g))
    return out


def replay_one(temp, names, init, walk, route_kind, family, ids, style='explicit'):
    """Replay one walk; returns (events, trail, info).  style 'defaults': the first value of every parameter is its
    constructor default and arguments equal to the default are omitted when a model is built."""
    omit = style == 'defaults'
    fill2 = omit and 'N2_H2' not in names
    tab = tables(temp, defaults=omit)
    cur = {k: v[0] for k, v in tab.items()}
    # the defaults style starts from the all-defaults object (every argument omitted), where shared defaults live
    cfg = [0 if omit else init[d] % 3 for d in range(len(names))]
    for d, n in enumerate(names):
        cur[n] = tab[n][cfg[d]]
    if fill2:
        tab = {k: v for k, v in tab.items() if k != 'N2_H2'}
    m = build(temp, cur, family, omit, fill2)
    route = Route(route_kind, m, names, cur)
    base = readings(m)
    walked = set(names)
    for a in ALIASES:
        if a & walked:
            walked |= a

    def idx(name, r):
        for k, v in enumerate(tab[name]):
            if not isinstance(r, str) and same(r, v):
                return k
        return 99

    def look():
        r = readings(m)
        rd = [idx(n, r.get(n, 'missing')) for n in names]
        moved = sorted(k for k in base if k not in walked and not same(base[k], r.get(k, 'missing')))
        gone = sorted(set(base) - set(r)) + sorted(set(r) - set(base))
        return rd, (0 if (moved or gone) else 1), moved + gone, r

    def second_object():
        """a model built NOW with every defaultable argument left out must read the documented defaults"""
        if not omit:
            return 1
        c2 = dict(cur)
        c2.update({k: DEFAULTS[k] for k in DEFAULTS if k in c2})
        r2 = readings(build(temp, c2, family, True, fill2))
        wrong = sorted(k for k in DEFAULTS if k in r2 and not same(r2[k], float(DEFAULTS[k])))
        if wrong and 'moved' not in info:
            info['moved'] = 'a second model built with default arguments reads %s' % ', '.join('%s=%r (default %r)' % (k, r2[k], DEFAULTS[k]) for k in wrong[:3])
        return 0 if wrong else 1

    events, trail, info = [], [], {}
    rd, oth, moved, r = look()
    events.append(dict(ev='init', rd=rd, cfg=list(cfg), d=0, v=0, oth=oth, dflt=1, dig=0, fresh=0))
    for op, d, v in walk:
        if op == 'set':
            d0 = d - 1
            if d0 >= len(names):
                continue
            v0 = v % 3
            if v0 == cfg[d0]:
                continue
            cfg[d0] = v0
            name = names[d0]
            cur[name] = tab[name][v0]
            trail.append('%s=%r' % (name, cur[name]))
            try:
                route.write(name, cur[name], cur)
            except Exception as e:      # noqa
                trail.append('WRITE-RAISED:%s' % type(e).__name__)
            rd, oth, moved, r = look()
            if moved and 'moved' not in info:
                info['moved'] = 'after %s: other parameters changed: %s' % (trail[-1], ', '.join('%s %r -> %r' % (k, base.get(k), r.get(k)) for k in moved[:4]))
            events.append(dict(ev='set', rd=rd, cfg=[], d=d0 + 1, v=v0, oth=oth, dflt=second_object(), dig=0, fresh=0))
        else:
            a = observe(m)
            b = observe(build(temp, cur, family, omit, fill2))
            ia = ids.setdefault(a, len(ids) + 1)
            ib = ids.setdefault(b, len(ids) + 1)
            rd, oth, moved, r = look()
            trail.append('eval' + ('' if ia == ib else '!'))
            if ia != ib and 'diff' not in info:
                info['diff'] = 'long-lived %s... vs fresh %s...' % (a[:140], b[:140])
            events.append(dict(ev='eval', rd=rd, cfg=[], d=0, v=0, oth=oth, dflt=1, dig=ia, fresh=ib))
    return events, trail, info


def run_paramframe(ctx, nwalks, clause='registry_frame_rule', only=None):
    install_opacities()
    res0 = ctx.check_spec('registry design (ReadYourWrite, FrameRule, RunIsPure)', 'MC_ParamFrame', 'MC_ParamFrame.cfg')
    walks, res = walks_from_tlc(nwalks, ctx.seed + 23)
    ctx.add_tlc('simulate-registry-walks', res, counts=False)
    dense = []
    for w in walks:
        dw = []
        for step in w['walk']:
            dw.append(step)
            if step[0] == 'set':
                dw.append(['eval', 0, 0])
        dense.append(dict(init=w['init'], walk=dw))
    events, meta, ids = [], {}, {}
    tid = 0
    scs = scenarios(ctx.tier, only)
    for si, (temp, names) in enumerate(scs):
        for wi, w in enumerate(walks + dense):
            tid += 1
            route_kind = 'optimizer' if (wi + si) % 3 == 2 else 'model'
            family = 'emission' if (wi + si) % 4 == 1 and 'clouds_pressure' not in names else 'transmission'
            try:
                style = 'defaults' if (wi + 2 * si) % 2 == 1 else 'explicit'
                ev, trail, info = replay_one(temp, names, w['init'], w['walk'], route_kind, family, ids, style)
            except Machinery:
                raise
            except Exception as e:   # noqa
                raise Machinery('registry scenario %s %r cannot be replayed: %r' % (temp, names, e))
            for e in ev:
                e['tid'] = tid
            events += ev
            meta[tid] = dict(scenario='%s:%s:%s:%s:%s' % (family, temp, route_kind, style, '+'.join(names)), init=w['init'],
                             walk=w['walk'], trail=trail, info=info, temp=temp, names=names, route=route_kind, family=family, style=style)
    ok, bad, res2 = validate_trace('Trace_ParamFrame', 'Trace_ParamFrame.cfg', events, timeout=1200)
    ctx.add_tlc('trace-registry', res2, counts=False)
    if res2.postcondition_false and not bad:
        raise Machinery('registry trace not fully consumed:\n' + res2.out[-1200:])
    badt = {b['tid']: b for b in bad}
    for t, m in meta.items():
        b = badt.get(t)
        why = b['why'] if b else ''
        ctx.verdict(clause, b is None, cls='%s:%s' % (m['scenario'], why),
                    detail='%s after %s: %s %s' % (m['scenario'], ' '.join(m['trail']), why, m['info'].get('moved') or m['info'].get('diff') or ''),
                    vector=dict(paramframe=dict(temp=m['temp'], names=m['names'], route=m['route'], family=m['family'],
                                                style=m['style'], init=m['init'], walk=m['walk'])))
    ctx.traces += len(meta)
    good = [e for e in events if e['ev'] == 'set' and e['tid'] not in badt]
    if good:          # canary: a reading that does not follow the write must be rejected
        t = good[0]['tid']
        tr = [dict(e) for e in events if e['tid'] == t]
        for e in tr:
            if e['ev'] == 'set':
                e['rd'] = list(e['rd'])
                j = (e['d']) % len(e['rd'])
                e['rd'][j] = (e['rd'][j] + 1) % 3
                break
        ok3, bad3, _ = validate_trace('Trace_ParamFrame', 'Trace_ParamFrame.cfg', tr)
        if ok3 or not bad3 or bad3[0].get('why') not in ('FrameRule', 'ReadYourWrite'):
            raise Machinery('canary accepted: registry validation is vacuous')
    elif not ctx.has_violations():
        raise Machinery('no accepted write for the registry canary')
    return len(meta)


def replay_vector(ctx, v):
    install_opacities()
    p = v['vector']['paramframe']
    ids = {}
    ev, trail, info = replay_one(p['temp'], p['names'], p['init'], p['walk'], p['route'], p['family'], ids, p.get('style', 'explicit'))
    for e in ev:
        e['tid'] = 1
    ok, bad, _ = validate_trace('Trace_ParamFrame', 'Trace_ParamFrame.cfg', ev)
    ctx.verdict(v['clause'], not bad, cls=v['cls'], detail='replay: %s %s' % (' '.join(trail), bad[0]['why'] if bad else ''), vector=v['vector'])
